//! Worker loop of the parallel marking / evacuation phases (mirrors
//! `MarkingTask::{run, pop, trace, defensive_push}` in gc/swiper/marking.rs and
//! `CopyTask::{trace_gray_objects, push_item, defensive_push, pop}` in gc/swiper/minor.rs) over an
//! abstract pool: per worker a private `local` segment and a stealable deque, one global injector.
use crate::stub;

pub struct Terminator;
impl Terminator {
    #[inline(never)]
    pub fn try_terminate(&self) -> bool { unimplemented!() }
    #[inline(never)]
    pub fn wake_up(&self) { unimplemented!() }
}

stub! {
    fn verif_pop_local(me: usize) -> bool;
    fn verif_pop_worker(me: usize) -> bool;
    fn verif_pop_global(me: usize) -> bool;
    fn verif_steal(me: usize) -> bool;
    fn verif_process_begin(me: usize);
    fn verif_process_end(me: usize);
    fn verif_child(me: usize) -> u8;          // 0: no further child, 1: push to local, 2: local + defensive share, 3: push to own deque
    fn verif_push_local(me: usize);
    fn verif_share_local(me: usize);
    fn verif_push_worker(me: usize);
    fn verif_terminated(me: usize);
}


fn drv_c12_pop(me: usize) -> bool {
    if verif_pop_local(me) { return true; }
    if verif_pop_worker(me) { return true; }
    if verif_pop_global(me) { return true; }
    verif_steal(me)
}

pub fn drv_c12_worker(term: &Terminator, me: usize) {
    loop {
        if drv_c12_pop(me) {
            verif_process_begin(me);
            // children of the item (their number is bounded by the ghost budget inside verif_child)
            loop {
                match verif_child(me) {
                    0 => break,
                    1 => {
                        // trace(): local has capacity
                        verif_push_local(me);
                    }
                    2 => {
                        // trace() + defensive_push(): half of local goes to the injector, then wake_up
                        verif_push_local(me);
                        verif_share_local(me);
                        term.wake_up();
                    }
                    _ => {
                        // trace(): local full -> own stealable deque, then wake_up
                        verif_push_worker(me);
                        term.wake_up();
                    }
                }
            }
            verif_process_end(me);
        } else if term.try_terminate() {
            verif_terminated(me);
            break;
        } else {
            continue;
        }
    }
}

// ---------------------------------------------------------------------------------------------
// Variant "marking": the worker loop itself is the REAL `MarkingTask::{run, pop, trace,
// defensive_push}` from gc/swiper/marking.rs; only the leaves below it are environment: the
// segment / deque / injector operations (python models over the same abstract pool) and the
// object graph (`Object::visit_reference_fields` is redirected to `drv_c12_visit_fields`).
pub struct MarkingTask;
pub struct Slot(pub usize);
pub struct Obj(pub usize);
pub struct Addr(pub usize);

impl MarkingTask {
    #[inline(never)]
    pub fn run(&mut self) { unimplemented!() }
}

stub! {
    fn verif_child_exists() -> bool;
    fn verif_slot() -> Slot;
}

/// stands in for `Object::visit_reference_fields`: the object has some (budget-bounded) number of
/// reference fields; the closure is the real one from `MarkingTask::run`
pub fn drv_c12_visit_fields<F: FnMut(Slot)>(_obj: Obj, _shape_base: Addr, mut f: F) {
    loop {
        if !verif_child_exists() {
            break;
        }
        f(verif_slot());
    }
}

pub fn drv_c12_marking_worker(task: &mut MarkingTask, me: usize) {
    task.run();
    verif_terminated(me);
}

// ---------------------------------------------------------------------------------------------
// Variant "copy": the worker loop is the REAL `CopyTask::{trace_gray_objects, trace_young_object,
// trace_promoted_object, push, push_item, defensive_push, pop}` from gc/swiper/minor.rs.
// Environment: segment/deque/injector operations (python models), `is_young` (adversarial),
// `Object::visit_reference_fields` (redirected to drv_c12_visit_fields) and `evacuate_object`
// (redirected to drv_c12_evacuate: either another worker forwarded the object first, or this
// worker copies it and pushes the copy with the real `push`).
pub struct CopyTask;

impl CopyTask {
    #[inline(never)]
    pub fn trace_gray_objects(&mut self) { unimplemented!() }
    #[inline(never)]
    pub fn push(&mut self, addr: Addr) { unimplemented!() }
}

stub! {
    fn verif_copied_by_me() -> bool;
}

pub fn drv_c12_evacuate(task: &mut CopyTask, addr: Addr) -> Addr {
    if verif_copied_by_me() {
        task.push(Addr(addr.0));
    }
    addr
}

pub fn drv_c12_copy_worker(task: &mut CopyTask, me: usize) {
    task.trace_gray_objects();
    verif_terminated(me);
}
