//! Environment for C09: Dora's `Mutex` / `Condition` (pkgs/std/thread.dora — translated to Rust by
//! vsym/dora2rs.py into c09_gen.rs on every run) on top of the REAL native halves in
//! dora-runtime (stdlib.rs natives, runtime/waitlists.rs, threads.rs block/stop/join).
use crate::stub;

// Object layouts as the natives see them: word 0 is the object header, the atomic state follows.
pub struct AtomicInt32 { pub value: i32 }
pub struct Mutex { pub _hdr: usize, pub data: AtomicInt32, pub owner_thread_id: i64 }
pub struct Condition { pub _hdr: usize, pub waiters: AtomicInt32 }
pub struct DoraThread;
#[derive(Copy, Clone)]
pub struct Handle(pub usize);

// Dora's @internal atomic operations (one indivisible step each; the emitted instruction is C09(b))
impl AtomicInt32 {
    #[inline(never)] pub fn get(&mut self) -> i32 { unimplemented!() }
    #[inline(never)] pub fn set(&mut self, value: i32) { unimplemented!() }
    #[inline(never)] pub fn exchange(&mut self, value: i32) -> i32 { unimplemented!() }
    #[inline(never)] pub fn compare_exchange(&mut self, expected: i32, value: i32) -> i32 { unimplemented!() }
    #[inline(never)] pub fn fetch_add(&mut self, value: i32) -> i32 { unimplemented!() }
}

// natives: stand-ins, resolved to the real MIR bodies in dora-runtime/src/stdlib.rs
#[inline(never)] pub fn mutex_wait(mutex: Handle, value: i32) { unimplemented!() }
#[inline(never)] pub fn mutex_notify(mutex: Handle) { unimplemented!() }
#[inline(never)] pub fn condition_enqueue(cond: Handle) { unimplemented!() }
#[inline(never)] pub fn condition_block_after_enqueue(cond: Handle) { unimplemented!() }
#[inline(never)] pub fn condition_wakeup_one(cond: Handle) { unimplemented!() }
#[inline(never)] pub fn condition_wakeup_all(cond: Handle) { unimplemented!() }

impl DoraThread {
    #[inline(never)] pub fn stop(&self) { unimplemented!() }
    #[inline(never)] pub fn join(&self) { unimplemented!() }
}

stub! {
    fn verif_thread_id() -> i64;
    fn verif_hm(m: &mut Mutex) -> Handle;
    fn verif_hc(c: &mut Condition) -> Handle;
    fn verif_mutex() -> &'static mut Mutex;
    fn verif_cond() -> &'static mut Condition;
    fn verif_thread(t: usize) -> &'static DoraThread;
    fn verif_cs_enter(me: usize);
    fn verif_cs_leave(me: usize);
    fn verif_flag_get() -> bool;
    fn verif_flag_set();
    fn verif_work_done_set();
    fn verif_work_done_check();
}

/// role 0: plain critical sections
pub fn drv_c09_locker(me: usize, rounds: usize) {
    let mut i = 0;
    while i < rounds {
        let m = verif_mutex();
        m.lock_op();
        verif_cs_enter(me);
        verif_cs_leave(me);
        m.unlock_op();
        i += 1;
    }
}

/// role 1: wait on the condition until the flag is set (the usual while loop around wait)
pub fn drv_c09_waiter(me: usize) {
    let m = verif_mutex();
    m.lock_op();
    verif_cs_enter(me);
    while !verif_flag_get() {
        verif_cs_leave(me);
        verif_cond().wait(verif_mutex());
        verif_cs_enter(me);
    }
    verif_cs_leave(me);
    verif_mutex().unlock_op();
}

/// role 2/3: set the flag under the mutex and notify one / all
pub fn drv_c09_notifier(me: usize, all: bool) {
    let m = verif_mutex();
    m.lock_op();
    verif_cs_enter(me);
    verif_flag_set();
    if all {
        verif_cond().notify_all();
    } else {
        verif_cond().notify_one();
    }
    verif_cs_leave(me);
    verif_mutex().unlock_op();
}

/// role 4: a thread that finishes: its last write, then stop()
pub fn drv_c09_finisher(me: usize) {
    verif_work_done_set();
    verif_thread(me).stop();
}

/// role 5: join another thread, then read what it wrote
pub fn drv_c09_joiner(me: usize, target: usize) {
    verif_thread(target).join();
    verif_work_done_check();
}

stub! {
    fn verif_count_is_zero() -> bool;
    fn verif_count_inc();
    fn verif_count_dec();
}

/// role 6: consumer of a counting protocol: waits while the count is zero, then takes one
pub fn drv_c09_consumer(me: usize) {
    verif_mutex().lock_op();
    verif_cs_enter(me);
    while verif_count_is_zero() {
        verif_cs_leave(me);
        verif_cond().wait(verif_mutex());
        verif_cs_enter(me);
    }
    verif_count_dec();
    verif_cs_leave(me);
    verif_mutex().unlock_op();
}

/// role 7: producer: `rounds` times { lock; count += 1; unlock } with the notification either inside the
/// critical section or — as the API allows — after the mutex has been released
pub fn drv_c09_producer(me: usize, rounds: usize, all: bool, outside: bool) {
    let mut i = 0;
    while i < rounds {
        verif_mutex().lock_op();
        verif_cs_enter(me);
        verif_count_inc();
        if !outside {
            if all { verif_cond().notify_all(); } else { verif_cond().notify_one(); }
        }
        verif_cs_leave(me);
        verif_mutex().unlock_op();
        if outside {
            if all { verif_cond().notify_all(); } else { verif_cond().notify_one(); }
        }
        i += 1;
    }
}
