#!/usr/bin/env python3
"""Validation of the MIR interpreter's std models against native execution (translator validation in the sense of
DESIGN §2): every function of engines/drivers/src/selftest.rs is run (1) natively, compiled with overflow checks, on a
list of edge inputs and (2) through vsym — once per input with concrete arguments and once with symbolic arguments,
where every explored path's (path condition, result term) is evaluated under each input.  Any disagreement is a
model bug.  Run:  python3-vt tools/model_selftest.py   (exit 0 = all agree)"""
import os
import subprocess
import sys

sys.path.insert(0, os.path.join(os.path.dirname(os.path.abspath(__file__)), ".."))
import z3                                            # noqa: E402
from vsym import common                              # noqa: E402
from vsym.common import Inconclusive                 # noqa: E402
from vsym.mir import parse as P, models as M         # noqa: E402
from vsym.mir.interp import Interp, Explorer, Int, Panic, PathAbort   # noqa: E402

EDGE = [0, 1, 2, 3, 4, 5, 7, 8, 9, 15, 16, 31, 32, 33, 63, 64, 65, 0x41, 0x5a, 0x61, 0x7a, 0x30, 0x39, 0x66, 0x7f, 0x80, 0xff, 0x100, 0x1234,
        0xd7ff, 0xd800, 0xdfff, 0xe000, 0x10ffff, 0x110000, 0x7fffffff, 0x80000000, 0x80000001, 0xffffffff, 0x100000000,
        0x61626364, 0x41420061, 0x7fffffffffffffff, 0x8000000000000000, 0xfffffffffffffffe, 0xffffffffffffffff]


def inputs():
    out = []
    for i, a in enumerate(EDGE):
        for j in (0, 1, 3, 5, 7, 11, 17, 23, 29, 37, 41, 45):
            out.append((a, EDGE[(i + j) % len(EDGE)]))
    return out


def main():
    common.ensure_dirs()
    work = os.path.join(common.WORK, "selftest")
    os.makedirs(work, exist_ok=True)
    exe = os.path.join(work, "st_native")
    subprocess.run(["rustc", "-O", "-C", "overflow-checks=on", "-C", "debug-assertions=on", "-o", exe,
                    os.path.join(common.VERIF, "engines", "drivers", "selftest_main.rs")], check=True, cwd=work,
                   stdout=subprocess.DEVNULL, stderr=subprocess.DEVNULL)
    ins = inputs()
    p = subprocess.run([exe] + ["%d,%d" % ab for ab in ins], stdout=subprocess.PIPE, universal_newlines=True, check=True)
    native = {}
    for ln in p.stdout.splitlines():
        n, a, b, r = ln.split()
        native[(n, int(a), int(b))] = r
    prog = P.parse_file(common.drivers_mir_dump(), os.path.join(common.WORK, "drivers-src"))
    names = sorted({k[0] for k in native})
    only = sys.argv[1:]
    bad = 0
    incon = []
    for n in names:
        if only and n not in only:
            continue
        fn = prog.find(n, 2)
        if fn is None:
            print("MISSING", n)
            bad += 1
            continue
        # symbolic run: collect (pc, outcome)
        paths = []
        a, b = z3.BitVec("a", 64), z3.BitVec("b", 64)
        it = Interp(prog, M.MODELS)
        ex = Explorer(query_timeout_ms=60000)

        def body(ctx):
            try:
                r = it.call(ctx, n, [Int(a, "u64"), Int(b, "u64")])
                paths.append((list(ctx.pc), r.t))
            except Panic:
                paths.append((list(ctx.pc), None))
        try:
            ex.run(body)
        except Inconclusive as e:
            incon.append((n, str(e)[:160]))
            continue
        except Exception as e:      # noqa: a crash of the interpreter is reported per function
            import traceback
            incon.append((n, "CRASH " + traceback.format_exc().splitlines()[-3].strip() + " :: " + repr(e)[:120]))
            continue
        nbad = 0
        for (x, y) in ins:
            want = native[(n, x, y)]
            sub = [(a, z3.BitVecVal(x, 64)), (b, z3.BitVecVal(y, 64))]
            hits = []
            for pc, r in paths:
                if all(z3.is_true(z3.simplify(z3.substitute(c, *sub))) for c in pc):
                    hits.append("PANIC" if r is None else str(z3.simplify(z3.substitute(r, *sub)).as_long()))
            if hits != [want]:
                nbad += 1
                if nbad <= 3:
                    print("MISMATCH %s(%#x, %#x): native %s, vsym paths %s" % (n, x, y, want, hits))
        # concrete runs on a few inputs (exercises the concrete fast paths of the models)
        for (x, y) in ins[::7]:
            res = []
            itc = Interp(prog, M.MODELS)

            def cbody(ctx):
                try:
                    res.append(str(z3.simplify(itc.call(ctx, n, [Int(x, "u64"), Int(y, "u64")]).t).as_long()))
                except Panic:
                    res.append("PANIC")
            Explorer(query_timeout_ms=60000).run(cbody)
            if res != [native[(n, x, y)]]:
                nbad += 1
                if nbad <= 6:
                    print("MISMATCH(concrete) %s(%#x, %#x): native %s, vsym %s" % (n, x, y, native[(n, x, y)], res))
        print("%-24s %s (%d paths)" % (n, "ok" if not nbad else "%d MISMATCHES" % nbad, len(paths)))
        bad += nbad
    for n, e in incon:
        print("INCONCLUSIVE %s: %s" % (n, e))
    print("functions=%d inputs=%d mismatches=%d inconclusive=%d" % (len(names), len(ins), bad, len(incon)))
    return 1 if bad or incon else 0


if __name__ == "__main__":
    sys.exit(main())
