"""Mode `bmc`: control-flow automata from MIR by symbolic execution of the code between
visible operations (large-block encoding), then a K-step unrolling with a symbolic schedule,
decided by z3 over QF_BV.

A *node* is a thread's control location in front of a visible operation: the call stack
((function, block) per frame) plus the static part of the live locals; the symbolic part of the
live locals lives in per-thread registers.  An *edge* executes the visible operation at its
source node and the thread-local code after it, up to (not including) the next visible
operation; edges are enumerated with the seq interpreter (path exploration), so guards and
updates are z3 terms over the shared state variables, the thread's registers and the step's
choice variables."""
import re
import time

import z3

from ..common import Inconclusive, log
from . import parse as P
from .interp import (Adt, Cell, Ctx, Explorer, FnItem, Frame, Int, Interp, Opaque, Panic, PathAbort, Ref, Slice, Tup,
                     UNIT, VecV, INT_W, canon_callee, get_path)

LOCK_RE = re.compile(r"(parking_lot::)?(lock_api::)?Mutex::lock")
DONE, PANIC = "DONE", "PANIC"
NCHOICE = 8
NARROW = 8      # unsigned shared counters / registers are stored in NARROW bits; every write carries the
                # obligation "the dropped high bits are zero" (a reachable violation makes the run inconclusive)


class YieldAt(Exception):
    pass


# ------------------------------------------------------------------------------------------
# flattening values <-> (skeleton, leaves)

class Flat:
    """flattens value trees; leaves are symbolic Int/Bool terms"""

    def __init__(self, frame_cells=None, narrow=None):
        self.narrow = narrow        # callback(term, width) -> stored width (<= width)
        self.leaves = []            # (sortkey, term)
        self.frame_cells = frame_cells or {}    # id(cell) -> ('frame', depth, local)
        self.shared = {}            # id(cell) -> tag

    def skel(self, v):
        if v is None:
            return ("N",)
        if isinstance(v, Int):
            c = v.conc()
            if c is not None:
                return ("Ic", v.ty, c)
            w = v.w
            if self.narrow is not None and not v.ty.startswith("i") and w > NARROW:
                w = self.narrow(v.t, w)
            if w < v.w:
                self.leaves.append(("bv%d" % w, z3.Extract(w - 1, 0, v.t)))
            else:
                self.leaves.append(("bv%d" % v.w, v.t))
            return ("I", v.ty, w)
        if z3.is_expr(v) and z3.is_bool(v):
            s = z3.simplify(v)
            if z3.is_true(s):
                return ("Bc", True)
            if z3.is_false(s):
                return ("Bc", False)
            self.leaves.append(("bool", v))
            return ("B",)
        if isinstance(v, Tup):
            return ("T", v.name, tuple(v.fnames) if v.fnames else None, tuple(self.skel(x) for x in v.fields))
        if isinstance(v, Adt):
            return ("A", v.name, v.variant, tuple(self.skel(x) for x in v.fields))
        if isinstance(v, VecV):
            return ("V", v.kind, tuple(self.skel(x) for x in v.elems))
        if isinstance(v, Slice):
            return ("S", v.kind, tuple(self.skel(x) for x in v.elems))
        if isinstance(v, Ref):
            cid = id(v.cell)
            if cid in self.shared:
                return ("R", ("shared", self.shared[cid]), v.path)
            if cid in self.frame_cells:
                return ("R", self.frame_cells[cid], v.path)
            return ("Rt", self.skel(v.cell.v), v.path)
        if isinstance(v, FnItem):
            return ("F", v.name)
        if isinstance(v, Opaque):
            if isinstance(v.payload, (list, tuple)):
                return ("O", v.what, tuple(self.skel(x) if not isinstance(x, (str, int, type(None))) else ("lit", x) for x in v.payload))
            if v.payload is None:
                return ("O", v.what, None)
            return ("O1", v.what, self.skel(v.payload))
        raise Inconclusive("cannot carry %r across a visible operation" % (v,))


def rebuild(sk, leaves, cellmap):
    """inverse of Flat.skel: `leaves` is an iterator of terms, cellmap resolves cell ids"""
    k = sk[0]
    if k == "N":
        return None
    if k == "Ic":
        return Int(sk[2], sk[1])
    if k == "I":
        t = next(leaves)
        w = INT_W[sk[1]]
        if len(sk) > 2 and sk[2] < w:
            t = z3.ZeroExt(w - sk[2], t)
        return Int(t, sk[1])
    if k == "Bc":
        return z3.BoolVal(sk[1])
    if k == "B":
        return next(leaves)
    if k == "T":
        return Tup([rebuild(x, leaves, cellmap) for x in sk[3]], sk[1], list(sk[2]) if sk[2] else None)
    if k == "A":
        return Adt(sk[1], sk[2], [rebuild(x, leaves, cellmap) for x in sk[3]])
    if k == "V":
        return VecV([rebuild(x, leaves, cellmap) for x in sk[2]], sk[1])
    if k == "S":
        return Slice([rebuild(x, leaves, cellmap) for x in sk[2]], sk[1])
    if k == "R":
        return Ref(cellmap[sk[1]], sk[2])
    if k == "Rt":
        return Ref(Cell(rebuild(sk[1], leaves, cellmap), "tmp"), sk[2])
    if k == "F":
        return FnItem(sk[1])
    if k == "O":
        if sk[2] is None:
            return Opaque(sk[1])
        return Opaque(sk[1], tuple(x[1] if x[0] == "lit" else rebuild(x, leaves, cellmap) for x in sk[2]))
    if k == "O1":
        return Opaque(sk[1], rebuild(sk[2], leaves, cellmap))
    raise Inconclusive("skeleton " + k)


# ------------------------------------------------------------------------------------------
# liveness of MIR locals

def _place_uses(pl, out):
    out.add(pl.local)
    for pj in pl.projs:
        if pj[0] == "index":
            out.add(pj[1])


def _operand_uses(op, out):
    if op[0] in ("copy", "move"):
        _place_uses(op[1], out)


def _rvalue_uses(rv, out, addr_taken):
    k = rv[0]
    if k == "use":
        _operand_uses(rv[1], out)
    elif k in ("ref", "rawptr"):
        _place_uses(rv[2], out)
        if not any(p[0] == "deref" for p in rv[2].projs):
            addr_taken.add(rv[2].local)
    elif k == "binop":
        _operand_uses(rv[2], out); _operand_uses(rv[3], out)
    elif k == "unop":
        _operand_uses(rv[2], out)
    elif k == "cast":
        _operand_uses(rv[1], out)
    elif k in ("discr", "len"):
        _place_uses(rv[1], out)
    elif k == "aggregate":
        for _, o in rv[3]:
            _operand_uses(o, out)
    elif k == "repeat":
        _operand_uses(rv[1], out)
    elif k == "shallowbox":
        _operand_uses(rv[1], out)


class Liveness:
    def __init__(self, fn):
        self.fn = fn
        self.addr_taken = set()
        use, defs, succ = {}, {}, {}
        self.term_use = {}
        for b, blk in fn.blocks.items():
            u, d = set(), set()
            for st in blk.stmts:
                if st.kind == "assign":
                    uu = set()
                    _rvalue_uses(st.b, uu, self.addr_taken)
                    if st.a.projs:
                        _place_uses(st.a, uu)
                    u |= (uu - d)
                    if not st.a.projs:
                        d.add(st.a.local)
                elif st.kind == "setdiscr":
                    if st.a.local not in d:
                        u.add(st.a.local)
            t = blk.term
            tu = set()
            nxt = []
            if t.kind == "goto":
                nxt = [t.f["bb"]]
            elif t.kind == "switch":
                _operand_uses(t.f["op"], tu)
                nxt = [b2 for _, b2 in t.f["arms"]] + ([t.f["otherwise"]] if t.f["otherwise"] is not None else [])
            elif t.kind == "assert":
                _operand_uses(t.f["cond"], tu)
                nxt = [t.f["bb"]] if t.f["bb"] is not None else []
            elif t.kind == "call":
                for a in t.f["args"]:
                    _operand_uses(a, tu)
                c = t.f["callee"].strip()
                if re.match(r"^(copy |move )?_\d+$", c):
                    _operand_uses(P.parse_operand(c), tu)
                if t.f["dest"] is not None and t.f["dest"].projs:
                    _place_uses(t.f["dest"], tu)
                nxt = [t.f["bb"]] if t.f["bb"] is not None else []
            elif t.kind == "drop":
                _place_uses(t.f["place"], tu)
                nxt = [t.f["bb"]] if t.f["bb"] is not None else []
            elif t.kind == "return":
                tu.add(0)
            self.term_use[b] = tu
            u |= (tu - d)
            use[b], defs[b], succ[b] = u, d, nxt
        self.succ = succ
        live_in = {b: set() for b in fn.blocks}
        changed = True
        while changed:
            changed = False
            for b in fn.blocks:
                out = set()
                for s2 in succ[b]:
                    out |= self.call_live_in(live_in, b, s2)
                li = use[b] | (out - defs[b])
                if li != live_in[b]:
                    live_in[b] = li
                    changed = True
        self.live_in = live_in

    def call_live_in(self, live_in, b, s2):
        t = self.fn.blocks[b].term
        li = set(live_in[s2])
        if t.kind == "call" and t.f["dest"] is not None and not t.f["dest"].projs:
            li.discard(t.f["dest"].local)
        return li

    def live_at_call(self, b, inner):
        """locals live when block b's call terminator is pending.  inner=True: the call itself is
        still to be executed (its argument operands are needed)."""
        t = self.fn.blocks[b].term
        li = set()
        for s2 in self.succ[b]:
            li |= self.call_live_in(self.live_in, b, s2)
        if inner:
            li |= self.term_use[b]
        return li | self.addr_taken


# ------------------------------------------------------------------------------------------
# the system

class Node:
    __slots__ = ("key", "frames", "skels", "nleaves", "idx", "sorts")

    def __init__(self, key, frames, skels, sorts):
        self.key, self.frames, self.skels, self.sorts = key, frames, skels, sorts
        self.idx = None


class Edge:
    __slots__ = ("src", "dst", "guard", "supd", "rupd", "label", "panic", "reads", "writes")

    def __init__(self, src, dst, guard, supd, rupd, label, panic=None):
        self.src, self.dst, self.guard, self.supd, self.rupd, self.label, self.panic = src, dst, guard, supd, rupd, label, panic
        self.reads = self.writes = None

    def footprint(self):
        """shared state variables read (guard + update terms) and written by this edge"""
        if self.reads is None:
            w = set()
            terms = [self.guard] + [t for _, _, t in self.rupd]
            for name, u in self.supd.items():
                if not (z3.is_const(u) and u.decl().name() == name):
                    w.add(name)
                    terms.append(u)
            r = set(n for n in const_names(terms) if n.startswith("S!"))
            self.reads, self.writes = r, w
        return self.reads, self.writes


def const_names(terms):
    seen, out, st = set(), set(), list(terms)
    while st:
        e = st.pop()
        i = e.get_id()
        if i in seen:
            continue
        seen.add(i)
        if z3.is_const(e) and e.decl().kind() == z3.Z3_OP_UNINTERPRETED:
            out.add(e.decl().name())
        else:
            st.extend(e.children())
    return out


def independent(e1, e2):
    r1, w1 = e1.footprint()
    r2, w2 = e2.footprint()
    return not (w1 & (r2 | w2)) and not (w2 & (r1 | w1))


class System:
    """shared state + thread programs; builds CFAs and encodes the unrolling"""

    def __init__(self, progs, models, visible, nthreads):
        self.progs = progs
        self.models = models
        self.visible = visible            # predicate(canon callee) -> bool
        self.T = nthreads
        self.roots = {}                   # tag -> Cell
        self.root_skel = {}               # tag -> skeleton
        self.svars = []                   # [(name, sortkey, base const, init value term)]
        self.threads = []                 # per thread: dict(entry=Fn, args=[values])
        self.live = {}
        self.cfa = []                     # per thread: (nodes list, edges list)
        self.stats = {"edge_paths": 0, "edge_queries": 0, "edge_time": 0.0}
        self.guard_types = ("MutexGuard",)
        self.wide = set()                 # (tag, leaf index) of roots that must keep their full width
        self.reduce_locks = True
        self.interp_fns = set()
        self.models_used = set()

    # -- shared state
    def add_root(self, tag, value):
        c = Cell(value, tag)
        self.roots[tag] = c
        fl = Flat()
        # all leaves of a root are state variables, also those that start concrete
        sk, leaves = self._skel_all_symbolic(value)
        self.root_skel[tag] = sk
        for i, (sort, init) in enumerate(leaves):
            name = "S!%s!%d" % (tag, i)
            if sort.startswith("bv") and int(sort[2:]) > NARROW and (tag, i) not in self.wide:
                iv = z3.simplify(init)
                if not z3.is_bv_value(iv) or iv.as_long() >= (1 << NARROW):
                    raise Inconclusive("initial value of %s does not fit %d bits" % (name, NARROW))
                sort = "bv%d" % NARROW
                init = z3.BitVecVal(iv.as_long(), NARROW)
            self.svars.append((name, sort, mk_const(name, sort), init, tag, i))
        return c

    def _skel_all_symbolic(self, v):
        leaves = []

        def go(v):
            if v is None:
                return ("N",)
            if isinstance(v, Int):
                leaves.append(("bv%d" % v.w, v.t))
                return ("I", v.ty)
            if z3.is_expr(v) and z3.is_bool(v):
                leaves.append(("bool", v))
                return ("B",)
            if isinstance(v, Tup):
                # (shape comparison is by structure: the type name may be spelled with or without its module path)
                return ("T", short_name(v.name), None, tuple(go(x) for x in v.fields))
            if isinstance(v, Adt):
                return ("A", short_name(v.name), v.variant, tuple(go(x) for x in v.fields))
            if isinstance(v, VecV):
                return ("V", v.kind, tuple(go(x) for x in v.elems))
            if isinstance(v, Ref):
                for tag, c in self.roots.items():
                    if c is v.cell:
                        return ("R", ("shared", tag), v.path)
                raise Inconclusive("root holds a reference to a non-root cell")
            if isinstance(v, Opaque) and v.payload is None:
                return ("O", v.what, None)
            raise Inconclusive("shared root value %r" % (v,))
        return go(v), leaves

    def root_ref(self, tag, path=()):
        return Ref(self.roots[tag], path)

    def load_roots(self, subst=None):
        """put the current-step symbolic state into the root cells"""
        cellmap = {("shared", t): c for t, c in self.roots.items()}
        by_tag = {}
        for name, sort, const, init, tag, i in self.svars:
            by_tag.setdefault(tag, []).append((const, sort))
        for tag, c in self.roots.items():
            full = self._leaf_widths(self.root_skel[tag])
            terms = []
            for (const, sort), fw in zip(by_tag.get(tag, []), full):
                if sort != "bool" and int(sort[2:]) < fw:
                    terms.append(z3.ZeroExt(fw - int(sort[2:]), const))
                else:
                    terms.append(const)
            c.v = rebuild(self.root_skel[tag], iter(terms), cellmap)

    def _leaf_widths(self, sk):
        out = []

        def go(sk):
            k = sk[0]
            if k == "I":
                out.append(INT_W[sk[1]])
            elif k == "B":
                out.append(1)
            elif k in ("T", "A"):
                for x in sk[3]:
                    go(x)
            elif k == "V":
                for x in sk[2]:
                    go(x)
        go(sk)
        return out

    def read_roots(self):
        """update terms for all state variables after an edge; second result: conditions under which a
        narrowed variable would lose high bits"""
        out = {}
        ovf = []
        sorts = {name: sort for name, sort, const, init, tag, i in self.svars}
        for tag, c in self.roots.items():
            sk, leaves = self._skel_all_symbolic(c.v)
            if sk != self.root_skel[tag]:
                raise Inconclusive("shape of shared root %s changed during an edge: %s" % (tag, skel_diff(self.root_skel[tag], sk)))
            for i, (sort, term) in enumerate(leaves):
                name = "S!%s!%d" % (tag, i)
                st = sorts[name]
                if st != sort:
                    w, fw = int(st[2:]), int(sort[2:])
                    hi = z3.simplify(z3.Extract(fw - 1, w, term) != 0)
                    if not z3.is_false(hi):
                        ovf.append((name, hi))
                    term = z3.simplify(z3.Extract(w - 1, 0, term))
                out[name] = term
        return out, ovf

    # -- threads
    def add_thread(self, entry_fn, args):
        self.threads.append({"entry": entry_fn, "args": args})

    def liveness(self, fn):
        if fn.name not in self.live:
            self.live[fn.name] = Liveness(fn)
        return self.live[fn.name]

    def reg_const(self, t, sort, i):
        return mk_const("R!%d!%s!%d" % (t, sort, i), sort)

    def choice_const(self, i):
        return z3.BitVec("CH!%d" % i, 8)

    # -- node capture / rebuild
    def capture(self, stack, ctx=None):
        """stack in front of a visible operation -> (key, frames, skels, leaves)"""
        frame_cells = {}
        live_sets = []
        for d, fr in enumerate(stack):
            lv = self.liveness(fr.fn).live_at_call(fr.bb, inner=(d == len(stack) - 1))
            live_sets.append(sorted(l for l in lv if l in fr.cells and fr.cells[l].v is not None))
            for l, c in fr.cells.items():
                frame_cells[id(c)] = ("frame", d, l)
        def narrow(term, w):
            if ctx is None:
                return w
            hi = z3.simplify(z3.Extract(w - 1, NARROW, term) != 0)
            if z3.is_false(hi) or not ctx.can(hi):
                return NARROW
            return w
        fl = Flat(frame_cells, narrow)
        fl.shared = {id(c): t for t, c in self.roots.items()}
        frames, skels = [], []
        for d, fr in enumerate(stack):
            frames.append((fr.fn.name, fr.bb))
            skels.append(tuple((l, fl.skel(fr.cells[l].v)) for l in live_sets[d]))
        key = (tuple(frames), tuple(skels))
        return key, tuple(frames), tuple(skels), fl.leaves

    def restore(self, t, node, it):
        """fresh frames for `node` with register constants as symbolic leaves"""
        stack = []
        cellmap = {("shared", tg): c for tg, c in self.roots.items()}
        for d, (fname, bb) in enumerate(node.frames):
            fn = it.find_fn(fname, None)
            fr = Frame(fn)
            fr.bb = bb
            fr.mid = True
            stack.append(fr)
            for l, sk in node.skels[d]:
                c = Cell(None, "%s._%d" % (fname, l))
                fr.cells[l] = c
                cellmap[("frame", d, l)] = c
        # references may name non-live locals of live frames: give them empty cells
        counters = {}

        def regs():
            for sort in node.sorts:
                i = counters.get(sort, 0)
                counters[sort] = i + 1
                yield self.reg_const(t, sort, i)
        leaves = regs()

        class CM(dict):
            def __missing__(s2, k):
                if k[0] == "frame":
                    c = Cell(None, "frame-local")
                    stack[k[1]].cells[k[2]] = c
                    s2[k] = c
                    return c
                raise KeyError(k)
        cm = CM(cellmap)
        for d, fr in enumerate(stack):
            for l, sk in node.skels[d]:
                fr.cells[l].v = rebuild(sk, leaves, cm)
        return stack

    def make_hook(self, state):
        """decides where an edge ends.  Lipton reduction: releasing a mutex is a left mover (executed at the end
        of the edge that precedes it), acquiring one is a right mover (it opens an edge but does not use up the
        edge's one visible operation, unless the next visible operation is itself an acquisition)."""
        def on_visible(interp, stack, callee, model):
            is_unlock = False
            if callee == "drop":
                fr = stack[-1]
                pl = fr.fn.blocks[fr.bb].term.f["place"]
                ty = fr.fn.locals.get(pl.local, "")
                vis = (not pl.projs) and any(g in ty for g in self.guard_types) and fr.cells.get(pl.local) is not None \
                    and fr.cells[pl.local].v is not None
                is_unlock = vis
            else:
                vis = self.visible(callee)
            if not vis:
                return
            if is_unlock and self.reduce_locks:
                state["label"].append("unlock")
                return
            is_lock = self.reduce_locks and LOCK_RE.fullmatch(callee) is not None
            if state["ops"] >= 1 or (is_lock and state.get("lock_open")):
                raise YieldAt()
            state["label"].append(callee)
            if is_lock:
                state["lock_open"] = True
                return
            state["ops"] += 1
        return on_visible

    # -- CFA construction
    def build(self, deadline=None):
        for t, th in enumerate(self.threads):
            nodes, edges = self.build_thread(t, th, deadline)
            self.cfa.append((nodes, edges))

    def build_thread(self, t, th, deadline):
        nodes = {}
        order = []
        edges = []
        start_key = ("START",)
        work = [start_key]
        nodes[start_key] = Node(start_key, (), (), ())
        order.append(nodes[start_key])
        sysm = self

        while work:
            if deadline and time.time() > deadline:
                raise Inconclusive("CFA construction deadline exceeded")
            key = work.pop()
            node = nodes[key]
            ex = Explorer(query_timeout_ms=30000, max_steps=20000)

            def body(ctx, node=node):
                it = Interp(self.progs[0], self.models, self.progs[1:])
                it.enum_discr.update(getattr(sysm, "extra_discr", {}))
                it.hooks.update(getattr(sysm, "hooks", {}))
                it.redirects.update(getattr(sysm, "redirects", {}))
                it.const_overrides.update(getattr(sysm, "const_overrides", {}))
                it.system = sysm
                it.thread = t
                ctx.thread = t
                ctx.system = sysm
                ctx.choice_n = 0
                self.load_roots()
                state = {"ops": 0, "label": []}

                on_visible = self.make_hook(state)
                ctx.on_visible = on_visible
                panic = None
                try:
                    if node.key == start_key:
                        stack = [it.new_frame(th["entry"], list(th["args"]))]
                        # the first edge of a thread executes local code up to the first visible op only
                        state["ops"] = 1
                        state["label"].append("<start>")
                    else:
                        stack = self.restore(t, node, it)
                    it.exec(ctx, stack, 1)
                    dst = DONE
                    dkey, leaves, dnode = DONE, [], None
                except YieldAt:
                    dkey, frames, skels, leaves = self.capture(stack, ctx)
                    dst = dkey
                    dnode = (frames, skels, tuple(s for s, _ in leaves))
                except Panic as p:
                    dst = PANIC
                    dkey, leaves, dnode = PANIC, [], None
                    panic = "%s @ %s" % (p.msg, p.where)
                supd, ovf = self.read_roots()
                for name, cond in ovf:
                    if ctx.branch(cond):
                        dkey, leaves, dnode = PANIC, [], None
                        panic = "RANGE: narrowed state variable %s exceeds %d bits" % (name, NARROW)
                        break
                guard = z3.And(*ctx.pc) if ctx.pc else z3.BoolVal(True)
                self.interp_fns |= it.called
                self.models_used |= it.models_used
                if dnode is not None and dkey not in nodes:
                    nodes[dkey] = Node(dkey, dnode[0], dnode[1], dnode[2])
                    order.append(nodes[dkey])
                    work.append(dkey)
                counters = {}
                rupd = []
                for sort, term in leaves:
                    i = counters.get(sort, 0)
                    counters[sort] = i + 1
                    rupd.append((sort, i, term))
                edges.append(Edge(key, dkey, guard, supd, rupd, "+".join(state["label"]), panic))
            t0 = time.time()
            ex.run(body)
            self.stats["edge_paths"] += ex.paths
            self.stats["edge_queries"] += ex.queries
            self.stats["edge_time"] += time.time() - t0
        for i, n in enumerate(order):
            n.idx = i
        return order, edges

    # -- replay of a trace by direct, concrete execution of the MIR (independent of the CFA extraction,
    #    liveness, register allocation, narrowing, partial-order reduction, unrolling and SAT encoding)
    def replay(self, trace, expect):
        """expect: 'panic' (the last step must end in a panic whose text contains trace[-1]['panic'] prefix)
        or 'deadlock' (after the trace no thread is enabled and not all are finished).
        Returns (reproduced: bool, log lines)."""
        logl = []
        cellmap = {("shared", t): c for t, c in self.roots.items()}
        by_tag = {}
        for name, sort, const, init, tag, i in self.svars:
            by_tag.setdefault(tag, []).append(init)
        for tag, c in self.roots.items():
            full = self._leaf_widths(self.root_skel[tag])
            terms = []
            for init, fw in zip(by_tag.get(tag, []), full):
                if z3.is_bv(init) and init.size() < fw:
                    init = z3.simplify(z3.ZeroExt(fw - init.size(), init))
                terms.append(init)
            c.v = rebuild(self.root_skel[tag], iter(terms), cellmap)
        T = self.T
        stacks = [None] * T
        done = [False] * T
        interps = []
        for t in range(T):
            it = Interp(self.progs[0], self.models, self.progs[1:])
            it.enum_discr.update(getattr(self, "extra_discr", {}))
            it.hooks.update(getattr(self, "hooks", {}))
            it.redirects.update(getattr(self, "redirects", {}))
            it.const_overrides.update(getattr(self, "const_overrides", {}))
            it.system, it.thread = self, t
            interps.append(it)

        def run_one(t, choices, dry=False):
            """execute thread t up to (not including) its next visible operation after having executed one;
            -> ('yield'|'done'|'panic'|'blocked', label, panic text)"""
            it = interps[t]
            ex = Explorer(max_steps=200000)
            ctx = Ctx(ex, ())
            ctx.thread, ctx.system, ctx.choice_n = t, self, 0
            ctx.replay_choices = choices
            state = {"ops": 0, "label": []}

            on_visible = self.make_hook(state)
            ctx.on_visible = on_visible
            if stacks[t] is None:
                th = self.threads[t]
                stacks[t] = [it.new_frame(th["entry"], list(th["args"]))]
                state["ops"] = 1
                state["label"].append("<start>")
            else:
                stacks[t][-1].mid = True
            try:
                it.exec(ctx, stacks[t], 1)
                return "done", "+".join(state["label"]), None
            except YieldAt:
                return "yield", "+".join(state["label"]), None
            except Panic as p:
                return "panic", "+".join(state["label"]), "%s @ %s" % (p.msg, p.where)
            except PathAbort:
                return "blocked", "+".join(state["label"]), None

        last = None
        for st in trace:
            t = st["thread"]
            if done[t]:
                return False, logl + ["step %d: thread %d already finished" % (st["step"], t)]
            kind, label, ptxt = run_one(t, st.get("choices") or [0] * NCHOICE)
            logl.append("step %d thread %d: %s -> %s%s" % (st["step"], t, label, kind, (" " + ptxt) if ptxt else ""))
            if kind == "blocked":
                return False, logl + ["step %d: operation of thread %d is not enabled in the concrete run" % (st["step"], t)]
            if label != st["op"]:
                return False, logl + ["step %d: concrete run executed `%s`, trace says `%s`" % (st["step"], label, st["op"])]
            if kind == "done":
                done[t] = True
            if (kind == "panic") != bool(st.get("panic")):
                return False, logl + ["step %d: panic mismatch (concrete: %s, trace: %s)" % (st["step"], ptxt, st.get("panic"))]
            last = (kind, ptxt)
            if kind == "panic":
                break
        if expect == "panic":
            ok = last is not None and last[0] == "panic"
            return ok, logl
        if callable(expect):
            return bool(expect(self, done)), logl
        if expect == "deadlock":
            if all(done):
                return False, logl + ["all threads finished: no deadlock"]
            for t in range(T):
                if done[t]:
                    continue
                # (a blocked operation aborts before it changes anything; an enabled one ends the probe)
                kind, label, ptxt = run_one(t, [0] * NCHOICE)
                if kind != "blocked":
                    return False, logl + ["thread %d can still execute `%s`: no deadlock" % (t, label)]
            return True, logl + ["no unfinished thread has an enabled operation: deadlock reproduced"]
        return False, logl

    # -- encoding
    def encode(self, K, por=True):
        return Unrolling(self, K, por)


def short_name(n):
    if n is None or n.startswith("{"):
        return n
    return P.split_path(P.strip_generics(n))[-1]


def skel_diff(a, b, path=""):
    if a == b:
        return ""
    if isinstance(a, tuple) and isinstance(b, tuple) and len(a) == len(b) and a and a[0] == b[0]:
        for i, (x, y) in enumerate(zip(a, b)):
            d = skel_diff(x, y, path + "/%d" % i)
            if d:
                return d
    return "%s: %r -> %r" % (path, a, b)


def mk_const(name, sort):
    if sort == "bool":
        return z3.Bool(name)
    return z3.BitVec(name, int(sort[2:]))


class Unrolling:
    def __init__(self, sysm, K, por=True):
        self.s = sysm
        self.K = K
        self.por = por
        T = sysm.T
        self.schw = max(1, (T - 1).bit_length())
        # register pools per thread
        self.pools = []
        for t in range(T):
            nodes, edges = sysm.cfa[t]
            pool = {}
            for n in nodes:
                cnt = {}
                for srt in n.sorts:
                    cnt[srt] = cnt.get(srt, 0) + 1
                for srt, c in cnt.items():
                    pool[srt] = max(pool.get(srt, 0), c)
            self.pools.append(pool)
        self.pcw = [max(1, (len(sysm.cfa[t][0]) + 2 - 1).bit_length()) for t in range(T)]
        self.done_id = [len(sysm.cfa[t][0]) for t in range(T)]
        self.panic_id = [len(sysm.cfa[t][0]) + 1 for t in range(T)]
        self.steps = []
        self.constraints = []
        self.fire = []           # per step: list of (t, edge, fire term)
        self._build()

    def node_id(self, t, key):
        if key == DONE:
            return self.done_id[t]
        if key == PANIC:
            return self.panic_id[t]
        nodes = self.s.cfa[t][0]
        return self._nid[t][key]

    def vars_at(self, k):
        s = self.s
        d = {"S": {}, "pc": [], "R": [], "sch": z3.BitVec("sch@%d" % k, self.schw),
             "CH": [z3.BitVec("CH!%d@%d" % (i, k), 8) for i in range(NCHOICE)]}
        for name, sort, const, init, tag, i in s.svars:
            d["S"][name] = mk_const("%s@%d" % (name, k), sort)
        for t in range(s.T):
            d["pc"].append(z3.BitVec("pc!%d@%d" % (t, k), self.pcw[t]))
            regs = {}
            for srt, c in self.pools[t].items():
                for i in range(c):
                    regs[(srt, i)] = mk_const("R!%d!%s!%d@%d" % (t, srt, i, k), srt)
            d["R"].append(regs)
        return d

    def _build(self):
        s = self.s
        self._nid = [{n.key: n.idx for n in s.cfa[t][0]} for t in range(s.T)]
        V = [self.vars_at(k) for k in range(self.K + 1)]
        self.V = V
        C = self.constraints
        # initial state
        for name, sort, const, init, tag, i in s.svars:
            C.append(V[0]["S"][name] == init)
        for t in range(s.T):
            C.append(V[0]["pc"][t] == z3.BitVecVal(0, self.pcw[t]))
        for k in range(self.K):
            cur, nxt = V[k], V[k + 1]
            sub_common = [(const, cur["S"][name]) for name, sort, const, init, tag, i in s.svars]
            sub_common += [(s.choice_const(i), cur["CH"][i]) for i in range(NCHOICE)]
            fires = []
            enabled_any = []
            for t in range(s.T):
                nodes, edges = s.cfa[t]
                sub = list(sub_common)
                for (srt, i), v in cur["R"][t].items():
                    sub.append((s.reg_const(t, srt, i), v))
                sel = cur["sch"] == z3.BitVecVal(t, self.schw)
                for ei, e in enumerate(edges):
                    g = z3.substitute(e.guard, *sub) if sub else e.guard
                    at = cur["pc"][t] == z3.BitVecVal(self.node_id(t, e.src), self.pcw[t])
                    en = z3.And(at, g)
                    enabled_any.append(en)
                    f = z3.Bool("fire!%d!%d@%d" % (t, ei, k))
                    C.append(f == z3.And(sel, en))
                    fires.append((t, e, f, sub))
            self.fire.append(fires)
            if self.por and k > 0:
                # partial-order reduction: an edge of thread j followed immediately by an independent edge of a
                # thread i < j is the non-canonical linearisation of the same Mazurkiewicz trace: forbid it.
                prev = self.fire[k - 1]
                for (tj, e1, f1, _) in prev:
                    if tj == 0 or e1.dst in (PANIC,):
                        continue
                    dep = [f2 for (ti, e2, f2, _) in fires if ti < tj and not independent(e1, e2)]
                    lower = z3.ULT(cur["sch"], z3.BitVecVal(tj, self.schw))
                    # if a lower thread moves next, it must be with an edge that depends on e1
                    fl_lower = [f2 for (ti, e2, f2, _) in fires if ti < tj]
                    if fl_lower:
                        C.append(z3.Implies(z3.And(f1, z3.Or(*fl_lower)), z3.Or(*dep) if dep else z3.BoolVal(False)))
            none_enabled = z3.Not(z3.Or(*enabled_any)) if enabled_any else z3.BoolVal(True)
            ne = z3.Bool("stuck@%d" % k)
            C.append(ne == none_enabled)
            # exactly one edge fires, or nothing is enabled (stutter)
            fl = [f for _, _, f, _ in fires]
            C.append(z3.Or(ne, z3.Or(*fl)))
            # (at most one fires: sch selects one thread, pc one node, and the guards of a node's edges are
            #  path conditions of a deterministic program, hence pairwise disjoint)
            C.append(z3.Implies(ne, z3.Not(z3.Or(*fl))))
            # shared updates
            for name, sort, const, init, tag, i in s.svars:
                val = cur["S"][name]
                for t, e, f, sub in fires:
                    u = e.supd.get(name)
                    if u is None or u.eq(const):
                        continue
                    val = z3.If(f, z3.substitute(u, *sub), val)
                C.append(nxt["S"][name] == val)
            # pcs and registers
            for t in range(s.T):
                val = cur["pc"][t]
                for t2, e, f, sub in fires:
                    if t2 == t:
                        val = z3.If(f, z3.BitVecVal(self.node_id(t, e.dst), self.pcw[t]), val)
                C.append(nxt["pc"][t] == val)
                for (srt, i), v in cur["R"][t].items():
                    val = v
                    for t2, e, f, sub in fires:
                        if t2 != t:
                            continue
                        for (s2, i2, term) in e.rupd:
                            if s2 == srt and i2 == i:
                                val = z3.If(f, z3.substitute(term, *sub), val)
                    C.append(nxt["R"][t][(srt, i)] == val)
            # named atoms for the bits of the choice variables (so that a SAT model gives the choices back)
            for i in range(NCHOICE):
                for b in range(8):
                    C.append(z3.Bool("chbit!%d!%d@%d" % (i, b, k)) == (z3.Extract(b, b, cur["CH"][i]) == 1))
            # schedule variable within range
            if (1 << self.schw) != s.T:
                C.append(z3.ULT(cur["sch"], z3.BitVecVal(s.T, self.schw)))

    # -- state predicates
    def at_panic(self, k, t=None):
        ts = range(self.s.T) if t is None else [t]
        return z3.Or(*[self.V[k]["pc"][t] == z3.BitVecVal(self.panic_id[t], self.pcw[t]) for t in ts])

    def fired(self, pred):
        """some edge satisfying pred fires at some step"""
        return z3.Or(*[f for fires in self.fire for (t, e, f, sub) in fires if pred(e)])

    def all_done(self, k):
        return z3.And(*[self.V[k]["pc"][t] == z3.BitVecVal(self.done_id[t], self.pcw[t]) for t in range(self.s.T)])

    def stuck(self, k):
        return z3.Bool("stuck@%d" % k)

    def solver(self, timeout_s):
        sv = z3.SolverFor("QF_BV")
        sv.set("timeout", int(timeout_s * 1000))
        sv.add(*[c for c in self.constraints if c is not None])
        return sv

    def cons(self):
        return [c for c in self.constraints if c is not None]

    def decide(self, extra, timeout_s, tag="bmc"):
        """kissat verdict over the unrolling + extra; for sat also the fired edges as a trace"""
        from .. import sat
        v, true, st = sat.decide(self.cons() + [extra], timeout_s, lambda n: n.startswith("fire!") or n.startswith("stuck@"), tag)
        tr = None
        if v == "sat":
            tr = []
            for k in range(self.K):
                for ei_t, (t, e, f, sub) in enumerate(self.fire[k]):
                    if f.decl().name() in true:
                        tr.append({"step": k, "thread": t, "op": e.label, "src": node_name(e.src), "dst": node_name(e.dst),
                                   "panic": e.panic})
        return v, tr, st

    def decide_many(self, queries, timeout_s, tag="bmc", jobs=4):
        """queries: list of (name, formula) -> dict name -> (verdict, trace or None, stats); one bit-blasting"""
        from .. import sat
        res = sat.decide_many(self.cons(), queries, timeout_s, lambda n: n.startswith("fire!") or n.startswith("chbit!"), tag, jobs)
        out = {}
        for name, (v, true, st) in res.items():
            tr = None
            if v == "sat":
                tr = []
                for k in range(self.K):
                    for (t, e, f, sub) in self.fire[k]:
                        if f.decl().name() in true:
                            ch = [sum((1 << b) for b in range(8) if ("chbit!%d!%d@%d" % (i, b, k)) in true) for i in range(NCHOICE)]
                            tr.append({"step": k, "thread": t, "op": e.label, "src": node_name(e.src), "dst": node_name(e.dst),
                                       "panic": e.panic, "choices": ch})
            out[name] = (v, tr, st)
        return out

    def trace(self, model):
        """list of (step, thread, edge label, src, dst) of a model"""
        out = []
        for k in range(self.K):
            for t, e, f, sub in self.fire[k]:
                if z3.is_true(model.eval(f, model_completion=True)):
                    out.append({"step": k, "thread": t, "op": e.label, "src": node_name(e.src), "dst": node_name(e.dst),
                                "panic": e.panic})
        return out


def node_name(key):
    if isinstance(key, str):
        return key
    if key == ("START",):
        return "START"
    return " > ".join("%s:bb%d" % (f, b) for f, b in key[0])
