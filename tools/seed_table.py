#!/usr/bin/env python3
"""Prints the markdown table "which check catches which seeded change" from /verif/seeded/*/*/meta.json."""
import glob, json, os
rows = []
for mp in sorted(glob.glob("/verif/seeded/*/*/meta.json")):
    d = os.path.dirname(mp)
    m = json.load(open(mp))
    pid, name = d.split("/")[-2], d.split("/")[-1]
    runs = m.get("runs", [])
    best = None
    for r in runs:
        if r.get("caught"):
            best = r; break
    last = runs[-1] if runs else None
    verdict = "not evaluated"
    if best:
        verdict = "caught by `%s` (%s tier): %s" % (best["check"], best["tier"], (best.get("detail") or [""])[0].replace("violation key=", "")[:110])
    elif last:
        verdict = "MISSED (exit %s: %s)" % (last["exit"], (last.get("detail") or ["no violation"])[0][:110])
    conf = m.get("confirmed", {})
    c = ""
    if conf:
        c = "suite %s; demo %s" % (conf.get("suite", "?"), "with: %s / without: %s" % (list(conf.get("demo_with_change", {}).values())[:1], list(conf.get("demo_without_change", {}).values())[:1]) if "demo_with_change" in conf else "recorded by author")
    what = (m.get("breaks") or "").strip()
    if not what and os.path.exists(os.path.join(d, "notes.md")):
        for ln in open(os.path.join(d, "notes.md")):
            if ln.strip() and not ln.startswith("#"):
                what = ln.strip()[:160]; break
    rows.append((pid, name, what[:160], verdict, c))
print("| property | change | what it breaks | result | independent confirmation |")
print("|---|---|---|---|---|")
for r in rows:
    print("| %s | %s | %s | %s | %s |" % tuple(x.replace("|", "/") for x in r))
