"""C12 — parallel collection phases finish exactly when all work is done (MIR-bmc).

Unit: `Terminator::{try_terminate, wake_up}` from the MIR dump of dora-runtime (working tree).
Environment: the worker loop in /verif/engines/drivers/src/c12.rs over an abstract pool whose
operations are python models below.  Decided by z3 (QF_BV) over all schedules <= K steps."""
import json
import os
import time

import z3

from .. import common
from ..common import Inconclusive, log
from ..mir import parse as P
from ..mir import bmc as B
from ..mir import cmodels as CM
from ..mir.interp import Adt, Int, Panic, Ref, Tup, UNIT, get_path
from ..mir.models import write_ref

PID = "C12"
CW = 8      # width of pool counters


def cnt(v):
    return Int(v, "u8")


# thread-private environment operations (a worker's own local segment, its in-process flag, the ghost
# budget that only bounds nondeterminism): not visible, i.e. executed atomically with the preceding
# visible operation of the same worker.  Everything another worker can observe stays visible.
PRIVATE = ("verif_pop_local", "verif_process_end", "verif_push_local")   # process_begin / child stay visible: they bound the private chain


def visible(callee):
    if callee.split("::")[-1] in PRIVATE:
        return False
    return CM.visible(callee)


def build_system(rt_prog, drv_prog, nworkers, budget, initial):
    models = list(POOL_MODELS) + CM.all_models()
    sysm = B.System([rt_prog, drv_prog], models, visible, nworkers)
    # Terminator { total, working, awakening, lock, condvar }  (field order of the struct)
    term = Tup((Int(nworkers, "usize"), CM.mk_atomic(Int(nworkers, "usize")), CM.mk_atomic(Int(0, "usize")),
                CM.mk_mutex(), CM.mk_condvar(1)), name="Terminator")
    sysm.add_root("term", term)
    sysm.add_root("sched", Tup([Int(0, "u8") for _ in range(nworkers)]))
    pool = Tup((
        Tup([cnt(0) for _ in range(nworkers)]),       # 0 local[t]
        Tup([cnt(0) for _ in range(nworkers)]),       # 1 deque[t]
        cnt(initial),                                  # 2 injector
        cnt(budget),                                   # 3 children that may still be created
        Tup([z3.BoolVal(False) for _ in range(nworkers)]),   # 4 inproc[t]
        z3.BoolVal(False),                             # 5 ghost: some worker saw try_terminate() == true
        cnt(0),                                        # 6 processed items
        cnt(initial),                                  # 7 created items
    ), name="Pool")
    sysm.add_root("pool", pool)
    worker = drv_prog.find("drv_c12_worker")
    if worker is None:
        raise Inconclusive("driver drv_c12_worker missing")
    for t in range(nworkers):
        sysm.add_thread(worker, [sysm.root_ref("term"), Int(t, "usize")])
    return sysm


# ------------------------------------------------------------------------------------------
# abstract pool (environment) — python models of the driver's stubs

POOL_MODELS = []


def pm(name):
    import re

    def deco(fn):
        POOL_MODELS.append((re.compile(r"(\w+::)*" + name), fn))
        return fn
    return deco


def pool(it):
    return it.system.roots["pool"]


def pget(it, *path):
    return get_path(pool(it).v, path)


def pset(it, path, v):
    write_ref(Ref(pool(it), path), v)


def me_of(args):
    t = args[0].conc()
    if t is None:
        raise Inconclusive("worker id not concrete")
    return t


def after_termination_guard(it, ctx, what):
    """S1': once some worker has been told `terminated`, nobody may obtain or publish work"""
    if ctx.branch(pget(it, 5)):
        raise Panic("GHOST S1': %s after a worker was told that the phase has terminated" % what, "pool")


def take(it, ctx, path, what):
    c = pget(it, *path)
    if ctx.branch(c.t != 0):
        after_termination_guard(it, ctx, what)
        pset(it, path, cnt(c.t - 1))
        return z3.BoolVal(True)
    return z3.BoolVal(False)


@pm("verif_pop_local")
def p_pop_local(it, ctx, callee, args):
    return take(it, ctx, (0, me_of(args)), "pop from local segment")


@pm("verif_pop_worker")
def p_pop_worker(it, ctx, callee, args):
    return take(it, ctx, (1, me_of(args)), "pop from own deque")


@pm("verif_pop_global")
def p_pop_global(it, ctx, callee, args):
    return take(it, ctx, (2,), "pop from injector")


@pm("verif_steal")
def p_steal(it, ctx, callee, args):
    me = me_of(args)
    T = it.system.T
    if T == 1:
        return z3.BoolVal(False)
    ch = CM.take_choice(ctx, it)
    # victim = low bits of the choice, success flag = bit 7: a steal may fail although the victim has
    # work (Steal::Retry, random victim choice), but succeeds only if the victim's deque is non-empty
    for v in range(T):
        if v == me:
            continue
        d = pget(it, 1, v)
        if ctx.branch(z3.And((ch & 0x7F) == v, (ch & 0x80) != 0, d.t != 0)):
            after_termination_guard(it, ctx, "steal")
            pset(it, (1, v), cnt(d.t - 1))
            return z3.BoolVal(True)
    return z3.BoolVal(False)


@pm("verif_process_begin")
def p_begin(it, ctx, callee, args):
    pset(it, (4, me_of(args)), z3.BoolVal(True))
    pset(it, (6,), cnt(pget(it, 6).t + 1))
    return UNIT


@pm("verif_process_end")
def p_end(it, ctx, callee, args):
    pset(it, (4, me_of(args)), z3.BoolVal(False))
    return UNIT


@pm("verif_child")
def p_child(it, ctx, callee, args):
    b = pget(it, 3)
    if not ctx.branch(b.t != 0):
        return Int(0, "u8")
    ch = CM.take_choice(ctx, it)
    k = ch & 3
    if ctx.branch(k == 0):
        return Int(0, "u8")
    pset(it, (3,), cnt(b.t - 1))
    pset(it, (7,), cnt(pget(it, 7).t + 1))
    return Int(z3.ZeroExt(0, k), "u8")


@pm("verif_push_local")
def p_push_local(it, ctx, callee, args):
    me = me_of(args)
    after_termination_guard(it, ctx, "push to local segment")
    pset(it, (0, me), cnt(pget(it, 0, me).t + 1))
    return UNIT


@pm("verif_share_local")
def p_share(it, ctx, callee, args):
    me = me_of(args)
    l = pget(it, 0, me)
    # defensive_push moves items from the private segment to the injector (at least the one just pushed)
    after_termination_guard(it, ctx, "push to injector")
    pset(it, (0, me), cnt(l.t - 1))
    pset(it, (2,), cnt(pget(it, 2).t + 1))
    return UNIT


@pm("verif_push_worker")
def p_push_worker(it, ctx, callee, args):
    me = me_of(args)
    after_termination_guard(it, ctx, "push to own deque")
    pset(it, (1, me), cnt(pget(it, 1, me).t + 1))
    return UNIT


@pm("verif_terminated")
def p_terminated(it, ctx, callee, args):
    T = it.system.T
    conds = [pget(it, 2).t == 0]
    for t in range(T):
        conds += [pget(it, 0, t).t == 0, pget(it, 1, t).t == 0, z3.Not(pget(it, 4, t))]
    if ctx.branch(z3.Not(z3.And(*conds))):
        raise Panic("GHOST S1: try_terminate() returned true while work exists or a worker is still processing", "pool")
    pset(it, (5,), z3.BoolVal(True))
    return UNIT


# ------------------------------------------------------------------------------------------
# variant "marking": the real MarkingTask::{run, pop, trace, defensive_push} drive the protocol

def addr(v=8):
    return Tup((Int(v, "usize"),), name="Address")


def opt_addr(b):
    """Bool term -> Option<Address> needs a concrete variant: callers branch first"""
    from ..mir.models import some, NONE
    return some(addr()) if b else NONE


def _taken(it, ctx, path, what):
    r = take(it, ctx, path, what)
    ok = z3.is_true(z3.simplify(r))
    if ok:
        me = it.thread
        pset(it, (4, me), z3.BoolVal(True))
        pset(it, (6,), cnt(pget(it, 6).t + 1))
    return opt_addr(ok)


def hk_pop_local(it, ctx, fn, args):
    me = it.thread
    pset(it, (4, me), z3.BoolVal(False))         # the previous item (if any) is finished
    return _taken(it, ctx, (0, me), "pop from local segment")


def hk_pop_worker(it, ctx, fn, args):
    return _taken(it, ctx, (1, it.thread), "pop from own deque")


def hk_pop_global(it, ctx, fn, args):
    return _taken(it, ctx, (2,), "pop from injector")


def hk_steal(it, ctx, fn, args):
    r = p_steal(it, ctx, "steal", [Int(it.thread, "usize")])
    ok = z3.is_true(z3.simplify(r))
    if ok:
        pset(it, (4, it.thread), z3.BoolVal(True))
        pset(it, (6,), cnt(pget(it, 6).t + 1))
    return opt_addr(ok)


def hk_try_mark(it, ctx, fn, args):
    # the field's target may already be marked (by this or another worker): adversarial
    ch = CM.take_choice(ctx, it)
    if ctx.branch((ch & 1) == 1):
        pset(it, (7,), cnt(pget(it, 7).t + 1))
        return z3.BoolVal(True)
    return z3.BoolVal(False)


def hk_has_capacity(it, ctx, fn, args):
    ch = CM.take_choice(ctx, it)
    return (ch & 1) == 1


def hk_seg_push(it, ctx, fn, args):
    return p_push_local(it, ctx, "push", [Int(it.thread, "usize")])


def hk_worker_push(it, ctx, callee, args):
    return p_push_worker(it, ctx, "push", [Int(it.thread, "usize")])


@pm("verif_child_exists")
def p_child_exists(it, ctx, callee, args):
    b = pget(it, 3)
    if not ctx.branch(b.t != 0):
        return z3.BoolVal(False)
    ch = CM.take_choice(ctx, it)
    if ctx.branch((ch & 1) == 0):
        return z3.BoolVal(False)
    pset(it, (3,), cnt(b.t - 1))
    return z3.BoolVal(True)


@pm("verif_slot")
def p_slot(it, ctx, callee, args):
    from ..mir.interp import Opaque
    return Opaque("slot")


def m_injector_steal(it, ctx, callee, args):
    """`Injector::steal_batch_and_pop`: Success iff the injector holds an item (Retry is not modelled: the callers loop on it)"""
    r = take(it, ctx, (2,), "pop from injector")
    if z3.is_true(z3.simplify(r)):
        pset(it, (4, it.thread), z3.BoolVal(True))
        pset(it, (6,), cnt(pget(it, 6).t + 1))
        item = Tup((addr(),), name="WorkItem") if getattr(it.system, "item_kind", "") == "workitem" else addr()
        return Adt("Steal", "Success", (item,))
    return Adt("Steal", "Empty")


def m_stealers_len(it, ctx, callee, args):
    return Int(it.system.T, "usize")


MARKING_PRIVATE = ("MarkingTask::pop_local", "Segment::push", "Segment::has_capacity", "Header::try_mark", "verif_slot")
MARKING_VISIBLE = ("MarkingTask::pop_worker", "Injector::steal_batch_and_pop", "MarkingTask::steal", "Worker::push", "verif_child_exists")


def visible_marking(callee):
    c = callee
    if c in MARKING_PRIVATE or c.split("::")[-1] in ("verif_slot",):
        return False
    if c in MARKING_VISIBLE:
        return True
    return visible(callee)


def work_item():
    return some_item()


def some_item():
    from ..mir.models import some
    return some(Tup((addr(),), name="WorkItem"))


def _taken_item(it, ctx, path, what):
    from ..mir.models import NONE
    r = take(it, ctx, path, what)
    if z3.is_true(z3.simplify(r)):
        pset(it, (4, it.thread), z3.BoolVal(True))
        pset(it, (6,), cnt(pget(it, 6).t + 1))
        return some_item()
    return NONE


def ck_pop_local(it, ctx, fn, args):
    pset(it, (4, it.thread), z3.BoolVal(False))
    return _taken_item(it, ctx, (0, it.thread), "pop from local vector")


def ck_pop_worker(it, ctx, fn, args):
    return _taken_item(it, ctx, (1, it.thread), "pop from own deque")


def ck_pop_global(it, ctx, fn, args):
    return _taken_item(it, ctx, (2,), "pop from injector")


def ck_steal(it, ctx, fn, args):
    from ..mir.models import NONE
    r = p_steal(it, ctx, "steal", [Int(it.thread, "usize")])
    if z3.is_true(z3.simplify(r)):
        pset(it, (4, it.thread), z3.BoolVal(True))
        pset(it, (6,), cnt(pget(it, 6).t + 1))
        return some_item()
    return NONE


def ck_is_young(it, ctx, fn, args):
    ch = CM.take_choice(ctx, it)
    return (ch & 1) == 1


@pm("verif_copied_by_me")
def p_copied_by_me(it, ctx, callee, args):
    # the object may already have been forwarded by another worker (then nothing is pushed)
    ch = CM.take_choice(ctx, it)
    if ctx.branch((ch & 1) == 1):
        pset(it, (7,), cnt(pget(it, 7).t + 1))
        return z3.BoolVal(True)
    return z3.BoolVal(False)


def vec_len_local(it, ctx, callee, args):
    v = args[0]
    from ..mir.models import deref, m_len
    d = deref(v)
    from ..mir.interp import Opaque
    if isinstance(d, Opaque) and d.what == "copy-local":
        return Int(z3.ZeroExt(56, pget(it, 0, it.thread).t), "usize")
    return m_len(it, ctx, callee, args)


def vec_push_local(it, ctx, callee, args):
    from ..mir.models import deref, m_vec_push
    from ..mir.interp import Opaque
    d = deref(args[0])
    if isinstance(d, Opaque) and d.what == "copy-local":
        return p_push_local(it, ctx, "push", [Int(it.thread, "usize")])
    if isinstance(d, Opaque) and d.what == "remset":
        return UNIT
    return m_vec_push(it, ctx, callee, args)


COPY_PRIVATE = ("CopyTask::pop_local", "CopyTask::is_young", "Vec::len", "Vec::push", "verif_slot", "verif_copied_by_me",
                "core::slice::<impl [Stealer<WorkItem>]>::len")
COPY_VISIBLE = ("CopyTask::pop_worker", "Injector::steal_batch_and_pop", "CopyTask::steal", "Worker::push", "verif_child_exists")


def visible_copy(callee):
    if callee in COPY_PRIVATE:
        return False
    if callee in COPY_VISIBLE:
        return True
    return visible(callee)


def build_system_copy(rt_prog, drv_prog, nworkers, budget, initial, local_max=0):
    """the real CopyTask loop of minor.rs; LOCAL_MAXIMUM (64) is scaled down to `local_max` (0: every item goes
    to the stealable deque followed by wake_up; 1: the first item stays local) so that the path
    `worker.push(item); terminator.wake_up()` of push_item is reachable within the bound"""
    import re as _re
    from ..mir.structs import Layouts
    from ..mir.interp import Opaque
    models = list(POOL_MODELS) + CM.all_models()
    models.insert(0, (_re.compile(r"(crossbeam_deque::)?(deque::)?Worker::push"), hk_worker_push))
    models.insert(0, (_re.compile(r"Vec::len"), vec_len_local))
    models.insert(0, (_re.compile(r"Vec::push"), vec_push_local))
    models.insert(0, (_re.compile(r"(crossbeam_deque::)?(deque::)?Injector::steal_batch_and_pop"), m_injector_steal))
    models.insert(0, (_re.compile(r"core::slice::<impl \[Stealer<.*>\]>::len"), m_stealers_len))
    sysm = B.System([rt_prog, drv_prog], models, visible_copy, nworkers)
    sysm.extra_discr = {"Steal": {"Empty": 0, "Success": 1, "Retry": 2}}
    sysm.item_kind = "workitem"
    term = Tup((Int(nworkers, "usize"), CM.mk_atomic(Int(nworkers, "usize")), CM.mk_atomic(Int(0, "usize")),
                CM.mk_mutex(), CM.mk_condvar(1)), name="Terminator")
    sysm.add_root("term", term)
    sysm.add_root("sched", Tup([Int(0, "u8") for _ in range(nworkers)]))
    pool = Tup((Tup([cnt(0) for _ in range(nworkers)]), Tup([cnt(0) for _ in range(nworkers)]), cnt(initial), cnt(budget),
                Tup([z3.BoolVal(False) for _ in range(nworkers)]), z3.BoolVal(False), cnt(0), cnt(initial)), name="Pool")
    sysm.add_root("pool", pool)
    L = Layouts(common.REPO)
    MN = "dora-runtime/src/gc/swiper/minor.rs"
    unit = lambda v: (lambda it, ctx, fn, args: v)
    sysm.hooks = {
        "CopyTask::pop_local": ck_pop_local, "CopyTask::pop_worker": ck_pop_worker,
        "CopyTask::steal": ck_steal, "CopyTask::is_young": ck_is_young,
        "Address::to_obj": unit(Opaque("obj")), "Runtime::shape_base": unit(addr(0)), "Slot::get": unit(addr(8)),
        "Slot::relocate": unit(UNIT), "Lab::make_iterable_young": unit(UNIT), "Lab::make_iterable_old": unit(UNIT),
        "Object::header": unit(Opaque("header")), "Header::set_remembered": unit(UNIT),
    }
    for h in sysm.hooks:
        if rt_prog.find(h) is None:
            raise Inconclusive("hook target %s not found in the MIR dump" % h)
    sysm.redirects = {"Object::visit_reference_fields": "drv_c12_visit_fields", "CopyTask::evacuate_object": "drv_c12_evacuate"}
    for need in ("CopyTask::trace_gray_objects", "CopyTask::push_item", "CopyTask::evacuate_object", "Object::visit_reference_fields"):
        if rt_prog.find(need) is None:
            raise Inconclusive("%s not found in the MIR dump" % need)
    sysm.const_overrides = {"LOCAL_MAXIMUM": Int(local_max, "usize")}
    worker = drv_prog.find("drv_c12_copy_worker")
    if worker is None:
        raise Inconclusive("driver drv_c12_copy_worker missing")
    for t in range(nworkers):
        task = L.make(MN, "CopyTask", task_id=Int(t, "usize"), local=Opaque("copy-local"), worker=Opaque("worker"),
                      injector=Opaque("injector"), stealers=Tup([Opaque("stealer")] * nworkers, name="StealerSlice"), terminator=sysm.root_ref("term"),
                      rt=Opaque("rt"), added_to_remset=Opaque("remset"), traced=Int(0, "usize"), shape_base=addr(0), old_lab=Opaque("lab"), young_lab=Opaque("lab"))
        sysm.add_root("task%d" % t, task)
        sysm.add_thread(worker, [sysm.root_ref("task%d" % t), Int(t, "usize")])
    return sysm


def build_system_marking(rt_prog, drv_prog, nworkers, budget, initial):
    from ..mir.structs import Layouts
    from ..mir.interp import Opaque
    models = list(POOL_MODELS) + CM.all_models()
    models.insert(0, (__import__("re").compile(r"(crossbeam_deque::)?(deque::)?Worker::push"), hk_worker_push))
    models.insert(0, (__import__("re").compile(r"(fixedbitset::)?FixedBitSet::set"), lambda it, ctx, callee, args: UNIT))
    models.insert(0, (__import__("re").compile(r"(crossbeam_deque::)?(deque::)?Injector::steal_batch_and_pop"), m_injector_steal))
    models.insert(0, (__import__("re").compile(r"core::slice::<impl \[Stealer<.*>\]>::len"), m_stealers_len))
    sysm = B.System([rt_prog, drv_prog], models, visible_marking, nworkers)
    sysm.extra_discr = {"Steal": {"Empty": 0, "Success": 1, "Retry": 2}}
    sysm.item_kind = "address"
    term = Tup((Int(nworkers, "usize"), CM.mk_atomic(Int(nworkers, "usize")), CM.mk_atomic(Int(0, "usize")),
                CM.mk_mutex(), CM.mk_condvar(1)), name="Terminator")
    sysm.add_root("term", term)
    sysm.add_root("sched", Tup([Int(0, "u8") for _ in range(nworkers)]))
    pool = Tup((Tup([cnt(0) for _ in range(nworkers)]), Tup([cnt(0) for _ in range(nworkers)]), cnt(initial), cnt(budget),
                Tup([z3.BoolVal(False) for _ in range(nworkers)]), z3.BoolVal(False), cnt(0), cnt(initial)), name="Pool")
    sysm.add_root("pool", pool)
    L = Layouts(common.REPO)
    MK = "dora-runtime/src/gc/swiper/marking.rs"
    unit = lambda v: (lambda it, ctx, fn, args: v)
    sysm.hooks = {
        # (pop_global runs from its real MIR; the injector below it is the model m_injector_steal)
        "MarkingTask::pop_local": hk_pop_local, "MarkingTask::pop_worker": hk_pop_worker,
        "MarkingTask::steal": hk_steal,
        "Address::to_obj": unit(Opaque("obj")), "Region::start": unit(addr(0)), "Address::offset_from": unit(Int(0, "usize")),
        "Object::size": unit(Int(8, "usize")), "Slot::get": unit(addr(8)), "Region::contains": unit(z3.BoolVal(True)),
        "Object::header": unit(Opaque("header")), "Header::try_mark": hk_try_mark,
        "Segment::has_capacity": hk_has_capacity, "Segment::push": hk_seg_push,
    }
    for h in sysm.hooks:
        if rt_prog.find(h) is None:
            raise Inconclusive("hook target %s not found in the MIR dump" % h)
    sysm.redirects = {"Object::visit_reference_fields": "drv_c12_visit_fields"}
    if rt_prog.find("Object::visit_reference_fields") is None or rt_prog.find("MarkingTask::run") is None:
        raise Inconclusive("MarkingTask::run / Object::visit_reference_fields not found in the MIR dump")
    worker = drv_prog.find("drv_c12_marking_worker")
    if worker is None:
        raise Inconclusive("driver drv_c12_marking_worker missing")
    for t in range(nworkers):
        res = L.make(MK, "MarkingResult", marked_bytes=Int(0, "usize"), live_pages=Opaque("bitset"))
        task = L.make(MK, "MarkingTask", task_id=Int(t, "usize"), local=Opaque("segment"), worker=Opaque("worker"),
                      injector=Opaque("injector"), stealers=Tup([Opaque("stealer")] * nworkers, name="StealerSlice"), terminator=sysm.root_ref("term"),
                      heap_region=Opaque("region"), perm_region=Opaque("region"), page_size_bits=Int(12, "u32"),
                      marked_since_share=Int(0, "usize"), shape_base=addr(0), result=res)
        sysm.add_root("task%d" % t, task)
        sysm.add_thread(worker, [sysm.root_ref("task%d" % t), Int(t, "usize")])
    return sysm


def load_progs():
    rt = P.parse_file(common.mir_dump("dora-runtime"), common.REPO)
    drv = P.parse_file(common.drivers_mir_dump(), os.path.join(common.WORK, "drivers-src"))
    for need in ("Terminator::try_terminate", "Terminator::wake_up"):
        if rt.find(need) is None:
            raise Inconclusive("%s not found in the MIR dump of dora-runtime" % need)
    return rt, drv


def svar(sysm, tag, idx):
    return "S!%s!%d" % (tag, idx)


def run_config(rt, drv, N, budget, initial, K, tmo, deadline, qjobs=1, variant="driver"):
    """returns dict with verdicts; raises Inconclusive"""
    t0 = time.time()
    if variant == "copy1":
        sysm = build_system_copy(rt, drv, N, budget, initial, local_max=1)
    else:
        sysm = {"marking": build_system_marking, "copy": build_system_copy}.get(variant, build_system)(rt, drv, N, budget, initial)
    sysm.build(deadline)
    nn = sum(len(n) for n, e in sysm.cfa)
    ne = sum(len(e) for n, e in sysm.cfa)
    tb = time.time() - t0
    t1 = time.time()
    U = sysm.encode(K)
    te = time.time() - t1
    res = {"workers": N, "budget": budget, "initial": initial, "K": K, "nodes": nn, "edges": ne, "build_s": round(tb, 1),
           "encode_s": round(te, 1), "queries": {}}
    proc_i = [i for (name, sort, c, init, tag, i) in sysm.svars if tag == "pool"]
    # pool leaves order: local[T], deque[T], injector, budget, inproc[T], terminated, processed, created
    i_processed, i_created = 2 * N + 2 + N + 1, 2 * N + 2 + N + 2

    from ..mir import bmccheck as BC
    bad_once = z3.Or(*[z3.And(U.all_done(k), U.V[k]["S"][svar(sysm, "pool", i_processed)] != U.V[k]["S"][svar(sysm, "pool", i_created)])
                       for k in range(K + 1)])
    wit = [("witness-all-finish", U.all_done(K)),
           ("witness-a-worker-sleeps-and-is-notified",
            z3.Or(*[U.V[k]["S"][svar(sysm, "sched", t)] == 0x80 for k in range(K + 1) for t in range(N)])),
           ("witness-wake_up-fast-path", U.fired(lambda e: "wake_up:bb2" in B.node_name(e.src) and "wake_up" not in B.node_name(e.dst)
                                                  and e.panic is None))]
    if N == 1:
        wit = wit[:1]          # a single worker never sleeps and wake_up() returns at once
    qs = BC.standard_queries(U, [("exactly-once", bad_once)], wit)
    res["queries"] = BC.decide_all(U, qs, tmo, "c12-%d-%d-%d" % (N, budget, K), qjobs, PID, "N=%d B=%d" % (N, budget))
    res["cfg"] = {"workers": N, "budget": budget, "initial": initial}
    res["fns"] = sorted(sysm.interp_fns)
    res["models"] = sorted(sysm.models_used)
    res["cfa_stats"] = sysm.stats
    return res


CONFIGS = {
    # (workers, budget of children, initial items in the injector, K)
    # first entry = core configuration: must be decided completely (incl. "no execution is longer than K")
    # (workers, budget, initial items, K, variant): "driver" = worker loop of engines/drivers/src/c12.rs,
    # "marking" = the real MarkingTask::{run, pop, trace, defensive_push} of gc/swiper/marking.rs
    # "copy" = the real CopyTask::{trace_gray_objects, trace_*_object, push, push_item, defensive_push, pop} of minor.rs
    "quick": [(2, 1, 1, 52, "driver"), (2, 1, 1, 52, "marking"), (2, 1, 1, 52, "copy"), (2, 2, 1, 40, "driver"),
              (1, 2, 1, 30, "marking"), (1, 2, 1, 30, "copy")],      # single worker: the `total == 1` fast path
    "thorough": [(2, 1, 1, 52, "driver"), (2, 1, 1, 52, "marking"), (2, 2, 1, 75, "driver"), (2, 2, 1, 75, "marking"),
                 (2, 3, 1, 95, "driver"), (3, 1, 1, 72, "driver"), (3, 1, 1, 72, "marking"), (3, 2, 1, 85, "driver"),
                 (2, 1, 1, 52, "copy"), (2, 2, 1, 75, "copy1"), (1, 2, 1, 30, "marking"), (1, 2, 1, 30, "copy"), (1, 3, 1, 40, "driver")],
}


def main(tier):
    t0 = time.time()
    rt, drv = load_progs()
    rep = common.Reporter(PID)
    tmo = 900 if tier == "quick" else 2400
    deadline = 1800 if tier == "quick" else 3600      # seconds for the CFA construction of ONE configuration, counted from its start
    results = []
    cfgs = CONFIGS[tier]
    for r in common.fork_map(_cfg_worker, [(rt, drv, c, tmo, deadline) for c in cfgs], min(len(cfgs), 4)):
        if "inconclusive" in r:
            raise Inconclusive(r["inconclusive"])
        results.append(r)
    return finish(tier, t0, results, rep)


def _cfg_worker(a):
    rt, drv, (N, B_, I, K, variant), tmo, deadline = a
    deadline = time.time() + deadline
    try:
        r = run_config(rt, drv, N, B_, I, K, tmo, deadline, qjobs=4, variant=variant)
        r["variant"] = variant
        r["cfg"]["variant"] = variant
        r["cfg"]["core"] = (N, B_) == (2, 1)
        return r
    except Inconclusive as e:
        return {"inconclusive": "N=%d B=%d: %s" % (N, B_, e)}


def finish(tier, t0, results, rep):
    from ..mir import bmccheck as BC
    samples = []
    states = sum(r["nodes"] for r in results)
    trans = sum(r["edges"] for r in results)
    nq, undecided, bounded = BC.judge(results, rep, "terminator", lambda r: "N=%d B=%d %s" % (r["workers"], r["budget"], r.get("variant", "")))
    for r in results:
        samples.append({k: r.get(k) for k in ("workers", "budget", "initial", "K", "variant", "nodes", "edges")})
    cov = {
        "states": states, "transitions": trans, "traces_validated_against_impl": 0,
        "samples": samples + [{"query": n, **{k: v for k, v in q.items() if k != "trace"}} for n, q in results[0]["queries"].items()],
        "configurations": [{k: v for k, v in r.items() if k not in ("fns", "models")} for r in results],
        "functions_encoded": results[0]["fns"], "models_used": results[0]["models"],
        "queries": nq, "undecided_queries": undecided, "bounded_only": bounded,
        "bounds": "threads and work budgets as listed per configuration; every schedule of at most K steps; 'unfinished-at-K' unsat certifies that K covers all complete executions of the workload",
        "outside_the_claim": ["crossbeam deques / injector themselves", "mark-bit CAS", "more than 3 workers", "weak memory (SC assumed)",
                              "the worker loops of marking.rs / minor.rs are mirrored by the driver in engines/drivers/src/c12.rs, not extracted"],
    }
    assumptions = ["sequentially consistent memory", "parking_lot::Condvar has no spurious wake-ups (its documented contract)",
                   "compare_exchange_weak does not fail spuriously", "notify_one wakes an adversarially chosen waiter",
                   "a steal may fail although the victim has work; it succeeds only if the victim's deque is non-empty"]
    common.write_evidence(PID, tier, "model_checking", cov, assumptions, time.time() - t0, len(rep.new))
    return rep.exit_code()


def replay(path):
    d = json.load(open(path))
    for s in d["replay"].get("trace", []):
        print(s)
    return 0
