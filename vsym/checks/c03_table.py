INVARIANT_TEXT = "stub"
def bounds_text(tier): return "stub"
def harnesses(E, tier): return []
