//! Build script of verif-native: generates the glue between the `bc` command (src/bc.rs) and the
//! bytecode writer/reader API *of the working tree*: one dispatcher arm per `pub fn emit_*` of
//! dora-bytecode/src/writer.rs and one recording method per `fn visit_*` of the `BytecodeVisitor` trait
//! in reader.rs.  Emitters/visitor methods with a parameter type the glue does not know are left out
//! (the command then answers `unknown_emitter=…`), so added or removed methods never break the build.
use std::env;
use std::fs;
use std::path::PathBuf;

mod gck_build; // C03: src/gck_build.rs generates $OUT_DIR/gck_gen.rs (collector kernels cut out of the working tree)

fn strip_comments(src: &str) -> String {
    src.lines().map(|l| match l.find("//") { Some(i) => &l[..i], None => l }).collect::<Vec<_>>().join("\n")
}

/// (name, [(param, type)]) of every `fn <prefix>…(&mut self, …)`; `need_pub` keeps only `pub fn`
fn sigs(src: &str, prefix: &str, need_pub: bool) -> Vec<(String, Vec<(String, String)>)> {
    let mut out = Vec::new();
    let pat = format!("fn {}", prefix);
    let mut from = 0;
    while let Some(rel) = src[from..].find(&pat) {
        let at = from + rel;
        from = at + pat.len();
        let before = src[..at].trim_end();
        let is_pub = before.ends_with("pub");
        if need_pub && !is_pub {
            continue;
        }
        let open = match src[at..].find('(') { Some(i) => at + i, None => continue };
        let name = src[at + 3..open].trim().to_string();
        if !name.chars().all(|c| c.is_alphanumeric() || c == '_') {
            continue;
        }
        let mut depth = 0;
        let mut close = open;
        for (i, c) in src[open..].char_indices() {
            match c { '(' | '[' | '{' => depth += 1, ')' | ']' | '}' => { depth -= 1; if depth == 0 { close = open + i; break; } } _ => {} }
        }
        let inner = &src[open + 1..close];
        let mut parts = Vec::new();
        let (mut d, mut cur) = (0, String::new());
        for c in inner.chars() {
            match c {
                '(' | '[' | '{' | '<' => { d += 1; cur.push(c) }
                ')' | ']' | '}' | '>' => { d -= 1; cur.push(c) }
                ',' if d == 0 => { parts.push(cur.trim().to_string()); cur = String::new() }
                _ => cur.push(c),
            }
        }
        if !cur.trim().is_empty() { parts.push(cur.trim().to_string()); }
        if parts.is_empty() || parts[0].split_whitespace().collect::<Vec<_>>().join(" ") != "&mut self" {
            continue;
        }
        let mut params = Vec::new();
        for p in &parts[1..] {
            if let Some(i) = p.find(':') {
                let n = p[..i].trim().trim_start_matches("mut ").trim_start_matches('_').to_string();
                let t = p[i + 1..].split_whitespace().collect::<Vec<_>>().join(" ");
                params.push((n, t));
            }
        }
        out.push((name, params));
    }
    out
}

fn main() {
    let manifest = PathBuf::from(env::var("CARGO_MANIFEST_DIR").unwrap()).join("Cargo.toml");
    let toml = fs::read_to_string(&manifest).unwrap();
    gck_build::generate(&toml, &PathBuf::from(env::var("OUT_DIR").unwrap()));
    let key = "dora-bytecode = { path = \"";
    let i = toml.find(key).expect("dora-bytecode path dependency");
    let rest = &toml[i + key.len()..];
    let dir = PathBuf::from(&rest[..rest.find('"').unwrap()]).join("src");
    let wpath = dir.join("writer.rs");
    let rpath = dir.join("reader.rs");
    println!("cargo:rerun-if-changed={}", wpath.display());
    println!("cargo:rerun-if-changed={}", rpath.display());
    println!("cargo:rerun-if-changed={}", manifest.display());
    let wsrc = strip_comments(&fs::read_to_string(&wpath).unwrap());
    let rsrc = strip_comments(&fs::read_to_string(&rpath).unwrap());
    let mut g = String::new();
    g.push_str("pub fn dispatch_emit(w: &mut BytecodeWriter, name: &str, a: &[Arg], labels: &[Label]) -> Result<(), String> {\n    let _ = labels;\n    match name {\n");
    for (name, params) in sigs(&wsrc, "emit_", true) {
        let mut conv = Vec::new();
        let mut ok = true;
        for (i, (_, ty)) in params.iter().enumerate() {
            let c = match ty.as_str() {
                "Register" => format!("Register(a[{}].int()? as usize)", i),
                "ConstPoolIdx" => format!("ConstPoolIdx(a[{}].int()? as u32)", i),
                "GlobalId" => format!("GlobalId::from(a[{}].int()? as usize)", i),
                "ConstId" => format!("ConstId::from(a[{}].int()? as usize)", i),
                "&[Register]" => format!("&a[{}].regs()?", i),
                "u8" => format!("a[{}].int()? as u8", i),
                "Label" => format!("*labels.get(a[{}].int()? as usize).ok_or(\"label index\")?", i),
                "char" => format!("char::from_u32(a[{}].int()? as u32).ok_or(\"not a char\")?", i),
                "i32" => format!("a[{}].int()? as u32 as i32", i),
                "i64" => format!("a[{}].int()? as i64", i),
                "f32" => format!("f32::from_bits(a[{}].int()? as u32)", i),
                "f64" => format!("f64::from_bits(a[{}].int()?)", i),
                "String" => format!("a[{}].string()?", i),
                _ => { ok = false; String::new() }
            };
            conv.push(c);
        }
        if !ok { continue; }
        g.push_str(&format!("        \"{}\" => {{ if a.len() != {} {{ return Err(\"operand count\".into()); }} w.{}({}); Ok(()) }}\n",
                            name, params.len(), name, conv.join(", ")));
    }
    g.push_str("        _ => Err(format!(\"unknown_emitter {}\", name)),\n    }\n}\n\n");
    g.push_str("pub struct Rec { pub log: Vec<String> }\nimpl BytecodeVisitor for Rec {\n");
    let tr = rsrc.find("trait BytecodeVisitor").map(|i| &rsrc[i..]).unwrap_or("");
    for (name, params) in sigs(tr, "visit_", false) {
        let mut ok = true;
        let mut fmt = Vec::new();
        let mut decl = Vec::new();
        for (i, (_, ty)) in params.iter().enumerate() {
            let f = match ty.as_str() {
                "Register" => format!("a{}.0.to_string()", i),
                "ConstPoolIdx" => format!("a{}.0.to_string()", i),
                "BytecodeOffset" => format!("a{}.0.to_string()", i),
                "GlobalId" | "ConstId" => format!("a{}.index_as_u32().to_string()", i),
                "Vec<Register>" => format!("format!(\"[{{}}]\", a{}.iter().map(|r| r.0.to_string()).collect::<Vec<_>>().join(\",\"))", i),
                "u8" | "u32" => format!("a{}.to_string()", i),
                _ => { ok = false; String::new() }
            };
            fmt.push(f);
            decl.push(format!("a{}: {}", i, ty));
        }
        if !ok { continue; }
        g.push_str(&format!("    fn {}(&mut self{}{}) {{ let v: Vec<String> = vec![\"{}\".to_string(){}{}]; self.log.push(v.join(\" \")); }}\n",
                            name, if decl.is_empty() { "" } else { ", " }, decl.join(", "), name,
                            if fmt.is_empty() { "" } else { ", " }, fmt.join(", ")));
    }
    g.push_str("}\n");
    let out = PathBuf::from(env::var("OUT_DIR").unwrap()).join("bc_gen.rs");
    fs::write(out, g).unwrap();
}
