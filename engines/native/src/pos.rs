//! verif-native position <sub> <hex text> …  — the REAL functions of
//! /repo/dora-language-server/src/position.rs (compiled as the lib target `verif_position` of this
//! package, directly from the repository file) and dora_parser::compute_line_starts.
//!
//!   position all <hex>                      line_starts, and for every char-boundary offset o:
//!                                           pos_<o>=<line>:<col>  back_<o>=<offset>  (panics per call)
//!   position offset <hex> <line> <col>      offset=<n>
//!   position span <hex> <start> <len>       range=<l>:<c>-<l>:<c>  span_back=<start>:<len>
//!   position range <hex> <l1> <c1> <l2> <c2>   span=<start>:<len>
//!   position offsets <hex> <line>:<col>…    offset_<line>_<col>=<n>            (batch form of `offset`)
//!   position spans <hex> <start>:<len>…     range_<start>_<len>=…  span_back_<start>_<len>=…  (batch form of `span`)
use std::panic;

use dora_parser::{compute_line_starts, Span};
use lsp_types::{Position, Range};
use verif_position::{range_to_span, span_to_range, utf16_position_to_utf8_offset, utf8_offset_to_utf16_position};

fn hex_to_bytes(s: &str) -> Vec<u8> {
    (0..s.len() / 2).map(|i| u8::from_str_radix(&s[2 * i..2 * i + 2], 16).unwrap()).collect()
}

fn msg(e: Box<dyn std::any::Any + Send>) -> String {
    let m = if let Some(s) = e.downcast_ref::<String>() {
        s.clone()
    } else if let Some(s) = e.downcast_ref::<&str>() {
        s.to_string()
    } else {
        "?".to_string()
    };
    m.replace('\n', " ")
}

fn guarded<T, F: FnOnce() -> T + panic::UnwindSafe>(f: F) -> Result<T, String> {
    panic::catch_unwind(f).map_err(msg)
}

pub fn position(args: &[String]) {
    let sub = args[0].as_str();
    let bytes = hex_to_bytes(args.get(1).map(|s| s.as_str()).unwrap_or(""));
    let text = match String::from_utf8(bytes) {
        Ok(s) => s,
        Err(_) => {
            println!("invalid_utf8=1");
            return;
        }
    };
    let num = |i: usize| -> u32 { args[i].parse().unwrap() };
    let ls = match guarded(|| compute_line_starts(&text)) {
        Ok(v) => v,
        Err(m) => {
            println!("line_starts=panic:{}", m);
            println!("panic=compute_line_starts: {}", m);
            return;
        }
    };
    println!("line_starts={}", ls.iter().map(|x| x.to_string()).collect::<Vec<_>>().join(","));
    println!("len={}", text.len());
    match sub {
        "all" => {
            for o in 0..=text.len() {
                if !text.is_char_boundary(o) {
                    continue;
                }
                match guarded(|| utf8_offset_to_utf16_position(&text, &ls, o as u32)) {
                    Ok(p) => {
                        println!("pos_{}={}:{}", o, p.line, p.character);
                        match guarded(|| utf16_position_to_utf8_offset(&text, &ls, p)) {
                            Ok(b) => println!("back_{}={}", o, b),
                            Err(m) => println!("back_{}=panic:{}", o, m),
                        }
                    }
                    Err(m) => println!("pos_{}=panic:{}", o, m),
                }
            }
        }
        "offset" => {
            let p = Position::new(num(2), num(3));
            match guarded(|| utf16_position_to_utf8_offset(&text, &ls, p)) {
                Ok(b) => {
                    println!("offset={}", b);
                    println!("offset_is_boundary={}", text.is_char_boundary(b as usize) as u32);
                }
                Err(m) => println!("offset=panic:{}", m),
            }
        }
        "span" => {
            let (start, len) = (num(2), num(3));
            match guarded(|| span_to_range(&text, &ls, Span::new(start, len))) {
                Ok(r) => {
                    println!("range={}:{}-{}:{}", r.start.line, r.start.character, r.end.line, r.end.character);
                    match guarded(|| range_to_span(&text, &ls, r)) {
                        Ok(s) => println!("span_back={}:{}", s.start(), s.len()),
                        Err(m) => println!("span_back=panic:{}", m),
                    }
                }
                Err(m) => println!("range=panic:{}", m),
            }
        }
        "offsets" => {
            for a in &args[2..] {
                let (l, c) = a.split_once(':').unwrap();
                let p = Position::new(l.parse().unwrap(), c.parse().unwrap());
                match guarded(|| utf16_position_to_utf8_offset(&text, &ls, p)) {
                    Ok(b) => println!("offset_{}_{}={}", l, c, b),
                    Err(m) => println!("offset_{}_{}=panic:{}", l, c, m),
                }
            }
        }
        "spans" => {
            for a in &args[2..] {
                let (st, ln) = a.split_once(':').unwrap();
                let (start, len): (u32, u32) = (st.parse().unwrap(), ln.parse().unwrap());
                match guarded(|| span_to_range(&text, &ls, Span::new(start, len))) {
                    Ok(r) => {
                        println!("range_{}_{}={}:{}-{}:{}", st, ln, r.start.line, r.start.character, r.end.line, r.end.character);
                        match guarded(|| range_to_span(&text, &ls, r)) {
                            Ok(s) => println!("span_back_{}_{}={}:{}", st, ln, s.start(), s.len()),
                            Err(m) => println!("span_back_{}_{}=panic:{}", st, ln, m),
                        }
                    }
                    Err(m) => println!("range_{}_{}=panic:{}", st, ln, m),
                }
            }
        }
        "range" => {
            let r = Range { start: Position::new(num(2), num(3)), end: Position::new(num(4), num(5)) };
            match guarded(|| range_to_span(&text, &ls, r)) {
                Ok(s) => println!("span={}:{}", s.start(), s.len()),
                Err(m) => println!("span=panic:{}", m),
            }
        }
        _ => println!("unknown_command=1"),
    }
}
