"""Kernel language shared by C01 and C02: typed expression trees over Bool/UInt8/Char/Int32/Int64
and caller supplied arrays, their Dora source, their *reference semantics* (z3 term of the value
plus the list of (condition, trap kind) in evaluation order, built from the language rules
and not from any compiler output), the ABI environment of a kernel, and the replay driver.

Language rules encoded here (sources: property C01 statement, pkgs/std/primitives.dora,
test/rt/int/*):
  + - * unary-      exact result or trap OVERFLOW           (Int32, Int64)
  / %               trap DIV0 if rhs == 0, trap OVERFLOW for MIN / -1 and MIN % -1
  << >> >>>         shift amount is an Int32; trap SHIFT unless 0 <= amount < width;
                    >> arithmetic, >>> logical
  wrapping_*        wrap; overflowing_*: (wrapped value, overflow flag); overflowing_div/mod
                    trap DIV0 on 0, MIN/-1 gives (MIN, true) / (0, true)
  rotate_*          amount taken modulo the width
  count_*           as the loops in pkgs/std/primitives.dora compute them
  comparisons       signed on Int32/Int64, unsigned on UInt8, code point order on Char
  conversions       to_int64 of Int32 sign-extends; to_int32 of Int64 / to_uint8 truncate;
                    UInt8/Char/Bool widen with zeros (true = 1)
  float <-> int     (the only floating point operations covered) Float32/Float64.to_int32/
                    to_int64: truncation toward zero when the truncated value fits the
                    destination type, otherwise - and for NaN - the destination type's minimum
                    value (no trap).  pkgs/std/primitives.dora declares these @internal without
                    documentation: the rule is read off the current behaviour of both code
                    generators (x86 "integer indefinite") and confirmed on the real executables
                    for boundary values on every run.  Int32/Int64.to_float32/to_float64: the
                    nearest representable value, ties to even (IEEE 754 default rounding).
                    Float values are bit patterns: every NaN payload, infinity, denormal counts
  && || if          short circuit: traps of the unevaluated side do not fire
  a(i)  a(i) = v    trap INDEX_OUT_OF_BOUNDS unless 0 <= i < a.size(); receiver, index,
                    value are evaluated left to right before the check
  evaluation        left to right, each operand once; the FIRST trap in evaluation order wins
"""
import random

import z3

from . import sem
from .sem import BV, sx, zx


class Ty:
    def __init__(self, name, bits, kind, elem=None):
        self.name, self.bits, self.kind, self.elem = name, bits, kind, elem

    def __repr__(self):
        return self.name

    @property
    def bytes(self):
        return self.bits // 8


I32 = Ty("Int32", 32, "int")
I64 = Ty("Int64", 64, "int")
U8 = Ty("UInt8", 8, "u8")
CHAR = Ty("Char", 32, "char")
BOOL = Ty("Bool", 8, "bool")
UNIT = Ty("()", 0, "unit")
F32 = Ty("Float32", 32, "float")
F64 = Ty("Float64", 64, "float")
SCALARS = [I32, I64, U8, CHAR, BOOL, F32, F64]
_ARR = {}


def ARR(elem):
    if elem.name not in _ARR:
        _ARR[elem.name] = Ty("Array[%s]" % elem.name, 64, "array", elem)
    return _ARR[elem.name]


def ty_by_name(n):
    for t in SCALARS + [UNIT]:
        if t.name == n:
            return t
    if n.startswith("Array["):
        return ARR(ty_by_name(n[6:-1]))
    raise KeyError(n)


# ---------------------------------------------------------------------------------------
# reference evaluation context

class Ref:
    def __init__(self, traps, args, heap, arrays):
        self.K = traps                # trap name -> number
        self.args = args              # name -> z3 value (BV of the type's width; Bool as z3 Bool)
        self.heap = heap              # z3 Array, updated by stores
        self.arrays = arrays          # name -> (pointer, length term, elem Ty)
        self.traps = []               # (condition, kind) in evaluation order
        self.guard = z3.BoolVal(True)
        self.assume = []              # typing invariants of loaded values (Bool bytes are 0/1, Char are scalars)
        self.where = []               # parallel to traps: (function id, source line) owning the operation (C14)
        self.func = 0
        self.line = 0

    def trap(self, cond, kind):
        self.traps.append((z3.And(self.guard, cond), self.K[kind]))
        self.where.append((self.func, self.line))

    def first_where(self):
        """(function id, line) of the first trap in evaluation order as BV32 terms (0xFFFFFFFF: none)"""
        f = BV(0xFFFFFFFF, 32)
        l = BV(0xFFFFFFFF, 32)
        for (cond, _), (fn, ln) in reversed(list(zip(self.traps, self.where))):
            f = z3.If(cond, BV(fn, 32), f)
            l = z3.If(cond, BV(ln, 32), l)
        return f, l

    def first_trap(self):
        """BV32 term: kind of the first trap in evaluation order, or 0xFFFFFFFF if none"""
        t = BV(0xFFFFFFFF, 32)
        for cond, k in reversed(self.traps):
            t = z3.If(cond, BV(k, 32), t)
        return t

    def no_trap(self):
        return z3.Not(z3.Or(*[c for c, _ in self.traps])) if self.traps else z3.BoolVal(True)


def b2bv(b, w=8):
    return z3.If(b, BV(1, w), BV(0, w))


# ---------------------------------------------------------------------------------------
# expression nodes

class E:
    ty = None

    def src(self):
        raise NotImplementedError

    def ev(self, r):
        raise NotImplementedError

    def ops(self):
        """operator tags used (for keys and coverage)"""
        out = []
        self._ops(out)
        return out

    def _ops(self, out):
        for c in getattr(self, "kids", ()):
            c._ops(out)


class Arg(E):
    def __init__(self, name, ty):
        self.name, self.ty = name, ty

    def src(self):
        return self.name

    def ev(self, r):
        return r.args[self.name]


class Const(E):
    def __init__(self, v, ty):
        self.v, self.ty = v, ty

    def src(self):
        t = self.ty
        if t is BOOL:
            return "true" if self.v else "false"
        if t is CHAR:
            return "'%s'" % chr(self.v)
        if t is U8:
            return "%du8" % self.v
        if t is I32:
            if self.v == -(1 << 31):
                return "Int32::min_value()"
            return "(%di32)" % self.v if self.v < 0 else "%di32" % self.v
        if self.v == -(1 << 63):
            return "Int64::min_value()"
        return "(%di64)" % self.v if self.v < 0 else "%di64" % self.v

    def ev(self, r):
        if self.ty is BOOL:
            return z3.BoolVal(bool(self.v))
        return BV(self.v % (1 << self.ty.bits), self.ty.bits)


ARITH = {"+": "add", "-": "sub", "*": "mul", "/": "div", "%": "mod", "&": "and", "|": "or", "^": "xor"}
SHIFTS = {"<<": "shl", ">>": "sar", ">>>": "shr"}


def add_overflows(a, b):
    w = a.size()
    s = a + b
    return z3.And(z3.Extract(w - 1, w - 1, a) == z3.Extract(w - 1, w - 1, b),
                  z3.Extract(w - 1, w - 1, s) != z3.Extract(w - 1, w - 1, a))


def sub_overflows(a, b):
    w = a.size()
    s = a - b
    return z3.And(z3.Extract(w - 1, w - 1, a) != z3.Extract(w - 1, w - 1, b),
                  z3.Extract(w - 1, w - 1, s) != z3.Extract(w - 1, w - 1, a))


class Bin(E):
    def __init__(self, op, l, r):
        self.op, self.kids = op, (l, r)
        self.ty = l.ty

    def src(self):
        return "(%s %s %s)" % (self.kids[0].src(), self.op, self.kids[1].src())

    def _ops(self, out):
        out.append((ARITH.get(self.op) or SHIFTS[self.op]) + self.ty.name[3:])
        E._ops(self, out)

    def ev(self, r):
        a = self.kids[0].ev(r)
        b = self.kids[1].ev(r)
        w = self.ty.bits
        op = self.op
        if op == "+":
            r.trap(add_overflows(a, b), "OVERFLOW")
            return a + b
        if op == "-":
            r.trap(sub_overflows(a, b), "OVERFLOW")
            return a - b
        if op == "*":
            r.trap(sem.smul_overflows(a, b), "OVERFLOW")
            return a * b
        if op in ("/", "%"):
            r.trap(b == BV(0, w), "DIV0")
            r.trap(z3.And(a == BV(1 << (w - 1), w), b == BV((1 << w) - 1, w)), "OVERFLOW")
            return a / b if op == "/" else z3.SRem(a, b)
        if op == "&":
            return a & b
        if op == "|":
            return a | b
        if op == "^":
            return a ^ b
        # shifts: amount is Int32
        r.trap(z3.UGE(b, BV(w, 32)), "SHIFT")       # negative amounts are >= width as unsigned
        c = zx(z3.Extract(5, 0, b), w) if w == 64 else b
        if op == "<<":
            return a << c
        if op == ">>":
            return a >> c
        return z3.LShR(a, c)


class Un(E):
    def __init__(self, op, e):
        self.op, self.kids, self.ty = op, (e,), e.ty

    def src(self):
        return "(%s%s)" % (self.op, self.kids[0].src())

    def _ops(self, out):
        out.append({"-": "neg", "!": "not"}[self.op] + (self.ty.name[3:] if self.ty.kind == "int" else "Bool"))
        E._ops(self, out)

    def ev(self, r):
        a = self.kids[0].ev(r)
        if self.op == "!":
            return z3.Not(a) if self.ty is BOOL else ~a
        w = self.ty.bits
        r.trap(a == BV(1 << (w - 1), w), "OVERFLOW")
        return -a


def popcount(a):
    w = a.size()
    r = BV(0, 32)
    for i in range(w):
        r = r + zx(z3.Extract(i, i, a), 32)
    return r


def clz(a):
    w = a.size()
    r = BV(w, 32)
    for i in range(w):
        r = z3.If(z3.Extract(i, i, a) == BV(1, 1), BV(w - 1 - i, 32), r)
    return r


def ctz(a):
    w = a.size()
    r = BV(w, 32)
    for i in range(w - 1, -1, -1):
        r = z3.If(z3.Extract(i, i, a) == BV(1, 1), BV(i, 32), r)
    return r


METHODS = {
    # name: (receiver kinds, argument types or 'self', result type or 'self')
    "wrapping_add": ("int", ["self"], "self"), "wrapping_sub": ("int", ["self"], "self"),
    "wrapping_mul": ("int", ["self"], "self"), "wrapping_neg": ("int", [], "self"),
    "rotate_left": ("int", [I32], "self"), "rotate_right": ("int", [I32], "self"),
    "count_one_bits": ("int", [], I32), "count_zero_bits": ("int", [], I32),
    "count_zero_bits_leading": ("int", [], I32), "count_one_bits_leading": ("int", [], I32),
    "count_zero_bits_trailing": ("int", [], I32), "count_one_bits_trailing": ("int", [], I32),
}
OVERFLOWING = ["overflowing_add", "overflowing_sub", "overflowing_mul", "overflowing_div", "overflowing_mod", "overflowing_neg"]


class Call(E):
    """receiver.method(args)"""

    def __init__(self, m, recv, args=()):
        self.m, self.kids = m, (recv,) + tuple(args)
        res = METHODS[m][2]
        self.ty = recv.ty if res == "self" else res

    def src(self):
        return "%s.%s(%s)" % (self.kids[0].src(), self.m, ", ".join(k.src() for k in self.kids[1:]))

    def _ops(self, out):
        out.append(self.m + self.kids[0].ty.name[3:])
        E._ops(self, out)

    def ev(self, r):
        vs = [k.ev(r) for k in self.kids]
        a = vs[0]
        w = a.size()
        m = self.m
        if m == "wrapping_add":
            return a + vs[1]
        if m == "wrapping_sub":
            return a - vs[1]
        if m == "wrapping_mul":
            return a * vs[1]
        if m == "wrapping_neg":
            return -a
        if m in ("rotate_left", "rotate_right"):
            c = zx(z3.Extract(5 if w == 64 else 4, 0, vs[1]), w)
            return sem.rotl(a, c) if m == "rotate_left" else sem.rotr(a, c)
        if m == "count_one_bits":
            return popcount(a)
        if m == "count_zero_bits":
            return popcount(~a)
        if m == "count_zero_bits_leading":
            return clz(a)
        if m == "count_one_bits_leading":
            return clz(~a)
        if m == "count_zero_bits_trailing":
            return ctz(a)
        if m == "count_one_bits_trailing":
            return ctz(~a)
        raise KeyError(m)


class Ovf(E):
    """a.overflowing_op(b).0 / .1"""

    def __init__(self, m, part, recv, args=()):
        self.m, self.part, self.kids = m, part, (recv,) + tuple(args)
        self.ty = recv.ty if part == 0 else BOOL

    def src(self):
        return "%s.%s(%s).%d" % (self.kids[0].src(), self.m, ", ".join(k.src() for k in self.kids[1:]), self.part)

    def _ops(self, out):
        out.append("%s.%d%s" % (self.m, self.part, self.kids[0].ty.name[3:]))
        E._ops(self, out)

    def ev(self, r):
        vs = [k.ev(r) for k in self.kids]
        a = vs[0]
        w = a.size()
        m = self.m
        if m == "overflowing_neg":
            val, flag = -a, a == BV(1 << (w - 1), w)
        else:
            b = vs[1]
            if m == "overflowing_add":
                val, flag = a + b, add_overflows(a, b)
            elif m == "overflowing_sub":
                val, flag = a - b, sub_overflows(a, b)
            elif m == "overflowing_mul":
                val, flag = a * b, sem.smul_overflows(a, b)
            else:
                r.trap(b == BV(0, w), "DIV0")
                flag = z3.And(a == BV(1 << (w - 1), w), b == BV((1 << w) - 1, w))
                if m == "overflowing_div":
                    val = z3.If(flag, a, a / b)
                else:
                    val = z3.If(flag, BV(0, w), z3.SRem(a, b))
        return val if self.part == 0 else flag


CMPS = {"==": "eq", "!=": "ne", "<": "lt", "<=": "le", ">": "gt", ">=": "ge"}


class Cmp(E):
    ty = BOOL

    def __init__(self, op, l, r):
        self.op, self.kids = op, (l, r)

    def src(self):
        return "(%s %s %s)" % (self.kids[0].src(), self.op, self.kids[1].src())

    def _ops(self, out):
        out.append(CMPS[self.op] + self.kids[0].ty.name)
        E._ops(self, out)

    def ev(self, r):
        a, b = self.kids[0].ev(r), self.kids[1].ev(r)
        t = self.kids[0].ty
        if t is BOOL:
            return (a == b) if self.op == "==" else (a != b)
        sg = t.kind == "int"
        return {"==": a == b, "!=": a != b, "<": (a < b) if sg else z3.ULT(a, b), "<=": (a <= b) if sg else z3.ULE(a, b),
                ">": (a > b) if sg else z3.UGT(a, b), ">=": (a >= b) if sg else z3.UGE(a, b)}[self.op]


class Cmp3(E):
    """three-way comparison a.cmp(b) (std::traits::Comparable), folded into -1 / 0 / 1.
    Rule: signed order on Int32/Int64, unsigned on UInt8, code point order on Char."""
    ty = I32

    def __init__(self, l, r):
        self.kids = (l, r)

    def src(self):
        a, b = self.kids[0].src(), self.kids[1].src()
        return "(if %s.cmp(%s).is_lt() { -1i32 } else if %s.cmp(%s).is_gt() { 1i32 } else { 0i32 })" % (a, b, a, b)

    def _ops(self, out):
        out.append("cmp" + self.kids[0].ty.name)
        E._ops(self, out)

    def ev(self, r):
        a, b = self.kids[0].ev(r), self.kids[1].ev(r)
        sg = self.kids[0].ty.kind == "int"
        lt = (a < b) if sg else z3.ULT(a, b)
        gt = (a > b) if sg else z3.UGT(a, b)
        return z3.If(lt, BV(0xFFFFFFFF, 32), z3.If(gt, BV(1, 32), BV(0, 32)))


CONVS = {
    ("Int32", "to_int64"): I64, ("Int64", "to_int32"): I32, ("Int32", "to_uint8"): U8, ("Int64", "to_uint8"): U8,
    ("UInt8", "to_int32"): I32, ("UInt8", "to_int64"): I64, ("UInt8", "to_char"): CHAR, ("Char", "to_int32"): I32,
    ("Char", "to_int64"): I64, ("Bool", "to_int32"): I32, ("Bool", "to_int64"): I64,
}


class Conv(E):
    def __init__(self, m, e):
        self.m, self.kids = m, (e,)
        self.ty = CONVS[(e.ty.name, m)]

    def src(self):
        return "%s.%s()" % (self.kids[0].src(), self.m)

    def _ops(self, out):
        out.append("%s.%s" % (self.kids[0].ty.name, self.m))
        E._ops(self, out)

    def ev(self, r):
        a = self.kids[0].ev(r)
        src, dst = self.kids[0].ty, self.ty
        if src is BOOL:
            return b2bv(a, dst.bits)
        if dst.bits < src.bits:
            return z3.Extract(dst.bits - 1, 0, a)
        if dst.bits == src.bits:
            return a
        return sx(a, dst.bits) if src.kind == "int" else zx(a, dst.bits)


FCONVS = {
    ("Float64", "to_int32"): I32, ("Float64", "to_int64"): I64, ("Float32", "to_int32"): I32, ("Float32", "to_int64"): I64,
    ("Int32", "to_float32"): F32, ("Int32", "to_float64"): F64, ("Int64", "to_float32"): F32, ("Int64", "to_float64"): F64,
}


def _fsort(t):
    return z3.Float32() if t.bits == 32 else z3.Float64()


def float_to_int_ref(bits, src, dst):
    """language rule for Float.to_intN on a bit pattern: truncate toward zero if the result fits,
    else (and for NaN) the minimum value.  Written with comparisons against the exact bounds
    (a different formulation than the instruction semantics in ssefp.py, which rounds first)"""
    w = dst.bits
    so = _fsort(src)
    f = z3.fpBVToFP(bits, so)
    hi = z3.fpSignedToFP(z3.RNE(), BV(1 << (w - 1), w + 1), so)          # 2^(w-1), a power of two: exact
    prec = 24 if src.bits == 32 else 53
    if prec >= w:
        # -(2^(w-1)) - 1 is representable: everything strictly above it truncates into range
        lo = z3.fpSignedToFP(z3.RNE(), BV((-(1 << (w - 1)) - 1) % (1 << (w + 2)), w + 2), so)
        above = z3.fpGT(f, lo)
    else:
        # no representable value lies strictly between -(2^(w-1)) - 1 and -(2^(w-1))
        above = z3.fpGEQ(f, z3.fpNeg(hi))
    fits = z3.And(above, z3.fpLT(f, hi))                                 # false for NaN
    return z3.If(fits, z3.fpToSBV(z3.RTZ(), f, z3.BitVecSort(w)), BV(1 << (w - 1), w))


class FConv(E):
    """float <-> int conversion; float values are carried as IEEE bit patterns"""

    def __init__(self, m, e):
        self.m, self.kids = m, (e,)
        self.ty = FCONVS[(e.ty.name, m)]

    def src(self):
        return "%s.%s()" % (self.kids[0].src(), self.m)

    def _ops(self, out):
        out.append("%s.%s" % (self.kids[0].ty.name, self.m))
        E._ops(self, out)

    def ev(self, r):
        a = self.kids[0].ev(r)
        src, dst = self.kids[0].ty, self.ty
        if src.kind == "float":
            return float_to_int_ref(a, src, dst)
        return z3.fpToIEEEBV(z3.fpSignedToFP(z3.RNE(), a, _fsort(dst)))


class Logic(E):
    """a && b, a || b (short circuit)"""
    ty = BOOL

    def __init__(self, op, l, r):
        self.op, self.kids = op, (l, r)

    def src(self):
        return "(%s %s %s)" % (self.kids[0].src(), self.op, self.kids[1].src())

    def _ops(self, out):
        out.append({"&&": "andand", "||": "oror"}[self.op])
        E._ops(self, out)

    def ev(self, r):
        a = self.kids[0].ev(r)
        g = r.guard
        r.guard = z3.And(g, a if self.op == "&&" else z3.Not(a))
        b = self.kids[1].ev(r)
        r.guard = g
        return z3.And(a, b) if self.op == "&&" else z3.Or(a, b)


class If(E):
    def __init__(self, c, a, b):
        self.kids, self.ty = (c, a, b), a.ty

    def src(self):
        return "(if %s { %s } else { %s })" % tuple(k.src() for k in self.kids)

    def _ops(self, out):
        out.append("if")
        E._ops(self, out)

    def ev(self, r):
        c = self.kids[0].ev(r)
        g = r.guard
        r.guard = z3.And(g, c)
        a = self.kids[1].ev(r)
        r.guard = z3.And(g, z3.Not(c))
        b = self.kids[2].ev(r)
        r.guard = g
        return z3.If(c, a, b)


class Match(E):
    """match scrutinee { c0 => e0, c1 => e1, ..., _ => d } on an integer: first matching arm"""

    def __init__(self, scrut, arms, default):
        self.arms = [c for c, _ in arms]
        self.kids = (scrut,) + tuple(e for _, e in arms) + (default,)
        self.ty = default.ty

    def src(self):
        st = self.kids[0].ty
        suffix = {"Int32": "i32", "Int64": "i64", "UInt8": "u8"}[st.name]
        arms = ", ".join("%d%s => %s" % (c, suffix, e.src()) for c, e in zip(self.arms, self.kids[1:-1]))
        return "(match %s { %s, _ => %s })" % (self.kids[0].src(), arms, self.kids[-1].src())

    def _ops(self, out):
        out.append("match" + self.kids[0].ty.name)
        E._ops(self, out)

    def ev(self, r):
        s = self.kids[0].ev(r)
        w = s.size()
        g = r.guard
        vals, conds = [], []
        nomatch = z3.BoolVal(True)
        for c, e in zip(self.arms, self.kids[1:-1]):
            hit = z3.And(nomatch, s == BV(c % (1 << w), w))
            r.guard = z3.And(g, hit)
            vals.append(e.ev(r))
            conds.append(hit)
            nomatch = z3.And(nomatch, s != BV(c % (1 << w), w))
        r.guard = z3.And(g, nomatch)
        res = self.kids[-1].ev(r)
        r.guard = g
        for hit, v in reversed(list(zip(conds, vals))):
            res = z3.If(hit, v, res)
        return res


class ArrGet(E):
    def __init__(self, arr, idx):
        self.arr, self.kids, self.ty = arr, (idx,), arr.ty.elem

    def src(self):
        return "%s(%s)" % (self.arr.name, self.kids[0].src())

    def _ops(self, out):
        out.append("aget" + self.ty.name)
        E._ops(self, out)

    def ev(self, r):
        i = self.kids[0].ev(r)
        p, ln, el = r.arrays[self.arr.name]
        r.trap(z3.UGE(i, ln), "INDEX_OUT_OF_BOUNDS")
        v = sem.heap_load(r.heap, p + BV(16, 64) + i * BV(el.bytes, 64), el.bytes)
        if el is BOOL:
            r.assume.append(z3.ULE(v, BV(1, 8)))
            return v != BV(0, 8)
        if el is CHAR:
            r.assume.append(z3.And(z3.ULE(v, BV(0x10FFFF, 32)), z3.Or(z3.ULT(v, BV(0xD800, 32)), z3.UGT(v, BV(0xDFFF, 32)))))
        return v


class ArrLen(E):
    ty = I64

    def __init__(self, arr):
        self.arr, self.kids = arr, ()

    def src(self):
        return "%s.size()" % self.arr.name

    def _ops(self, out):
        out.append("alen")

    def ev(self, r):
        return r.arrays[self.arr.name][1]


class Let:
    """statement `let name = expr;` - the value is visible to later statements as Arg(name, ty)"""

    def __init__(self, name, expr):
        self.name, self.expr, self.kids = name, expr, (expr,)
        self.line = 0

    def src(self):
        e = self.expr.src()
        if e.startswith("(") and e.endswith(")") and not isinstance(self.expr, (If, Match)):
            e = e[1:-1]
        return "let %s = %s;" % (self.name, e)

    def ops(self):
        return self.expr.ops()

    def ev(self, r):
        r.args[self.name] = self.expr.ev(r)


class CallK(E):
    """call of another generated kernel (which the optimizing back end may inline)"""

    def __init__(self, callee, args):
        self.callee, self.kids, self.ty = callee, tuple(args), callee.ret

    def src(self):
        return "%s(%s)" % (self.callee.name, ", ".join(k.src() for k in self.kids))

    def _ops(self, out):
        out.append("call")
        out.extend(self.callee.ops())

    def ev(self, r):
        saved = (r.args, r.func, r.line, r.arrays)
        nargs, narrs = {}, {}
        for (n, t), kid in zip(self.callee.params, self.kids):
            if t.kind == "array":
                narrs[n] = r.arrays[kid.name]
            else:
                nargs[n] = kid.ev(r)
        r.args, r.arrays = nargs, narrs
        r.func = self.callee.func_id
        for st in self.callee.stmts:
            r.line = st.line
            st.ev(r)
        r.line = self.callee.result_line
        res = self.callee.result.ev(r) if self.callee.result is not None else None
        r.args, r.func, r.line, r.arrays = saved
        return res


class ArrSet:
    """statement a(i) = v"""
    line = 0

    def __init__(self, arr, idx, val):
        self.arr, self.kids = arr, (idx, val)

    def src(self):
        return "%s(%s) = %s;" % (self.arr.name, self.kids[0].src(), self.kids[1].src())

    def ops(self):
        out = ["aset" + self.arr.ty.elem.name]
        for k in self.kids:
            k._ops(out)
        return out

    def ev(self, r):
        i = self.kids[0].ev(r)
        v = self.kids[1].ev(r)
        p, ln, el = r.arrays[self.arr.name]
        oob = z3.UGE(i, ln)
        r.trap(oob, "INDEX_OUT_OF_BOUNDS")
        if el is BOOL:
            v = b2bv(v, 8)
        addr = p + BV(16, 64) + i * BV(el.bytes, 64)
        # a store happens only when no trap fired up to here
        ok = z3.And(r.guard, r.no_trap())
        new = sem.heap_store(r.heap, addr, v, el.bytes)
        r.heap = z3.If(ok, new, r.heap)


# ---------------------------------------------------------------------------------------

class Kernel:
    def __init__(self, name, params, ret, stmts, result, family, label):
        self.name = name              # [a-z0-9]+
        self.params = params          # [(name, Ty)]
        self.ret = ret                # Ty
        self.stmts = stmts            # [ArrSet]
        self.result = result          # E or None
        self.family = family          # 'single' | 'tree' | ...
        self.label = label            # operator / description used in keys
        self.func_id = 0              # C14: id of the source function, lines of the statements
        self.result_line = 0
        self.never_inline = True

    def source(self):
        ps = ", ".join("%s: %s" % (n, t.name) for n, t in self.params)
        body = " ".join(s.src() for s in self.stmts)
        if self.result is not None:
            body = (body + " " if body else "") + self.result.src()
        rt = "" if self.ret is UNIT else ": " + self.ret.name
        return "@NeverInline fn %s(%s)%s { %s }" % (self.name, ps, rt, body)

    def ops(self):
        out = []
        for s in self.stmts:
            out += s.ops()
        if self.result is not None:
            out += self.result.ops()
        return out

    def arrays(self):
        return [(n, t) for n, t in self.params if t.kind == "array"]


MAXLEN = 1 << 32
INT_REGS = ["rdi", "rsi", "rdx", "rcx", "r8", "r9"]


class Setup:
    """symbolic inputs of a kernel + ABI environment for one back end"""

    def __init__(self, kernel, layout, traps, backend):
        self.k = kernel
        self.traps = traps
        self.backend = backend
        env = self.env = sem.Env(layout)
        self.vals = {}                # param -> BV of the type's width (arrays: pointer)
        self.lens = {}
        self.ref_args = {}
        self.ref_arrays = {}
        nint = sum(1 for _, t in kernel.params if t.kind != "float")
        nflt = sum(1 for _, t in kernel.params if t.kind == "float")
        if nint > len(INT_REGS) or nflt > 8:
            raise sem.Unsupported("more than 6 integer / 8 float parameters")
        ints, flts = iter(INT_REGS), iter("xmm%d" % i for i in range(8))
        for n, t in kernel.params:
            if t.kind == "float":
                # separate register file and counter (dora-compiler FREG_PARAMS); the bits above the
                # value are arbitrary for both back ends
                v = z3.BitVec("a_" + n, t.bits)
                self.vals[n] = v
                env.init_regs[next(flts)] = v if t.bits == 64 else z3.Concat(z3.BitVec("hi_" + n, 32), v)
                self.ref_args[n] = v
                continue
            reg = next(ints)
            if t.kind == "array":
                p = z3.BitVec("p_" + n, 64)
                ln = z3.BitVec("len_" + n, 64)
                self.vals[n], self.lens[n] = p, ln
                env.init_regs[reg] = p
                env.assume(z3.And(z3.UGE(p, BV(1 << 16, 64)), z3.ULE(p, BV(1 << 46, 64)), z3.Extract(2, 0, p) == BV(0, 3)),
                           "array argument: non-null 8-aligned user-space pointer")
                env.assume(z3.ULE(ln, BV(MAXLEN, 64)), "array length <= 2^32 (object fits the address space)")
                env.assume(sem.heap_load(env.heap0, p + BV(8, 64), 8) == ln, "length word of the array argument at offset 8")
                env.add_region(p, BV(16, 64) + ln * BV(t.elem.bytes, 64), "array " + n)
                self.ref_arrays[n] = (p, ln, t.elem)
                continue
            v = z3.BitVec("a_" + n, t.bits)
            self.vals[n] = v
            if backend == "boots":
                full = z3.ZeroExt(64 - t.bits, v) if t.bits < 64 else v
            else:
                hi = z3.BitVec("hi_" + n, 64 - t.bits) if t.bits < 64 else None
                full = z3.Concat(hi, v) if hi is not None else v
            env.init_regs[reg] = full
            if t is BOOL:
                env.assume(z3.ULE(v, BV(1, 8)), "Bool argument is 0 or 1")
                self.ref_args[n] = v != BV(0, 8)
            elif t is CHAR:
                env.assume(z3.And(z3.ULE(v, BV(0x10FFFF, 32)), z3.Or(z3.ULT(v, BV(0xD800, 32)), z3.UGT(v, BV(0xDFFF, 32)))),
                           "Char argument is a Unicode scalar value")
                self.ref_args[n] = v
            else:
                self.ref_args[n] = v
        # arrays of Bool hold 0/1 bytes; Char arrays hold scalar values: not assumed (kernels only move them)

    def reference(self):
        r = Ref(self.traps, dict(self.ref_args), self.env.heap0, self.ref_arrays)
        r.func = self.k.func_id
        for s in self.k.stmts:
            r.line = s.line
            s.ev(r)
        r.line = self.k.result_line
        val = self.k.result.ev(r) if self.k.result is not None else None
        if val is not None and self.k.ret is BOOL:
            val = b2bv(val, 8)
        return r, val

    def ret_value(self, path):
        """the returned value as the back end's convention defines it: low bits of rax"""
        t = self.k.ret
        if t is UNIT:
            return None
        if t.kind == "float":
            return sem.simp(z3.Extract(t.bits - 1, 0, path.term.xmm0)) if t.bits < 64 else path.term.xmm0
        return sem.simp(z3.Extract(t.bits - 1, 0, path.term.rax)) if t.bits < 64 else path.term.rax


# ---------------------------------------------------------------------------------------
# replay / validation driver

def show_expr(ty, e):
    if ty is CHAR:
        return "${%s.to_int32()}" % e
    if ty is F64:
        return "${%s.as_int64()}" % e          # floats travel as bit patterns
    if ty is F32:
        return "${%s.as_int32()}" % e
    if ty is UNIT:
        return "unit"
    return "${%s}" % e


def from_arg(ty, i):
    a = "arg(%di32)" % i
    if ty is I64:
        return a
    if ty is I32:
        return a + ".to_int32()"
    if ty is U8:
        return a + ".to_uint8()"
    if ty is BOOL:
        return "(%s != 0)" % a
    if ty is CHAR:
        return a + ".to_int32().to_char_unchecked()"
    if ty is F64:
        return a + ".as_float64()"
    if ty is F32:
        return a + ".to_int32().as_float32()"
    raise KeyError(ty)


def default_of(ty):
    return {"Int32": "0i32", "Int64": "0i64", "UInt8": "0u8", "Bool": "false", "Char": "'a'"}[ty.name]


def driver_source(kernels, kernel_sources=True):
    """one program: all kernels + main(which, args...).  argv: which, then per parameter either
    the value or (for an array) its length followed by its elements.  Prints `r=<result>` and
    one `<name>=,e0,e1,..` line per array parameter (contents after the call)."""
    out = ["@NeverInline fn id(x: Int64): Int64 { x }",
           "fn arg(i: Int32): Int64 { std::argv(i).to_int64().get_or_panic() }"]
    if any(o.startswith("cmp") for k in kernels for o in k.ops()):
        out.insert(0, "use std::traits::Comparable;")
    elems = {}
    for k in kernels:
        for n, t in k.arrays():
            elems[t.elem.name] = t.elem
    for en, et in sorted(elems.items()):
        tag = en.lower()
        out.append("fn mk%s(p: Int32, len: Int64): Array[%s] {\n  let a = Array[%s]::fill(len, %s);\n  let mut j = 0;\n"
                   "  while j < len { a(j) = %s; j = j + 1; }\n  a\n}"
                   % (tag, en, en, default_of(et), from_arg(et, 0).replace("arg(0i32)", "arg(p + j.to_int32())")))
        out.append("fn show%s(a: Array[%s]): String {\n  let mut s = \"\";\n  let mut j = 0;\n"
                   "  while j < a.size() { s = s + \",%s\"; j = j + 1; }\n  s\n}" % (tag, en, show_expr(et, "a(j)")))
    if kernel_sources:
        for k in kernels:
            out.append(k.source())
    for idx, k in enumerate(kernels):
        body = ["  let mut p = 1i32;"]
        names = []
        for n, t in k.params:
            if t.kind == "array":
                body.append("  let len%s = arg(p); p = p + 1i32;" % n)
                body.append("  let v%s = mk%s(p, len%s); p = p + len%s.to_int32();" % (n, t.elem.name.lower(), n, n))
            else:
                body.append("  let v%s = %s; p = p + 1i32;" % (n, from_arg(t, 0).replace("arg(0i32)", "arg(p)")))
            names.append("v" + n)
        call = "%s(%s)" % (k.name, ", ".join(names))
        if k.ret is UNIT:
            body.append("  %s;" % call)
            body.append("  println(\"r=unit\");")
        else:
            body.append("  let r = %s;" % call)
            body.append("  println(\"r=%s\");" % show_expr(k.ret, "r"))
        for n, t in k.arrays():
            body.append("  println(\"%s=\" + show%s(v%s));" % (n, t.elem.name.lower(), n))
        out.append("fn run%d() {\n%s\n}" % (idx, "\n".join(body)))
    out.append("fn main() {")
    out.append("  let which = arg(0i32);")
    for idx in range(len(kernels)):
        out.append("  if which == %di64 { run%d(); }" % (idx, idx))
    out.append("}")
    return "\n".join(out) + "\n"


def fmt_value(ty, v):
    """Python value (unsigned int of the type's width) -> text the driver prints"""
    if ty is UNIT:
        return "unit"
    if ty is BOOL:
        return "true" if v & 0xFF else "false"
    if ty.kind in ("int", "float"):
        return str(sem.signed(v, ty.bits))
    return str(v)


def argv_of(kernel, setup, model, which):
    """concrete driver arguments from a model; None when an array is too long to pass"""
    av = [str(which)]
    conc = {}
    for n, t in kernel.params:
        if t.kind == "array":
            ln = model.eval(setup.lens[n], model_completion=True).as_long()
            if ln > 64:
                return None, None
            p = model.eval(setup.vals[n], model_completion=True).as_long()
            heap = model.eval(setup.env.heap0, model_completion=True)
            els = []
            for j in range(ln):
                e = model.eval(sem.heap_load(setup.env.heap0, BV(p + 16 + j * t.elem.bytes, 64), t.elem.bytes),
                               model_completion=True).as_long()
                els.append(e)
            av.append(str(ln))
            for e in els:
                av.append(arg_text(t.elem, e))
            conc[n] = els
        else:
            v = model.eval(setup.vals[n], model_completion=True).as_long()
            av.append(arg_text(t, v))
            conc[n] = v
    return av, conc


def arg_text(ty, v):
    if ty.kind in ("int", "float"):
        return str(sem.signed(v, ty.bits))
    if ty is BOOL:
        return "1" if v & 1 else "0"
    return str(v)


def array_elem_constraints(kernel, setup, maxlen=8):
    """extra constraints that make a witness passable through the driver: short arrays whose
    Bool elements are 0/1 and whose Char elements are scalar values"""
    cs = []
    for n, t in kernel.arrays():
        cs.append(z3.ULE(setup.lens[n], BV(maxlen, 64)))
        if t.elem in (BOOL, CHAR):
            for j in range(maxlen):
                e = sem.heap_load(setup.env.heap0, setup.vals[n] + BV(16 + j * t.elem.bytes, 64), t.elem.bytes)
                if t.elem is BOOL:
                    cs.append(z3.ULE(e, BV(1, 8)))
                else:
                    cs.append(z3.And(z3.ULE(e, BV(0x10FFFF, 32)), z3.Or(z3.ULT(e, BV(0xD800, 32)), z3.UGT(e, BV(0xDFFF, 32)))))
    return cs


# ---------------------------------------------------------------------------------------
# generator

INT_POOL = {32: [0, 1, -1, 2, 7, 31, 32, 33, -(1 << 31), (1 << 31) - 1, 255, 256, 65535, 1 << 30],
            64: [0, 1, -1, 2, 7, 63, 64, 65, -(1 << 63), (1 << 63) - 1, 1 << 31, 1 << 32, (1 << 32) - 1, 1 << 61, 1 << 62]}


def single_operator_family():
    """one kernel per operator x type; quick and thorough tiers both contain all of them"""
    ks = []

    def add(label, params, ret, result, stmts=()):
        ks.append(Kernel("s%d" % len(ks), params, ret, list(stmts), result, "single", label))

    for t in (I32, I64):
        a, b = Arg("a", t), Arg("b", t)
        sh = Arg("b", I32)
        for op in ARITH:
            add(ARITH[op] + t.name, [("a", t), ("b", t)], t, Bin(op, a, b))
        for op in SHIFTS:
            add(SHIFTS[op] + t.name, [("a", t), ("b", I32)], t, Bin(op, a, sh))
        add("neg" + t.name, [("a", t)], t, Un("-", a))
        add("not" + t.name, [("a", t)], t, Un("!", a))
        for m, (_, margs, _) in METHODS.items():
            if margs == ["self"]:
                add(m + t.name, [("a", t), ("b", t)], Call(m, a, [b]).ty, Call(m, a, [b]))
            elif margs == [I32]:
                add(m + t.name, [("a", t), ("b", I32)], t, Call(m, a, [sh]))
            else:
                add(m + t.name, [("a", t)], Call(m, a).ty, Call(m, a))
        for m in OVERFLOWING:
            for part in (0, 1):
                if m == "overflowing_neg":
                    e = Ovf(m, part, a)
                    add("%s.%d%s" % (m, part, t.name), [("a", t)], e.ty, e)
                else:
                    e = Ovf(m, part, a, [b])
                    add("%s.%d%s" % (m, part, t.name), [("a", t), ("b", t)], e.ty, e)
    for t in (I32, I64, U8, CHAR):
        a, b = Arg("a", t), Arg("b", t)
        for op in CMPS:
            add(CMPS[op] + t.name, [("a", t), ("b", t)], BOOL, Cmp(op, a, b))
    for t in (I32, I64, U8, CHAR):
        add("cmp" + t.name, [("a", t), ("b", t)], I32, Cmp3(Arg("a", t), Arg("b", t)))
    a, b = Arg("a", BOOL), Arg("b", BOOL)
    add("eqBool", [("a", BOOL), ("b", BOOL)], BOOL, Cmp("==", a, b))
    add("neBool", [("a", BOOL), ("b", BOOL)], BOOL, Cmp("!=", a, b))
    add("notBool", [("a", BOOL)], BOOL, Un("!", a))
    add("andand", [("a", BOOL), ("b", BOOL)], BOOL, Logic("&&", a, b))
    add("oror", [("a", BOOL), ("b", BOOL)], BOOL, Logic("||", a, b))
    for (src, m), dst in CONVS.items():
        st = ty_by_name(src)
        add("%s.%s" % (src, m), [("a", st)], dst, Conv(m, Arg("a", st)))
    # float <-> int conversions (the only floating point operations in the kernel language)
    for (src, m), dst in FCONVS.items():
        st = ty_by_name(src)
        add("%s.%s" % (src, m), [("a", st)], dst, FConv(m, Arg("a", st)))
    # mixed register files: integer and float parameters are counted separately
    add("fconv-mixed", [("a", I64), ("x", F64), ("b", I32), ("y", F32)], I64,
        Bin("^", Bin("^", Arg("a", I64), FConv("to_int64", Arg("x", F64))),
            Bin("^", Conv("to_int64", Arg("b", I32)), FConv("to_int64", Arg("y", F32)))))
    add("fconv-roundtrip", [("a", I64)], I64, FConv("to_int64", FConv("to_float64", Arg("a", I64))))
    # if / short circuit with trapping operands (evaluation order)
    x, y = Arg("a", I32), Arg("b", I32)
    add("if-div", [("a", I32), ("b", I32)], I32, If(Cmp("!=", y, Const(0, I32)), Bin("/", x, y), Const(0, I32)))
    add("order-div-add", [("a", I32), ("b", I32)], I32, Bin("+", Bin("/", x, y), Bin("*", x, y)))
    add("order-shl-div", [("a", I32), ("b", I32)], I32, Bin("-", Bin("<<", x, y), Bin("%", x, y)))
    add("andand-div", [("a", I32), ("b", I32)], BOOL,
        Logic("&&", Cmp("!=", y, Const(0, I32)), Cmp(">", Bin("/", x, y), Const(1, I32))))
    # match on integers: dense arms become a Switch (jump table), sparse ones a compare chain
    for t in (I32, I64, U8):
        v = Arg("a", t)
        add("match-dense" + t.name, [("a", t)], I32,
            Match(v, [(i, Const(10 * i + 3, I32)) for i in range(6)], Const(99, I32)))
    add("match-sparse", [("a", I32)], I64, Match(Arg("a", I32), [(0, Const(5, I64)), (10, Const(-7, I64)), (1000, Const(1 << 40, I64))],
                                                  Const(-1, I64)))
    add("match-arms-trap", [("a", I32), ("b", I32)], I32,
        Match(x, [(0, Bin("/", x, y)), (1, Bin("+", x, y)), (2, Bin("<<", x, y)), (3, Un("-", y)), (4, Bin("*", y, y))], Bin("%", y, x)))
    add("match-offset", [("a", I64)], I64, Match(Arg("a", I64), [(i, Const(i * i, I64)) for i in range(3, 9)], Arg("a", I64)))
    # arrays
    for t in (I64, I32, U8, BOOL, CHAR):
        arr = Arg("v", ARR(t))
        i = Arg("i", I64)
        add("aget" + t.name, [("v", ARR(t)), ("i", I64)], t, ArrGet(arr, i))
        add("aset" + t.name, [("v", ARR(t)), ("i", I64), ("x", t)], UNIT, None, [ArrSet(arr, i, Arg("x", t))])
        add("alen" + t.name, [("v", ARR(t))], I64, ArrLen(arr))
    arr = Arg("v", ARR(I64))
    i, j = Arg("i", I64), Arg("j", I64)
    add("aset-aget", [("v", ARR(I64)), ("i", I64), ("j", I64)], I64, ArrGet(arr, j),
        [ArrSet(arr, i, Bin("+", ArrGet(arr, j), Const(1, I64)))])
    add("aget-i32index", [("v", ARR(I32)), ("i", I32)], I32, ArrGet(Arg("v", ARR(I32)), Conv("to_int64", Arg("i", I32))))
    add("aset-order", [("v", ARR(I32)), ("i", I64), ("a", I32), ("b", I32)], UNIT, None,
        [ArrSet(Arg("v", ARR(I32)), i, Bin("/", Arg("a", I32), Arg("b", I32)))])
    return ks


class TreeGen:
    def __init__(self, seed):
        self.rnd = random.Random(seed)

    def const(self, t):
        r = self.rnd
        if t is BOOL:
            return Const(r.choice([0, 1]), BOOL)
        if t is U8:
            return Const(r.choice([0, 1, 7, 127, 128, 255]), U8)
        if t is CHAR:
            return Const(ord(r.choice("aZ09~ ")), CHAR)
        return Const(r.choice(INT_POOL[t.bits]), t)

    def gen(self, t, depth, params):
        r = self.rnd
        leaves = [Arg(n, pt) for n, pt in params if pt is t]
        if depth <= 0 or r.random() < 0.12:
            if leaves and r.random() < 0.8:
                return r.choice(leaves)
            return self.const(t)
        g = lambda tt, d=depth - 1: self.gen(tt, d, params)
        if t.kind == "int":
            c = r.random()
            if c < 0.40:
                return Bin(r.choice(list(ARITH)), g(t), g(t))
            if c < 0.52:
                return Bin(r.choice(list(SHIFTS)), g(t), g(I32))
            if c < 0.60:
                return Un(r.choice("-!"), g(t))
            if c < 0.70:
                m = r.choice(["wrapping_add", "wrapping_sub", "wrapping_mul", "wrapping_neg", "rotate_left", "rotate_right"])
                margs = METHODS[m][1]
                return Call(m, g(t), [g(t) if a == "self" else g(a) for a in margs])
            if c < 0.76 and t is I32:
                m = r.choice(["count_one_bits", "count_zero_bits", "count_zero_bits_leading", "count_one_bits_leading",
                              "count_zero_bits_trailing", "count_one_bits_trailing"])
                return Call(m, g(r.choice([I32, I64])))
            if c < 0.86:
                srcs = [(s, m) for (s, m), d in CONVS.items() if d is t]
                s, m = r.choice(srcs)
                return Conv(m, g(ty_by_name(s)))
            if c < 0.92:
                m = r.choice(OVERFLOWING)
                return Ovf(m, 0, g(t), [] if m == "overflowing_neg" else [g(t)])
            arrs = [(n, pt) for n, pt in params if pt.kind == "array" and pt.elem is t]
            if arrs and c < 0.97:
                n, pt = r.choice(arrs)
                return ArrGet(Arg(n, pt), g(I64))
            return If(g(BOOL), g(t), g(t))
        if t is BOOL:
            c = r.random()
            if c < 0.55:
                ct = r.choice([I32, I64, U8, CHAR])
                return Cmp(r.choice(list(CMPS)), g(ct), g(ct))
            if c < 0.65:
                return Un("!", g(BOOL))
            if c < 0.85:
                return Logic(r.choice(["&&", "||"]), g(BOOL), g(BOOL))
            if c < 0.93:
                m = r.choice(OVERFLOWING)
                it = r.choice([I32, I64])
                return Ovf(m, 1, g(it), [] if m == "overflowing_neg" else [g(it)])
            return Cmp(r.choice(["==", "!="]), g(BOOL), g(BOOL))
        if t is U8:
            st = r.choice([I32, I64])
            return Conv("to_uint8", g(st))
        if t is CHAR:
            return Conv("to_char", g(U8))
        raise KeyError(t)

    def kernel(self, idx, depth=3):
        r = self.rnd
        nparams = r.choice([2, 2, 3])
        params = []
        for i in range(nparams):
            params.append(("abc"[i], r.choice([I32, I32, I64, I64, U8, CHAR, BOOL])))
        if r.random() < 0.25:
            params.append(("v", ARR(r.choice([I32, I64, U8]))))
        ret = r.choice([I32, I64, I64, I32, BOOL, U8])
        stmts = []
        if params[-1][1].kind == "array" and r.random() < 0.5:
            at = params[-1][1]
            stmts.append(ArrSet(Arg("v", at), self.gen(I64, 1, params), self.gen(at.elem, depth - 1, params)))
        e = self.gen(ret, depth, params)
        return Kernel("t%d" % idx, params, ret, stmts, e, "tree", "tree")


def tree_family(seed, count, depth=3):
    g = TreeGen(seed)
    return [g.kernel(i, depth) for i in range(count)]
