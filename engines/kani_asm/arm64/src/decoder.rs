//! Reference decoder for the A64 instruction classes that dora-asm offers.
//!
//! Written from the Arm Architecture Reference Manual (A-profile), chapter C4 "A64 Instruction
//! Set Encoding" (top-level table C4.1 and the per-class tables), NOT from dora-asm.  Every
//! function is a pure bit-vector function of the 32-bit word.  Unallocated / reserved bit
//! patterns, and instruction classes dora-asm does not offer, decode to `INVALID`.
//!
//! The result is *semantic*: immediates are the decoded values (add/sub immediate after the
//! optional LSL #12, logical immediates after DecodeBitMasks, load/store offsets in bytes after
//! scaling and sign extension, branch offsets in bytes), registers carry the role of encoding 31
//! (stack pointer or zero register) and their width.
//!
//! Representation: `Insn` is packed into three scalars.  This is purely a cost measure for the
//! bounded model checker (every struct field is merged at every control-flow join of the
//! decoder); the accessors below give the structured view.

#[derive(Clone, Copy, PartialEq, Eq, Debug)]
#[repr(u8)]
pub enum Op {
    INVALID = 0,
    ADD, ADDS, SUB, SUBS,
    AND, ORR, EOR, ANDS, BIC, ORN, EON, BICS,
    SBFM, BFM, UBFM,
    MOVN, MOVZ, MOVK,
    ADR, ADRP,
    B, BL, BCOND, CBZ, CBNZ, TBZ, TBNZ, BR, BLR, RET,
    // loads and stores; the access size is `size` (log2 bytes), signedness in the op
    STR, LDR, LDRS, // LDRS = sign-extending load (LDRSB/LDRSH/LDRSW)
    STUR, LDUR, LDURS,
    STP, LDP, LDPSW,
    STXR, STLXR, LDXR, LDAXR, STLR, LDAR, STLLR, LDLAR,
    CAS, CASA, CASL, CASAL,
    LDADD, LDCLR, LDEOR, LDSET, LDSMAX, LDSMIN, LDUMAX, LDUMIN, SWP,
    UDIV, SDIV, LSLV, LSRV, ASRV, RORV,
    RBIT, REV16, REV32, REV, CLZ, CLS,
    MADD, MSUB, SMADDL, SMSUBL, SMULH, UMADDL, UMSUBL, UMULH,
    CSEL, CSINC, CSINV, CSNEG,
    FMOV, FABS, FNEG, FSQRT, FCVT, FRINTN, FRINTP, FRINTM, FRINTZ, FRINTA, FRINTX, FRINTI,
    FMUL, FDIV, FADD, FSUB, FMAX, FMIN, FMAXNM, FMINNM, FNMUL,
    FCMP, FCMPE,
    FCVTNS, FCVTNU, SCVTF, UCVTF, FCVTAS, FCVTAU, FCVTPS, FCVTPU, FCVTMS, FCVTMU, FCVTZS, FCVTZU,
    ADDV, CNT,
    DMB, DSB, ISB, NOP, BRK,
}

#[derive(Clone, Copy, PartialEq, Eq, Debug)]
#[repr(u8)]
pub enum Form {
    NoForm = 0,
    AddSubImm, AddSubShift, AddSubExt,
    LogImm, LogShift,
    MovWide, Bitfield, PcRel,
    BranchImm, BranchCond, CmpBranch, TestBranch, BranchReg,
    LdStUImm, LdStUnscaled, LdStRegOff,
    LdStPairOff, LdStPairPre, LdStPairPost,
    LdStExcl, LdStOrdered, Cas, AtomicMem,
    DP1, DP2, DP3, CondSel,
    FpDP1, FpDP2, FpCmp, FpCmpZero, FpInt,
    SimdAcross, Simd2Misc,
    Barrier, Hint, Exception,
}

/// Register kind: width and the meaning of encoding 31.
#[derive(Clone, Copy, PartialEq, Eq, Debug)]
#[repr(u8)]
pub enum RK {
    None = 0,
    X,   // 64-bit general, 31 = xzr
    XSP, // 64-bit general, 31 = sp
    W,   // 32-bit general, 31 = wzr
    WSP, // 32-bit general, 31 = wsp
    B, H, S, D, Q, // scalar SIMD&FP
    V8B, V16B, V4H, V8H, V2S, V4S, V2D, // vector arrangement
}

#[derive(Clone, Copy, PartialEq, Eq, Debug)]
pub struct Reg {
    pub n: u8,
    pub k: RK,
}

pub const NOREG: Reg = Reg { n: 0, k: RK::None };

/// Shift kinds (`sh` when the form is *Shift): 0 LSL, 1 LSR, 2 ASR, 3 ROR.
/// Extend kinds (`sh` when the form is AddSubExt / LdStRegOff): the 3-bit `option` field
/// 0 UXTB 1 UXTH 2 UXTW 3 UXTX(=LSL for 64-bit / ld-st) 4 SXTB 5 SXTH 6 SXTW 7 SXTX.
///
/// Packed layout
///   a: [7:0] op  [15:8] form  [19:16] size  [23:20] sh  [31:24] amt  [35:32] cond  [47:40] imm2
///   r: [9:0] rd/rt  [19:10] rn  [29:20] rm/rs  [39:30] ra/rt2    each = n | kind << 5
///   imm: the main immediate
/// size: 1 = 64-bit / 0 = 32-bit for integer data processing; for loads/stores log2 of the
/// access size in bytes (0..4); for FP the precision of the FP operand (2 single, 3 double, 1 half).
/// imm2: bitfield imms; move-wide shift (hw*16); test-branch bit number; S bit of register-offset
/// loads/stores; acquire/release bits (A<<1|R) of atomic memory operations; a should-be-zero Rm.
#[derive(Clone, Copy, PartialEq, Eq, Debug)]
pub struct Insn {
    pub a: u64,
    pub r: u64,
    pub imm: i64,
}

pub const INVALID: Insn = Insn { a: 0, r: 0, imm: 0 };

#[inline]
pub fn pk(n: u32, k: RK) -> u64 {
    ((n & 31) as u64) | ((k as u64) << 5)
}

#[inline]
pub fn mk(op: Op, form: Form, size: u32) -> u64 {
    (op as u64) | ((form as u64) << 8) | (((size & 15) as u64) << 16)
}

pub const RD: u32 = 0;
pub const RN: u32 = 10;
pub const RM: u32 = 20;
pub const RA: u32 = 30;
pub const SH: u32 = 20;
pub const AMT: u32 = 24;
pub const COND: u32 = 32;
pub const IMM2: u32 = 40;

fn unpack_reg(v: u64) -> Reg {
    let k = ((v >> 5) & 31) as u8;
    // RK is repr(u8) with consecutive discriminants None..=V2D
    let k = if k <= RK::V2D as u8 { unsafe { std::mem::transmute::<u8, RK>(k) } } else { RK::None };
    Reg { n: (v & 31) as u8, k }
}

/// Structured view (native use: printing, sequence semantics).
impl Insn {
    pub fn is_valid(&self) -> bool { self.a & 0xff != 0 }
    pub fn op(&self) -> Op {
        // Op is repr(u8) with consecutive discriminants INVALID..=BRK
        let i = (self.a & 0xff) as u8;
        if i <= Op::BRK as u8 { unsafe { std::mem::transmute::<u8, Op>(i) } } else { Op::INVALID }
    }
    pub fn form(&self) -> Form {
        let i = ((self.a >> 8) & 0xff) as u8;
        if i <= Form::Exception as u8 { unsafe { std::mem::transmute::<u8, Form>(i) } } else { Form::NoForm }
    }
    pub fn size(&self) -> u8 { ((self.a >> 16) & 15) as u8 }
    pub fn sh(&self) -> u8 { ((self.a >> SH) & 15) as u8 }
    pub fn amt(&self) -> u8 { ((self.a >> AMT) & 0xff) as u8 }
    pub fn cond(&self) -> u8 { ((self.a >> COND) & 15) as u8 }
    pub fn imm2(&self) -> i64 { ((self.a >> IMM2) & 0xff) as i64 }
    pub fn rd(&self) -> Reg { unpack_reg(self.r >> RD) }
    pub fn rn(&self) -> Reg { unpack_reg(self.r >> RN) }
    pub fn rm(&self) -> Reg { unpack_reg(self.r >> RM) }
    pub fn ra(&self) -> Reg { unpack_reg(self.r >> RA) }
    /// raw comparisons that avoid table lookups (used by the sequence post-conditions under Kani)
    pub fn op_is(&self, o: Op) -> bool { self.a & 0xff == o as u64 }
    pub fn form_is(&self, f: Form) -> bool { (self.a >> 8) & 0xff == f as u64 }
    pub fn rd_is(&self, r: Reg) -> bool { (self.r >> RD) & 0x3ff == pk(r.n as u32, r.k) }
    pub fn rn_is(&self, r: Reg) -> bool { (self.r >> RN) & 0x3ff == pk(r.n as u32, r.k) }
    pub fn rm_is(&self, r: Reg) -> bool { (self.r >> RM) & 0x3ff == pk(r.n as u32, r.k) }
}

// Field extraction with compile-time masks / shift amounts (no run-time overflow checks, so
// that the symbolic execution of the decoder stays small).
macro_rules! bits {
    ($w:expr, $hi:literal, $lo:literal) => {
        (($w) >> $lo) & ((((1u64 << ($hi - $lo + 1)) - 1) as u32))
    };
}
macro_rules! bit {
    ($w:expr, $i:literal) => {
        (($w) >> $i) & 1
    };
}
macro_rules! sext {
    ($v:expr, $width:literal) => {
        (((($v) as u64) << (64 - $width)) as i64) >> (64 - $width)
    };
}

/// Arm ARM shared pseudocode `DecodeBitMasks(immN, imms, immr, immediate = TRUE)`, result `wmask`
/// for a datasize of `regsize` bits.  (ok, mask); !ok = reserved value.  Loop-free.
pub fn decode_bit_masks(n: u32, imms: u32, immr: u32, regsize: u32) -> (bool, u64) {
    // len = HighestSetBit(immN : NOT(imms)); esize = 1 << len; len < 1 is reserved
    let v = (n << 6) | (!imms & 0x3f);
    let (esize, levels): (u32, u32) = if v & 0x40 != 0 {
        (64, 63)
    } else if v & 0x20 != 0 {
        (32, 31)
    } else if v & 0x10 != 0 {
        (16, 15)
    } else if v & 0x08 != 0 {
        (8, 7)
    } else if v & 0x04 != 0 {
        (4, 3)
    } else if v & 0x02 != 0 {
        (2, 1)
    } else {
        return (false, 0);
    };
    if esize > regsize {
        return (false, 0);
    }
    let s = imms & levels;
    let r = immr & levels;
    if s == levels {
        return (false, 0); // immediate form: an all-ones element is reserved
    }
    // welem = ZeroExtend(Ones(S + 1), esize); S + 1 <= 63
    let welem: u64 = (1u64 << ((s + 1) & 63)) - 1;
    // ROR(welem, R) within esize bits
    let emask: u64 = if esize == 64 { !0u64 } else { (1u64 << (esize & 63)) - 1 };
    let e = if r == 0 { welem } else { ((welem >> (r & 63)) | (welem << ((esize - r) & 63))) & emask };
    // Replicate(.., datasize / esize) by doubling
    let mut m = e;
    if esize <= 2 { m |= m << 2; }
    if esize <= 4 { m |= m << 4; }
    if esize <= 8 { m |= m << 8; }
    if esize <= 16 { m |= m << 16; }
    if esize <= 32 { m |= m << 32; }
    if regsize == 32 {
        m &= 0xffff_ffff;
    }
    (true, m)
}

#[inline]
fn gx(sf: u32) -> RK { if sf == 1 { RK::X } else { RK::W } }
#[inline]
fn gsp(sf: u32) -> RK { if sf == 1 { RK::XSP } else { RK::WSP } }

pub fn decode(w: u32) -> Insn {
    let op0 = bits!(w, 28, 25);
    if op0 & 0b1110 == 0b1000 {
        dp_imm(w)
    } else if op0 & 0b1110 == 0b1010 {
        branch_sys(w)
    } else if op0 & 0b0101 == 0b0100 {
        ldst(w)
    } else if op0 & 0b0111 == 0b0101 {
        dp_reg(w)
    } else if op0 & 0b0111 == 0b0111 {
        fp_simd(w)
    } else {
        INVALID
    }
}

pub fn decode_opt(w: u32) -> Option<Insn> {
    let d = decode(w);
    if d.is_valid() { Some(d) } else { None }
}

// ------------------------------------------------------------------------------------------
// C4.1.86 Data processing -- immediate

fn dp_imm(w: u32) -> Insn {
    let sf = bit!(w, 31);
    let rd = bits!(w, 4, 0);
    let rn = bits!(w, 9, 5);
    let n = bit!(w, 22);
    let immr = bits!(w, 21, 16);
    let imms = bits!(w, 15, 10);
    let opc = bits!(w, 30, 29);
    let cls = bits!(w, 25, 23);
    if cls <= 1 {
        // PC-rel addressing: op immlo 10000 immhi Rd
        let v = sext!((bits!(w, 23, 5) << 2) | opc, 21);
        return if sf == 0 {
            Insn { a: mk(Op::ADR, Form::PcRel, 1), r: pk(rd, RK::X), imm: v }
        } else {
            Insn { a: mk(Op::ADRP, Form::PcRel, 1), r: pk(rd, RK::X), imm: v << 12 }
        };
    }
    if cls == 0b010 {
        // Add/subtract (immediate): sf op S 100010 sh imm12 Rn Rd
        let s = opc & 1;
        let imm12 = bits!(w, 21, 10) as i64;
        let o = match opc { 0 => Op::ADD, 1 => Op::ADDS, 2 => Op::SUB, _ => Op::SUBS };
        let rdk = if s == 1 { gx(sf) } else { gsp(sf) };
        return Insn {
            a: mk(o, Form::AddSubImm, sf),
            r: pk(rd, rdk) | pk(rn, gsp(sf)) << RN,
            imm: if n == 1 { imm12 << 12 } else { imm12 },
        };
    }
    if cls == 0b100 {
        // Logical (immediate): sf opc 100100 N immr imms Rn Rd
        let (ok, mask) = decode_bit_masks(n, imms, immr, if sf == 1 { 64 } else { 32 });
        if !ok || (sf == 0 && n == 1) {
            return INVALID;
        }
        let o = match opc { 0 => Op::AND, 1 => Op::ORR, 2 => Op::EOR, _ => Op::ANDS };
        let rdk = if opc == 3 { gx(sf) } else { gsp(sf) };
        return Insn { a: mk(o, Form::LogImm, sf), r: pk(rd, rdk) | pk(rn, gx(sf)) << RN, imm: mask as i64 };
    }
    if cls == 0b101 {
        // Move wide (immediate): sf opc 100101 hw imm16 Rd
        let hw = bits!(w, 22, 21);
        if opc == 1 || (sf == 0 && hw >= 2) {
            return INVALID;
        }
        let o = match opc { 0 => Op::MOVN, 2 => Op::MOVZ, _ => Op::MOVK };
        return Insn {
            a: mk(o, Form::MovWide, sf) | ((hw * 16) as u64) << IMM2,
            r: pk(rd, gx(sf)),
            imm: bits!(w, 20, 5) as i64,
        };
    }
    if cls == 0b110 {
        // Bitfield: sf opc 100110 N immr imms Rn Rd
        if opc == 3 || n != sf || (sf == 0 && (immr >= 32 || imms >= 32)) {
            return INVALID;
        }
        let o = match opc { 0 => Op::SBFM, 1 => Op::BFM, _ => Op::UBFM };
        return Insn {
            a: mk(o, Form::Bitfield, sf) | (imms as u64) << IMM2,
            r: pk(rd, gx(sf)) | pk(rn, gx(sf)) << RN,
            imm: immr as i64,
        };
    }
    INVALID // add/sub immediate with tags, extract
}

// ------------------------------------------------------------------------------------------
// C4.1.87 Branches, exception generating and system instructions

fn branch_sys(w: u32) -> Insn {
    let rt = bits!(w, 4, 0);
    let b31 = bit!(w, 31);
    let b24 = bit!(w, 24);
    let imm19 = sext!(bits!(w, 23, 5), 19) << 2;
    // Unconditional branch (immediate): op 00101 imm26
    if bits!(w, 30, 26) == 0b00101 {
        let o = if b31 == 0 { Op::B } else { Op::BL };
        return Insn { a: mk(o, Form::BranchImm, 0), r: 0, imm: sext!(bits!(w, 25, 0), 26) << 2 };
    }
    // Compare and branch (immediate): sf 011010 op imm19 Rt
    if bits!(w, 30, 25) == 0b011010 {
        let o = if b24 == 0 { Op::CBZ } else { Op::CBNZ };
        return Insn { a: mk(o, Form::CmpBranch, b31), r: pk(rt, gx(b31)), imm: imm19 };
    }
    // Test and branch (immediate): b5 011011 op b40 imm14 Rt
    if bits!(w, 30, 25) == 0b011011 {
        let o = if b24 == 0 { Op::TBZ } else { Op::TBNZ };
        let bitno = (b31 << 5) | bits!(w, 23, 19);
        return Insn {
            a: mk(o, Form::TestBranch, b31) | (bitno as u64) << IMM2,
            r: pk(rt, gx(b31)),
            imm: sext!(bits!(w, 18, 5), 14) << 2,
        };
    }
    // Conditional branch (immediate): 0101010 o1 imm19 o0 cond
    if bits!(w, 31, 25) == 0b0101010 {
        if b24 != 0 || bit!(w, 4) != 0 {
            return INVALID;
        }
        return Insn { a: mk(Op::BCOND, Form::BranchCond, 0) | (bits!(w, 3, 0) as u64) << COND, r: 0, imm: imm19 };
    }
    // Exception generation: 11010100 opc imm16 op2 LL
    if bits!(w, 31, 24) == 0b11010100 {
        if bits!(w, 23, 21) == 0b001 && bits!(w, 4, 0) == 0 {
            return Insn { a: mk(Op::BRK, Form::Exception, 0), r: 0, imm: bits!(w, 20, 5) as i64 };
        }
        return INVALID;
    }
    // System: 1101010100 L op0 op1 CRn CRm op2 Rt
    if bits!(w, 31, 22) == 0b1101010100 {
        let crn = bits!(w, 15, 12);
        let crm = bits!(w, 11, 8);
        let op2 = bits!(w, 7, 5);
        // L = 0, op0 = 00, op1 = 011, Rt = 11111
        if bits!(w, 21, 16) == 0b000011 && rt == 31 {
            if crn == 0b0010 {
                // hints; only NOP (CRm = 0000, op2 = 000) is offered
                if crm == 0 && op2 == 0 {
                    return Insn { a: mk(Op::NOP, Form::Hint, 0), r: 0, imm: 0 };
                }
                return INVALID;
            }
            if crn == 0b0011 {
                let o = match op2 { 0b100 => Op::DSB, 0b101 => Op::DMB, 0b110 => Op::ISB, _ => Op::INVALID };
                if o == Op::INVALID {
                    return INVALID;
                }
                return Insn { a: mk(o, Form::Barrier, 0), r: 0, imm: crm as i64 };
            }
        }
        return INVALID;
    }
    // Unconditional branch (register): 1101011 opc op2 op3 Rn op4
    if bits!(w, 31, 25) == 0b1101011 {
        let opc = bits!(w, 24, 21);
        if bits!(w, 20, 16) != 0b11111 || bits!(w, 15, 10) != 0 || rt != 0 || opc > 2 {
            return INVALID;
        }
        let o = match opc { 0 => Op::BR, 1 => Op::BLR, _ => Op::RET };
        return Insn { a: mk(o, Form::BranchReg, 0), r: pk(bits!(w, 9, 5), RK::X) << RN, imm: 0 };
    }
    INVALID
}

// ------------------------------------------------------------------------------------------
// C4.1.88 Loads and stores

/// Decodes the (size, V, opc) triple shared by the "load/store register" classes:
/// (valid, kind 0 store / 1 load / 2 sign-extending load, access scale, Rt kind).
fn ldst_kind(size: u32, v: u32, opc: u32) -> (bool, u32, u32, RK) {
    if v == 0 {
        let wx = if size == 3 { RK::X } else { RK::W };
        match opc {
            0 => (true, 0, size, wx),
            1 => (true, 1, size, wx),
            // sign-extending load to 64 bits; size == 3 is PRFM
            2 => (size != 3, 2, size, RK::X),
            // sign-extending load to 32 bits; only byte and halfword
            _ => (size < 2, 2, size, RK::W),
        }
    } else {
        let fk = match size { 0 => RK::B, 1 => RK::H, 2 => RK::S, _ => RK::D };
        match opc {
            0 => (true, 0, size, fk),
            1 => (true, 1, size, fk),
            2 => (size == 0, 0, 4, RK::Q),
            _ => (size == 0, 1, 4, RK::Q),
        }
    }
}

fn ldst(w: u32) -> Insn {
    let rt = bits!(w, 4, 0);
    let rn = bits!(w, 9, 5);
    let rt2 = bits!(w, 14, 10);
    let rs = bits!(w, 20, 16);
    let size = bits!(w, 31, 30);
    let v = bit!(w, 26);
    let l = bit!(w, 22);
    let wx = if size == 3 { RK::X } else { RK::W };
    let base = pk(rn, RK::XSP) << RN;

    // Load/store exclusive & friends: size 001000 o2 L o1 Rs o0 Rt2 Rn Rt
    if bits!(w, 29, 24) == 0b001000 {
        let o2 = bit!(w, 23);
        let o1 = bit!(w, 21);
        let o0 = bit!(w, 15);
        let lo = (l << 1) | o0;
        if rt2 != 31 {
            return INVALID; // pair forms / CASP are not offered; single forms have Rt2 = 11111
        }
        if o2 == 0 && o1 == 0 {
            // exclusive register; loads have Rs = 11111
            if l == 1 && rs != 31 {
                return INVALID;
            }
            let o = match lo { 0 => Op::STXR, 1 => Op::STLXR, 2 => Op::LDXR, _ => Op::LDAXR };
            let status = if l == 0 { pk(rs, RK::W) << RM } else { 0 };
            return Insn { a: mk(o, Form::LdStExcl, size), r: pk(rt, wx) | base | status, imm: 0 };
        }
        if o2 == 1 && o1 == 0 {
            // load-acquire / store-release; Rs = 11111
            if rs != 31 {
                return INVALID;
            }
            let o = match lo { 0 => Op::STLLR, 1 => Op::STLR, 2 => Op::LDLAR, _ => Op::LDAR };
            return Insn { a: mk(o, Form::LdStOrdered, size), r: pk(rt, wx) | base, imm: 0 };
        }
        if o2 == 1 && o1 == 1 {
            // compare and swap: L = acquire, o0 = release
            let o = match lo { 0 => Op::CAS, 1 => Op::CASL, 2 => Op::CASA, _ => Op::CASAL };
            return Insn { a: mk(o, Form::Cas, size), r: pk(rt, wx) | base | pk(rs, wx) << RM, imm: 0 };
        }
        return INVALID;
    }

    // Load/store pair: opc 101 V 0 mode L imm7 Rt2 Rn Rt
    if bits!(w, 29, 27) == 0b101 && bit!(w, 25) == 0 {
        let mode = bits!(w, 24, 23);
        let form = match mode { 1 => Form::LdStPairPost, 2 => Form::LdStPairOff, 3 => Form::LdStPairPre, _ => Form::NoForm };
        let ldp = if l == 1 { Op::LDP } else { Op::STP };
        // size here is the opc field
        let (o, scale, k) = if v == 0 {
            match size {
                0 => (ldp, 2u32, RK::W),
                1 => (if l == 1 { Op::LDPSW } else { Op::INVALID }, 2, RK::X),
                2 => (ldp, 3, RK::X),
                _ => (Op::INVALID, 0, RK::None),
            }
        } else {
            match size {
                0 => (ldp, 2u32, RK::S),
                1 => (ldp, 3, RK::D),
                2 => (ldp, 4, RK::Q),
                _ => (Op::INVALID, 0, RK::None),
            }
        };
        if o == Op::INVALID || mode == 0 {
            return INVALID;
        }
        return Insn {
            a: mk(o, form, scale),
            r: pk(rt, k) | base | pk(rt2, k) << RA,
            imm: (sext!(bits!(w, 21, 15), 7)) << scale,
        };
    }

    // Load/store register family: size 111 V xx ...
    if bits!(w, 29, 27) == 0b111 {
        let opc = bits!(w, 23, 22);
        let (ok, kind, scale, k) = ldst_kind(size, v, opc);
        let b2524 = bits!(w, 25, 24);
        let mm = bits!(w, 11, 10);
        if b2524 == 0b01 {
            // unsigned immediate: size 111 V 01 opc imm12 Rn Rt
            if !ok {
                return INVALID;
            }
            let o = match kind { 0 => Op::STR, 1 => Op::LDR, _ => Op::LDRS };
            return Insn { a: mk(o, Form::LdStUImm, scale), r: pk(rt, k) | base, imm: (bits!(w, 21, 10) as i64) << scale };
        }
        if b2524 == 0b00 {
            if bit!(w, 21) == 0 {
                // unscaled immediate: size 111 V 00 opc 0 imm9 00 Rn Rt
                // (post/pre-indexed and unprivileged forms, mm != 00, are not offered)
                if !ok || mm != 0 {
                    return INVALID;
                }
                let o = match kind { 0 => Op::STUR, 1 => Op::LDUR, _ => Op::LDURS };
                return Insn { a: mk(o, Form::LdStUnscaled, scale), r: pk(rt, k) | base, imm: sext!(bits!(w, 20, 12), 9) };
            }
            if mm == 0b10 {
                // register offset: size 111 V 00 opc 1 Rm option S 10 Rn Rt
                let option = bits!(w, 15, 13);
                let s = bit!(w, 12);
                if !ok || option & 0b010 == 0 {
                    return INVALID;
                }
                let o = match kind { 0 => Op::STR, 1 => Op::LDR, _ => Op::LDRS };
                let rmk = if option & 1 == 1 { RK::X } else { RK::W };
                let amt = if s == 1 { scale } else { 0 };
                return Insn {
                    a: mk(o, Form::LdStRegOff, scale) | (option as u64) << SH | (amt as u64) << AMT | (s as u64) << IMM2,
                    r: pk(rt, k) | base | pk(rs, rmk) << RM,
                    imm: 0,
                };
            }
            if mm == 0b00 {
                // atomic memory operations: size 111 V 00 A R 1 Rs o3 opc 00 Rn Rt
                let o3 = bit!(w, 15);
                let aopc = bits!(w, 14, 12);
                let o = if o3 == 0 {
                    match aopc {
                        0 => Op::LDADD, 1 => Op::LDCLR, 2 => Op::LDEOR, 3 => Op::LDSET,
                        4 => Op::LDSMAX, 5 => Op::LDSMIN, 6 => Op::LDUMAX, _ => Op::LDUMIN,
                    }
                } else if aopc == 0 {
                    Op::SWP
                } else {
                    Op::INVALID
                };
                if v != 0 || o == Op::INVALID {
                    return INVALID;
                }
                // ordering: bit 1 = acquire (A, bit 23), bit 0 = release (R, bit 22)
                let ar = bits!(w, 23, 22);
                return Insn {
                    a: mk(o, Form::AtomicMem, size) | (ar as u64) << IMM2,
                    r: pk(rt, wx) | base | pk(rs, wx) << RM,
                    imm: 0,
                };
            }
        }
    }
    INVALID
}

// ------------------------------------------------------------------------------------------
// C4.1.89 Data processing -- register

fn dp_reg(w: u32) -> Insn {
    let sf = bit!(w, 31);
    let rd = bits!(w, 4, 0);
    let rn = bits!(w, 9, 5);
    let rm = bits!(w, 20, 16);
    let imm6 = bits!(w, 15, 10);
    let shift = bits!(w, 23, 22);
    let opc = bits!(w, 30, 29);
    let k = gx(sf);
    let r3 = pk(rd, k) | pk(rn, k) << RN | pk(rm, k) << RM;
    if bit!(w, 28) == 0 {
        if bit!(w, 24) == 0 {
            // Logical (shifted register): sf opc 01010 shift N Rm imm6 Rn Rd
            if sf == 0 && imm6 >= 32 {
                return INVALID;
            }
            let o = match (opc << 1) | bit!(w, 21) {
                0 => Op::AND, 1 => Op::BIC, 2 => Op::ORR, 3 => Op::ORN,
                4 => Op::EOR, 5 => Op::EON, 6 => Op::ANDS, _ => Op::BICS,
            };
            return Insn { a: mk(o, Form::LogShift, sf) | (shift as u64) << SH | (imm6 as u64) << AMT, r: r3, imm: 0 };
        }
        let s = opc & 1;
        let o = match opc { 0 => Op::ADD, 1 => Op::ADDS, 2 => Op::SUB, _ => Op::SUBS };
        if bit!(w, 21) == 0 {
            // Add/subtract (shifted register): sf op S 01011 shift 0 Rm imm6 Rn Rd
            if shift == 3 || (sf == 0 && imm6 >= 32) {
                return INVALID;
            }
            return Insn { a: mk(o, Form::AddSubShift, sf) | (shift as u64) << SH | (imm6 as u64) << AMT, r: r3, imm: 0 };
        }
        // Add/subtract (extended register): sf op S 01011 opt 1 Rm option imm3 Rn Rd
        let option = bits!(w, 15, 13);
        let imm3 = bits!(w, 12, 10);
        if shift != 0 || imm3 > 4 {
            return INVALID;
        }
        let rdk = if s == 1 { gx(sf) } else { gsp(sf) };
        let rmk = if sf == 1 && option & 0b011 == 0b011 { RK::X } else { RK::W };
        return Insn {
            a: mk(o, Form::AddSubExt, sf) | (option as u64) << SH | (imm3 as u64) << AMT,
            r: pk(rd, rdk) | pk(rn, gsp(sf)) << RN | pk(rm, rmk) << RM,
            imm: 0,
        };
    }
    // bit 28 == 1
    let op2 = bits!(w, 24, 21);
    if op2 & 0b1000 != 0 {
        // Data-processing (3 source): sf op54 11011 op31 Rm o0 Ra Rn Rd
        let op31 = bits!(w, 23, 21);
        let o0 = bit!(w, 15);
        let ra = bits!(w, 14, 10);
        if opc != 0 {
            return INVALID;
        }
        let sel = (op31 << 1) | o0;
        if sel <= 1 {
            let o = if o0 == 0 { Op::MADD } else { Op::MSUB };
            return Insn { a: mk(o, Form::DP3, sf), r: r3 | pk(ra, k) << RA, imm: 0 };
        }
        if sf == 0 {
            return INVALID;
        }
        let (o, long) = match sel {
            2 => (Op::SMADDL, true), 3 => (Op::SMSUBL, true), 10 => (Op::UMADDL, true), 11 => (Op::UMSUBL, true),
            4 => (Op::SMULH, false), 12 => (Op::UMULH, false),
            _ => (Op::INVALID, false),
        };
        if o == Op::INVALID {
            return INVALID;
        }
        let nk = if long { RK::W } else { RK::X };
        // for SMULH/UMULH Ra is "(1)(1)(1)(1)(1)": should-be-one, kept so that a deviation shows
        return Insn {
            a: mk(o, Form::DP3, 1),
            r: pk(rd, RK::X) | pk(rn, nk) << RN | pk(rm, nk) << RM | pk(ra, RK::X) << RA,
            imm: 0,
        };
    }
    if op2 == 0b0100 {
        // Conditional select: sf op S 11010100 Rm cond op2 Rn Rd
        let o2 = bits!(w, 11, 10);
        if opc & 1 != 0 || o2 >= 2 {
            return INVALID;
        }
        let o = match opc | o2 { 0 => Op::CSEL, 1 => Op::CSINC, 2 => Op::CSINV, _ => Op::CSNEG };
        return Insn { a: mk(o, Form::CondSel, sf) | (bits!(w, 15, 12) as u64) << COND, r: r3, imm: 0 };
    }
    if op2 == 0b0110 {
        if opc & 1 != 0 {
            return INVALID; // S must be 0
        }
        if bit!(w, 30) == 0 {
            // Data-processing (2 source): sf 0 S 11010110 Rm opcode Rn Rd
            let o = match imm6 {
                0b000010 => Op::UDIV, 0b000011 => Op::SDIV,
                0b001000 => Op::LSLV, 0b001001 => Op::LSRV, 0b001010 => Op::ASRV, 0b001011 => Op::RORV,
                _ => Op::INVALID,
            };
            if o == Op::INVALID {
                return INVALID;
            }
            return Insn { a: mk(o, Form::DP2, sf), r: r3, imm: 0 };
        }
        // Data-processing (1 source): sf 1 S 11010110 opcode2 opcode Rn Rd
        let o = match imm6 {
            0b000000 => Op::RBIT,
            0b000001 => Op::REV16,
            0b000010 => if sf == 0 { Op::REV } else { Op::REV32 },
            0b000011 => if sf == 1 { Op::REV } else { Op::INVALID },
            0b000100 => Op::CLZ,
            0b000101 => Op::CLS,
            _ => Op::INVALID,
        };
        if rm != 0 || o == Op::INVALID {
            return INVALID;
        }
        return Insn { a: mk(o, Form::DP1, sf), r: pk(rd, k) | pk(rn, k) << RN, imm: 0 };
    }
    INVALID // add/sub with carry, conditional compare, ...
}

// ------------------------------------------------------------------------------------------
// C4.1.90 Data processing -- scalar floating-point and Advanced SIMD

/// ftype -> (valid, kind, size code)
fn fp_kind(ftype: u32) -> (bool, RK, u32) {
    match ftype { 0 => (true, RK::S, 2), 1 => (true, RK::D, 3), 3 => (true, RK::H, 1), _ => (false, RK::None, 0) }
}

fn fp_simd(w: u32) -> Insn {
    let rd = bits!(w, 4, 0);
    let rn = bits!(w, 9, 5);
    let rm = bits!(w, 20, 16);
    let b31 = bit!(w, 31);
    // scalar FP: M 0 S 11110 ftype 1 ...
    if bits!(w, 28, 24) == 0b11110 && bit!(w, 30) == 0 && bit!(w, 21) == 1 {
        let ftype = bits!(w, 23, 22);
        let (fok, fk, fs) = fp_kind(ftype);
        if bit!(w, 29) != 0 {
            return INVALID; // S
        }
        if bits!(w, 15, 10) == 0 {
            // Conversion between FP and integer: sf 0 S 11110 ftype 1 rmode opcode 000000 Rn Rd
            let sf = b31;
            let rmode = bits!(w, 20, 19);
            let opcode = bits!(w, 18, 16);
            let g = gx(sf);
            if opcode >= 6 {
                // FMOV (general): only same-width moves (and half precision); rmode = 00
                // (the FMOV Vd.D[1] variant, rmode = 01, is not offered)
                let okw = (sf == 0 && ftype == 0) || (sf == 1 && ftype == 1) || ftype == 3;
                if rmode != 0 || !okw {
                    return INVALID;
                }
                let r = if opcode == 6 { pk(rd, g) | pk(rn, fk) << RN } else { pk(rd, fk) | pk(rn, g) << RN };
                return Insn { a: mk(Op::FMOV, Form::FpInt, fs), r, imm: 0 };
            }
            let (o, to_int) = match (rmode << 3) | opcode {
                0 => (Op::FCVTNS, true), 1 => (Op::FCVTNU, true),
                2 => (Op::SCVTF, false), 3 => (Op::UCVTF, false),
                4 => (Op::FCVTAS, true), 5 => (Op::FCVTAU, true),
                8 => (Op::FCVTPS, true), 9 => (Op::FCVTPU, true),
                16 => (Op::FCVTMS, true), 17 => (Op::FCVTMU, true),
                24 => (Op::FCVTZS, true), 25 => (Op::FCVTZU, true),
                _ => (Op::INVALID, false),
            };
            if !fok || o == Op::INVALID {
                return INVALID;
            }
            let r = if to_int { pk(rd, g) | pk(rn, fk) << RN } else { pk(rd, fk) | pk(rn, g) << RN };
            return Insn { a: mk(o, Form::FpInt, fs), r, imm: 0 };
        }
        if b31 != 0 || !fok {
            return INVALID; // M must be 0 for everything below
        }
        if bits!(w, 14, 10) == 0b10000 {
            // FP data-processing (1 source): M 0 S 11110 ftype 1 opcode 10000 Rn Rd
            let opcode = bits!(w, 20, 15);
            let opc = opcode & 3;
            let (dok, dk0, _) = fp_kind(opc);
            let is_cvt = opcode & 0b111100 == 0b000100;
            let o = match opcode {
                0b000000 => Op::FMOV, 0b000001 => Op::FABS, 0b000010 => Op::FNEG, 0b000011 => Op::FSQRT,
                0b000100 | 0b000101 | 0b000111 => if dok && opc != ftype { Op::FCVT } else { Op::INVALID },
                0b001000 => Op::FRINTN, 0b001001 => Op::FRINTP, 0b001010 => Op::FRINTM,
                0b001011 => Op::FRINTZ, 0b001100 => Op::FRINTA, 0b001110 => Op::FRINTX, 0b001111 => Op::FRINTI,
                _ => Op::INVALID,
            };
            if o == Op::INVALID {
                return INVALID;
            }
            let dk = if is_cvt { dk0 } else { fk };
            return Insn { a: mk(o, Form::FpDP1, fs), r: pk(rd, dk) | pk(rn, fk) << RN, imm: 0 };
        }
        if bits!(w, 13, 10) == 0b1000 {
            // FP compare: M 0 S 11110 ftype 1 Rm op 1000 Rn opcode2
            let opcode2 = rd;
            if bits!(w, 15, 14) != 0 || opcode2 & 0b00111 != 0 {
                return INVALID;
            }
            let o = if opcode2 & 0b10000 == 0 { Op::FCMP } else { Op::FCMPE };
            if opcode2 & 0b01000 == 0 {
                return Insn { a: mk(o, Form::FpCmp, fs), r: pk(rn, fk) << RN | pk(rm, fk) << RM, imm: 0 };
            }
            // compare with zero: Rm is "(0)(0)(0)(0)(0)" should-be-zero, kept in imm2
            return Insn { a: mk(o, Form::FpCmpZero, fs) | (rm as u64) << IMM2, r: pk(rn, fk) << RN, imm: 0 };
        }
        if bits!(w, 11, 10) == 0b10 {
            // FP data-processing (2 source): M 0 S 11110 ftype 1 Rm opcode 10 Rn Rd
            let o = match bits!(w, 15, 12) {
                0 => Op::FMUL, 1 => Op::FDIV, 2 => Op::FADD, 3 => Op::FSUB,
                4 => Op::FMAX, 5 => Op::FMIN, 6 => Op::FMAXNM, 7 => Op::FMINNM, 8 => Op::FNMUL,
                _ => Op::INVALID,
            };
            if o == Op::INVALID {
                return INVALID;
            }
            return Insn { a: mk(o, Form::FpDP2, fs), r: pk(rd, fk) | pk(rn, fk) << RN | pk(rm, fk) << RM, imm: 0 };
        }
        return INVALID;
    }
    // Advanced SIMD: 0 Q U 01110 size ...
    if b31 == 0 && bits!(w, 28, 24) == 0b01110 && bits!(w, 11, 10) == 0b10 && bit!(w, 29) == 0 {
        let q = bit!(w, 30);
        let size = bits!(w, 23, 22);
        let opcode = bits!(w, 16, 12);
        let grp = bits!(w, 21, 17);
        if grp == 0b11000 && opcode == 0b11011 {
            // across lanes, ADDV: 0 Q 0 01110 size 11000 11011 10 Rn Rd
            let (vk, sk) = match (size << 1) | q {
                0 => (RK::V8B, RK::B), 1 => (RK::V16B, RK::B),
                2 => (RK::V4H, RK::H), 3 => (RK::V8H, RK::H),
                5 => (RK::V4S, RK::S),
                _ => (RK::None, RK::None),
            };
            if vk == RK::None {
                return INVALID;
            }
            return Insn { a: mk(Op::ADDV, Form::SimdAcross, size), r: pk(rd, sk) | pk(rn, vk) << RN, imm: 0 };
        }
        if grp == 0b10000 && opcode == 0b00101 {
            // two-register miscellaneous, CNT: 0 Q 0 01110 size(=00) 10000 00101 10 Rn Rd
            if size != 0 {
                return INVALID;
            }
            let vk = if q == 0 { RK::V8B } else { RK::V16B };
            return Insn { a: mk(Op::CNT, Form::Simd2Misc, 0), r: pk(rd, vk) | pk(rn, vk) << RN, imm: 0 };
        }
    }
    INVALID
}
