#!/usr/bin/env python3
"""C07 harness generator.

On every run: parse the `pub fn name(&mut self, ...)` signatures (and the Condition /
ScaleFactor enums and the Address constructors) out of the *current working tree* of
dora-asm/src/x64.rs, join them with /verif/spec/x64.toml and write the Kani harness crate
(copy of the template engines/kani_asm/x64 + generated src/harnesses.rs + copy of
/repo/Cargo.lock + harnesses.json) into /verif/.work/kani_x64 (or `out_dir`).

  VERIF_ASM_SRC   directory of the dora-asm crate to check (default /repo/dora-asm)

A method without spec entry is listed as `unspecified` (never a violation); a spec entry
whose method vanished is skipped.
"""
import json
import os
import re
import shutil
import sys

try:
    import tomllib
except ImportError:  # pragma: no cover
    import tomli as tomllib

HERE = os.path.dirname(os.path.abspath(__file__))
VERIF = os.path.dirname(os.path.dirname(HERE))
TEMPLATE = os.path.join(HERE, "x64")
SPEC = os.path.join(VERIF, "spec", "x64.toml")
REPO = os.environ.get("VERIF_REPO", "/repo")

# label units: distance between instruction and label = base (filler emitted at concrete
# positions) + a symbolic 0..=EXTRA_PAD nops; the bases tile 0..=143 completely in the thorough
# tier; quick keeps every method but only the tiles around 0 and the rel8/rel32 switch.
EXTRA_PAD = 7
BRANCH_BASES_THOROUGH = list(range(0, 137, 8))
BRANCH_BASES_QUICK = [0, 120, 128]
RL_BASES_THOROUGH = [0, 128]   # RIP-relative label loads have no short/near switch
# rel8-only branches: nothing happens between the small distances and the rel8 limit
NEAR_BASES_THOROUGH = [0, 8, 112, 120, 128]
# memory methods that get every Address constructor and both H_any shapes in the thorough tier
# (one per emission-helper family); the others get offset/array/index/rip + any_array
FULL_ADDRESS_METHODS = ["movq_ra", "movq_ar", "movl_ra", "movb_ar", "cmpl_ai", "cmpq_ai", "movss_ra", "vmovsd_ra", "vandpd_ra", "lea"]
RL_BASES_QUICK = [0]
UNWIND = int(os.environ.get("C07_UNWIND", "6"))


def asm_src():
    return os.environ.get("VERIF_ASM_SRC", os.path.join(REPO, "dora-asm"))


# ------------------------------------------------------------------------------------------
# parsing x64.rs

def strip_tests(src):
    i = src.find("#[cfg(test)]")
    return src if i < 0 else src[:i]


def parse_params(s):
    out = []
    if not s:
        return out
    for p in s.split(","):
        p = p.strip()
        if not p:
            continue
        if ":" not in p:
            out.append((p, "?"))
            continue
        n, t = p.split(":", 1)
        out.append((n.strip(), t.strip()))
    return out


def parse_source(path):
    src = strip_tests(open(path).read())
    methods = {}
    order = []
    for m in re.finditer(r"pub fn (\w+)\s*\(\s*&mut self\s*(?:,\s*([^)]*))?\)\s*(->\s*[^{]+)?\{", src):
        methods[m.group(1)] = {"params": parse_params(m.group(2)), "ret": (m.group(3) or "").strip()}
        order.append(m.group(1))
    # &self / self methods are infrastructure by construction (offset, position, finalize)
    other = [m.group(1) for m in re.finditer(r"pub fn (\w+)\s*\(\s*(?:&self|mut self|self)\b", src)]

    def enum_variants(name):
        m = re.search(r"pub enum %s\s*\{([^}]*)\}" % name, src)
        if not m:
            return []
        return [v.strip() for v in m.group(1).split(",") if v.strip()]

    ctors = {}
    m = re.search(r"impl Address\s*\{", src)
    if m:
        # up to the next top-level "impl " / const block; constructors are `pub fn x(..) -> Address`
        rest = src[m.end():]
        for c in re.finditer(r"pub fn (\w+)\s*\(([^)]*)\)\s*->\s*Address", rest):
            ctors[c.group(1)] = parse_params(c.group(2))
    return {"methods": methods, "order": order, "other_pub": other, "cond": enum_variants("Condition"),
            "scale": enum_variants("ScaleFactor"), "ctors": ctors}


# ------------------------------------------------------------------------------------------
# joining with the spec

SHAPE_TYPES = {"r8": "Register", "r16": "Register", "r32": "Register", "r64": "Register", "x": "XmmRegister"}
IMM_RULES = ("s32", "s32|u32", "s8|u8", "s64", "count8", "u8")


class Drift(Exception):
    pass


def join_method(name, sig, sp):
    """-> dict(params=[(name, type, role)], ...) or raises Drift(reason)"""
    pnames = [p[0] for p in sig["params"]]
    ptypes = dict(sig["params"])
    used = set()
    ops = []
    for o in sp.get("ops", []):
        if o == "cl":
            ops.append(("cl", None))
            continue
        if ":" not in o:
            raise Drift("bad operand '%s' in spec" % o)
        shape, pn = o.split(":", 1)
        if pn not in ptypes:
            raise Drift("spec names parameter '%s' which the signature does not have" % pn)
        t = ptypes[pn]
        if shape in SHAPE_TYPES:
            if t != SHAPE_TYPES[shape]:
                raise Drift("parameter %s: %s, spec shape %s" % (pn, t, shape))
        elif re.fullmatch(r"m\d+", shape):
            if t not in ("Address", "Label"):
                raise Drift("parameter %s: %s, spec shape %s" % (pn, t, shape))
        elif shape == "imm":
            rule = sp.get("imm")
            if rule not in IMM_RULES:
                raise Drift("immediate rule '%s' unknown" % rule)
            if rule == "u8":
                if t != "u8":
                    raise Drift("parameter %s: %s, spec says u8 immediate" % (pn, t))
            elif t != "Immediate":
                raise Drift("parameter %s: %s, spec says Immediate" % (pn, t))
        elif shape == "rel":
            if t not in ("Label", "i32"):
                raise Drift("parameter %s: %s, spec shape rel" % (pn, t))
        else:
            raise Drift("unknown shape '%s'" % shape)
        used.add(pn)
        ops.append((shape, pn))
    cc = sp.get("cc")
    if cc:
        if ptypes.get(cc) != "Condition":
            raise Drift("cc parameter '%s' is not a Condition" % cc)
        used.add(cc)
    if set(pnames) != used:
        raise Drift("parameters %s not given a role by the spec" % sorted(set(pnames) - used))
    for t in ptypes.values():
        if t not in ("Register", "XmmRegister", "Address", "Label", "Immediate", "Condition", "u8", "i32"):
            raise Drift("parameter type %s not supported" % t)
    return ops


# ------------------------------------------------------------------------------------------
# Rust emission

def cls(shape):
    return {"r8": "C8", "r16": "C16", "r32": "C32", "r64": "C64", "x": "CX"}[shape]


def size_const(n):
    return {0: "0", 8: "C8", 16: "C16", 32: "C32", 64: "C64", 128: "CX"}[n]


class Gen:
    def __init__(self, parsed, spec, tier):
        self.p = parsed
        self.spec = spec
        self.tier = tier
        self.out = []
        self.unspecified = []
        self.skipped_spec = []
        self.conds = [(v, spec.get("cond", {})[v]) for v in parsed["cond"] if v in spec.get("cond", {})]
        self.cond_unspecified = [v for v in parsed["cond"] if v not in spec.get("cond", {})]
        self.scales = [(v, spec.get("scale", {})[v]) for v in parsed["scale"] if v in spec.get("scale", {})]
        self.ctors = {}
        for cname, cparams in parsed["ctors"].items():
            a = spec.get("address", {}).get(cname)
            if not a:
                continue
            roles = {}
            ok = True
            for pr in a.get("params", []):
                pn, role = pr.split(":")
                roles[pn] = role
            plist = []
            for pn, pt in cparams:
                role = roles.get(pn)
                want = {"base": "Register", "index": "Register", "scale": "ScaleFactor", "disp": "i32"}.get(role)
                if want != pt:
                    ok = False
                plist.append((pn, pt, role))
            if ok and len(plist) == len(roles):
                self.ctors[cname] = {"params": plist, "rip": bool(a.get("rip"))}

    def w(self, s=""):
        self.out.append(s)

    # -- operand draws -----------------------------------------------------------------
    def draw_reg(self, var):
        return ["let %s = s.u8();" % var, "if !s.assume(%s < 16) { return None; }" % var], [(var, "u8")]

    def draw_cond(self, var):
        n = len(self.conds)
        lines = ["let %s_i = s.u8();" % var, "if !s.assume(%s_i < %d) { return None; }" % (var, n)]
        lines.append("let (%s, %s_cc): (Condition, u8) = match %s_i {" % (var, var, var))
        for k, (v, enc) in enumerate(self.conds[:-1]):
            lines.append("    %d => (Condition::%s, %d)," % (k, v, enc))
        v, enc = self.conds[-1]
        lines.append("    _ => (Condition::%s, %d)," % (v, enc))
        lines.append("};")
        return lines, [(var + "_i", "u8")]

    def draw_address(self, var, ctor, assume_legal):
        """-> lines, draws, call expression, Mem expression"""
        c = self.ctors[ctor]
        lines, draws, args = [], [], []
        base, index, scale, disp = "NOREG", "NOREG", "1", "0"
        for pn, pt, role in c["params"]:
            v = "%s_%s" % (var, pn)
            if role in ("base", "index"):
                l, d = self.draw_reg(v)
                lines += l
                draws += d
                args.append("Register::new(%s)" % v)
                if role == "base":
                    base = v
                else:
                    index = v
                    # SDM 2.1.5: SIB.index = 100b (no REX.X) encodes "no index": RSP cannot be one
                    if assume_legal:
                        lines.append("if !s.assume(%s != 4) { return None; }" % v)
                    else:
                        lines.append("legal = legal && %s != 4;" % v)
            elif role == "scale":
                n = len(self.scales)
                lines.append("let %s_i = s.u8();" % v)
                lines.append("if !s.assume(%s_i < %d) { return None; }" % (v, n))
                lines.append("let (%s, %s_v): (ScaleFactor, u8) = match %s_i {" % (v, v, v))
                for k, (sv, val) in enumerate(self.scales[:-1]):
                    lines.append("    %d => (ScaleFactor::%s, %d)," % (k, sv, val))
                sv, val = self.scales[-1]
                lines.append("    _ => (ScaleFactor::%s, %d)," % (sv, val))
                lines.append("};")
                draws.append((v + "_i", "u8"))
                args.append(v)
                scale = v + "_v"
            elif role == "disp":
                lines.append("let %s = s.i32();" % v)
                draws.append((v, "i32"))
                args.append(v)
                disp = v
        call = "Address::%s(%s)" % (ctor, ", ".join(args))
        mem = "Mem { base: %s, index: %s, scale: %s, disp: %s, rip: %s }" % (
            base, index, scale if index != "NOREG" else "1", disp, "true" if c["rip"] else "false")
        return lines, draws, call, mem

    @staticmethod
    def imm_rule(rule, v):
        """-> (legal expr, normalised value expr)"""
        if rule == "s32":
            return "(%s >= -(1i64 << 31) && %s < (1i64 << 31))" % (v, v), "(%s as i32) as i64" % v
        if rule == "s32|u32":
            return "(%s >= -(1i64 << 31) && %s < (1i64 << 32))" % (v, v), "(%s as i32) as i64" % v
        if rule == "s8|u8":
            return "(%s >= -128 && %s < 256)" % (v, v), "(%s as i8) as i64" % v
        if rule == "s64":
            return "true", v
        if rule == "count8":
            return "(%s >= -128 && %s < 256)" % (v, v), "(%s as u8) as i64" % v
        if rule == "u8":
            return "true", "%s as i64" % v
        raise KeyError(rule)

    # -- expected instruction ----------------------------------------------------------
    def expected(self, var, sp, ops, size, memexpr, label_mode, imm_norm_size=None):
        L = ["let mut %s = Insn::blank();" % var,
             "%s.mn = %s;" % (var, "MN_" + sp["mn"].upper()),
             "%s.opsize = %s;" % (var, size_const(size))]
        if sp.get("cc"):
            L.append("%s.cc = %s_cc;" % (var, sp["cc"]))
        if sp.get("lock"):
            L.append("%s.lock = true;" % var)
        if sp.get("vex"):
            L.append("%s.vex = true;" % var)
        for k, (shape, pn) in enumerate(ops):
            slot = "%s.o%d" % (var, k + 1)
            if shape == "cl":
                L.append("%s = Opnd::reg(C8, 1);" % slot)
                L.append("%s.by_cl = true;" % var)
            elif shape in SHAPE_TYPES:
                L.append("%s = Opnd::reg(%s, %s);" % (slot, cls(shape), pn))
            elif shape.startswith("m"):
                L.append("%s = Opnd::mem(%s);" % (slot, size_const(int(shape[1:]))))
                L.append("%s.mem = %s;" % (var, memexpr))
            elif shape == "imm":
                rule = sp["imm"]
                if imm_norm_size == 8:
                    norm = "(%s as i8) as i64" % pn
                else:
                    norm = self.imm_rule(rule, pn)[1]
                L.append("%s = Opnd::imm();" % slot)
                L.append("%s.imm = %s;" % (var, norm))
            elif shape == "rel":
                L.append("%s = Opnd::rel();" % slot)
                if not label_mode:
                    L.append("%s.rel = %s as i64;" % (var, pn))
        return L

    # -- one unit --------------------------------------------------------------------------
    def emit_unit(self, variant, method, kind, sig, sp, ops, ctor=None, label_dir=None, pad=0, base=0):
        """kind: legal | any | label.  A unit draws the operands, calls the method on the given
        assembler and returns the expectation."""
        uname = "u_%s__%s" % (method, variant)
        assume_legal = kind == "legal"
        draws = []
        B = ["pub fn %s<S: Src>(s: &mut S, a: &mut AssemblerX64) -> Option<Exp> {" % uname,
             "    let mut legal = true;"]
        body = []
        args = []
        memexpr = "Mem::NONE"
        label_param = None
        imm_param = None
        for pn, pt in sig["params"]:
            if pt in ("Register", "XmmRegister"):
                l, d = self.draw_reg(pn)
                body += l
                draws += d
                args.append("%s::new(%s)" % (pt, pn))
            elif pt == "Condition":
                l, d = self.draw_cond(pn)
                body += l
                draws += d
                args.append(pn)
            elif pt == "Immediate":
                body.append("let %s = s.i64();" % pn)
                draws.append((pn, "i64"))
                leg, _ = self.imm_rule(sp["imm"], pn)
                if assume_legal:
                    body.append("if !s.assume(%s) { return None; }" % leg)
                else:
                    body.append("legal = legal && %s;" % leg)
                args.append("Immediate(%s)" % pn)
                imm_param = pn
            elif pt == "u8":
                body.append("let %s = s.u8();" % pn)
                draws.append((pn, "u8"))
                args.append(pn)
            elif pt == "i32":
                body.append("let %s = s.i32();" % pn)
                draws.append((pn, "i32"))
                args.append(pn)
            elif pt == "Address":
                l, d, call, memexpr = self.draw_address(pn, ctor, assume_legal)
                body += l
                draws += d
                args.append(call)
            elif pt == "Label":
                label_param = pn
                args.append("lbl")
                memexpr = "Mem { base: NOREG, index: NOREG, scale: 1, disp: 0, rip: true }"
        call = "a.%s(%s);" % (method, ", ".join(args))
        if label_param is None:
            body.append(call)
            body.append("let at = 0usize;")
            body.append("let tail = 0usize;")
            body.append("let target: Option<i64> = None;")
        else:
            # distance = `base` filler bytes emitted at concrete positions + n <= pad symbolic ones
            body.append("let n = s.u8();")
            draws.append(("n", "u8"))
            body.append("if !s.assume(n <= %d) { return None; }" % pad)
            body.append("a.nop();")
            short = sp.get("branch") == "short"
            fill = ["a.emit_u128(FILL);"] * (base // 16) + (["a.emit_u64(FILL as u64);"] if base % 16 == 8 else [])
            if label_dir == "fwd":
                body.append("let lbl = a.create_label();")
                body.append(call)
                body += fill
                body.append("pad(a, n, %d);" % pad)
                body.append("a.bind_label(lbl);")
                body.append("a.nop();")
                body.append("let at = 1usize;")
                body.append("let tail = %d + n as usize + 1;" % base)
                # the label is bound in front of the last byte
                body.append("let target: Option<i64> = Some(-1);")
                if short:
                    body.append("legal = legal && %d + (n as usize) <= 127;" % base)
            else:
                body.append("let lbl = a.create_and_bind_label();")
                body += fill
                body.append("pad(a, n, %d);" % pad)
                body.append(call)
                body.append("a.nop();")
                body.append("let at = 1usize + %d + n as usize;" % base)
                body.append("let tail = 1usize;")
                body.append("let target: Option<i64> = Some(1);")
                if short:
                    # rel8 = -(distance + 2) must be >= -128
                    body.append("legal = legal && %d + (n as usize) <= 126;" % base)
        body += self.expected("e", sp, ops, sp["size"], memexpr, label_param is not None)
        altlines = ["let alt: Option<Insn> = None;"]
        if sp.get("commutative") and len(ops) == 2:
            altlines = ["let mut e2 = e;", "e2.o1 = e.o2;", "e2.o2 = e.o1;", "let alt: Option<Insn> = Some(e2);"]
        elif sp.get("alt") and imm_param:
            a0 = sp["alt"][0]
            aops = []
            for o in a0["ops"]:
                sh, pn = o.split(":")
                aops.append((sh, pn))
            altlines = self.expected("e2", dict(sp), aops, a0["size"], memexpr, False, imm_norm_size=a0["size"])
            altlines.append("let alt: Option<Insn> = if %s >= %d && %s <= %d { Some(e2) } else { None };" % (
                imm_param, a0["when_imm_min"], imm_param, a0["when_imm_max"]))
        body += altlines
        body.append("Some(Exp { at, tail, exp: e, alt, legal, target })")
        B += ["    " + l for l in body]
        B.append("}")
        B.append("")
        self.out += B
        avx = sp.get("avx")
        avx_class = "any" if avx is None else ("true" if avx else "false")
        if label_param is not None:
            cat = "branch" if "branch" in sp else "rl"
        elif ctor:
            cat = "mem"
        else:
            cat = "plain"
        self.units.append({"name": uname, "method": method, "kind": kind, "variant": variant, "ctor": ctor,
                           "label_dir": label_dir, "pad": pad if label_param else None, "base": base if label_param else None,
                           # rel8-only branch over a distance no rel8 can span: every operand tuple must be
                           # refused, so an unsatisfiable witness is the expected outcome
                           "refusal_only": bool(label_param and sp.get("branch") == "short" and base >= 128),
                           "avx": avx_class, "cat": cat,
                           "draws": [{"name": n, "type": t} for n, t in draws]})

    # -- groups ------------------------------------------------------------------------------
    def make_groups(self):
        limits = {"plain": int(os.environ.get("C07_GROUP_PLAIN", "16")), "mem": int(os.environ.get("C07_GROUP_MEM", "8")),
                  "branch": int(os.environ.get("C07_GROUP_BRANCH", "4")), "rl": int(os.environ.get("C07_GROUP_RL", "6"))}
        only = [x for x in os.environ.get("C07_ONLY_UNITS", "").split(",") if x]
        if only:
            limits = {k: 1 for k in limits}
        buckets = {}
        order = []
        for u in self.units:
            if only and u["name"] not in only:
                continue
            key = (u["cat"], u["kind"], u["ctor"] or "", (u["label_dir"] or "") + ("_b%d" % u["base"] if u["label_dir"] else ""), u["avx"])
            if key not in buckets:
                buckets[key] = []
                order.append(key)
            buckets[key].append(u)
        for key in order:
            us = buckets[key]
            lim = limits[key[0]]
            nchunks = (len(us) + lim - 1) // lim
            per = (len(us) + nchunks - 1) // nchunks
            for c in range(nchunks):
                chunk = us[c * per:(c + 1) * per]
                if not chunk:
                    continue
                gname = "_".join(x for x in (key[0], key[1], key[2], key[3], "avx" + key[4], str(c)) if x)
                self.emit_group(gname, chunk, key)

    def emit_group(self, gname, units, key):
        cat, kind, ctor, label_dir, avx = key
        k = len(units)
        need = max([(u["base"] or 0) + (u["pad"] or 0) for u in units]) + 24
        cap = [c for c in (32, 64, 96, 128, 176) if c >= need][0]
        unwind = UNWIND
        W = self.w
        W("pub fn g_%s<S: Src>(s: &mut S) -> Option<(u8, Outcome)> {" % gname)
        W("    let sel = s.u8();")
        W("    if !s.assume(sel < %d) { return None; }" % k)
        if avx == "any":
            W("    let avx_i = s.u8();")
            W("    if !s.assume(avx_i < 2) { return None; }")
            W("    let avx = avx_i == 1;")
        else:
            W("    let avx = %s;" % avx)
        W("    let mut a = AssemblerX64::new(avx);")
        W("    let e = match sel {")
        for n, u in enumerate(units[:-1]):
            W("        %d => %s(s, &mut a)," % (n, u["name"]))
        W("        _ => %s(s, &mut a)," % units[-1]["name"])
        W("    };")
        W("    let e = match e { Some(e) => e, None => return None };")
        W("    let code = a.finalize(1).code();")
        W("    Some((sel, Outcome { code, e }))")
        W("}")
        W("#[cfg(kani)]")
        W("#[kani::proof]")
        W("#[kani::unwind(%d)]" % unwind)
        W("#[kani::stub(std::vec::Vec::new, crate::vecmodel::new_%d)]" % cap)
        W("#[kani::stub(std::vec::Vec::push, crate::vecmodel::push)]")
        W("#[kani::stub(std::vec::Vec::extend_from_slice, crate::vecmodel::extend_from_slice)]")
        W("#[kani::stub(<[u8]>::copy_from_slice, crate::vecmodel::copy_from_slice)]")
        W("fn h_%s() {" % gname)
        W("    let mut s = KaniSrc;")
        W("    if let Some((sel, o)) = g_%s(&mut s) {" % gname)
        W("        let ok = all_ok(&o);")
        for n, u in enumerate(units):
            # per unit: a solver-side vacuity witness (some operand tuple is accepted and decodes as
            # specified) and the proof obligation itself
            W('        kani::cover!(sel == %d && ok, "C07:witness:%s");' % (n, u["name"]))
            W('        assert!(sel != %d || ok, "C07:m:%s");' % (n, u["name"]))
        W("    }")
        W("}")
        W("")
        self.groups.append({"name": gname, "harness": "h_" + gname, "units": [u["name"] for u in units], "unwind": unwind,
                            "avx": avx, "cat": cat, "kind": kind, "vec_capacity": cap})

    # -- everything --------------------------------------------------------------------------
    def run(self):
        spec_methods = self.spec.get("methods", {})
        infra = set(self.spec.get("infrastructure", {}).get("methods", []))
        thorough = self.tier == "thorough"
        self.units = []
        self.groups = []
        self.w("// GENERATED by /verif/engines/kani_asm/gen_x64.py -- do not edit")
        self.w("use crate::decoder::*;")
        self.w("use crate::{Exp, ListSrc, Outcome, Src};")
        self.w("#[cfg(kani)]")
        self.w("use crate::{all_ok, KaniSrc};")
        self.w("use dora_asm::x64::*;")
        self.w("")
        self.w("const FILL: u128 = 0x90909090_90909090_90909090_90909090u128;")
        self.w("/// filler of n <= %d bytes, without a loop (keeps the unwind bound of the harnesses small)" % EXTRA_PAD)
        self.w("fn pad(a: &mut AssemblerX64, n: u8, _max: u8) {")
        for k in range(EXTRA_PAD):
            self.w("    if %d < n { a.nop(); }" % k)
        self.w("}")
        self.w("")
        self.w("fn run_unit(s: &mut ListSrc, avx_class: u8, f: fn(&mut ListSrc, &mut AssemblerX64) -> Option<Exp>) -> Option<Outcome> {")
        self.w("    let avx = match avx_class {")
        self.w("        0 => false,")
        self.w("        1 => true,")
        self.w("        _ => { let v = s.u8(); if v >= 2 { return None; } v == 1 }")
        self.w("    };")
        self.w("    let mut a = AssemblerX64::new(avx);")
        self.w("    let e = f(s, &mut a)?;")
        self.w("    let code = a.finalize(1).code();")
        self.w("    Some(Outcome { code, e })")
        self.w("}")
        self.w("")
        encoded = []
        # development / mutation-testing aid: restrict the run to some methods (evidence says so)
        only_methods = [x for x in os.environ.get("C07_ONLY_METHODS", "").split(",") if x]
        self.restricted_to = only_methods
        for name in self.p["order"]:
            sig = self.p["methods"][name]
            if name in infra:
                continue
            if only_methods and name not in only_methods:
                continue
            sp = spec_methods.get(name)
            if sp is None:
                self.unspecified.append({"method": name, "reason": "no entry in spec/x64.toml"})
                continue
            try:
                if "MN_" + sp["mn"].upper() not in self.known_mn:
                    raise Drift("mnemonic '%s' unknown to the reference decoder" % sp["mn"])
                ops = join_method(name, sig, sp)
                ptypes = [t for _, t in sig["params"]]
                if "Condition" in ptypes and not self.conds:
                    raise Drift("no specified Condition variants")
                has_addr = "Address" in ptypes
                has_label = "Label" in ptypes
                has_imm = "Immediate" in ptypes
                if ptypes.count("Address") + ptypes.count("Label") > 1:
                    raise Drift("more than one memory/label operand")
                if has_addr and not ({"offset", "array"} <= set(self.ctors)):
                    raise Drift("Address::offset / Address::array not available as specified")
            except Drift as e:
                self.unspecified.append({"method": name, "reason": str(e)})
                continue
            encoded.append(name)
            if has_label:
                is_branch = "branch" in sp
                if is_branch:
                    bases = BRANCH_BASES_THOROUGH if thorough else BRANCH_BASES_QUICK
                    if thorough and sp.get("branch") == "short":
                        bases = NEAR_BASES_THOROUGH
                else:
                    bases = RL_BASES_THOROUGH if thorough else RL_BASES_QUICK
                for b in bases:
                    self.emit_unit("label_fwd_b%d" % b, name, "label", sig, sp, ops, label_dir="fwd", pad=EXTRA_PAD, base=b)
                    self.emit_unit("label_bwd_b%d" % b, name, "label", sig, sp, ops, label_dir="bwd", pad=EXTRA_PAD, base=b)
            elif has_addr:
                for c in ("offset", "array"):
                    self.emit_unit("legal_" + c, name, "legal", sig, sp, ops, ctor=c)
                if thorough:
                    full = name in FULL_ADDRESS_METHODS
                    for c in (("reg", "index", "rip") if full else ("index", "rip")):
                        if c in self.ctors:
                            self.emit_unit("legal_" + c, name, "legal", sig, sp, ops, ctor=c)
                    for c in (("array", "index") if full else ("array",)):
                        if c in self.ctors:
                            self.emit_unit("any_" + c, name, "any", sig, sp, ops, ctor=c)
            else:
                self.emit_unit("legal", name, "legal", sig, sp, ops)
                if thorough and has_imm:
                    self.emit_unit("any", name, "any", sig, sp, ops)
        for name in spec_methods:
            if name not in self.p["methods"]:
                self.skipped_spec.append(name)
        self.make_groups()
        # native dispatch
        self.w("pub fn run_native(name: &str, s: &mut ListSrc) -> Option<Option<Outcome>> {")
        self.w("    match name {")
        for u in self.units:
            ac = {"false": 0, "true": 1, "any": 2}[u["avx"]]
            self.w('        "%s" => Some(run_unit(s, %d, %s::<ListSrc>)),' % (u["name"], ac, u["name"]))
        self.w("        _ => None,")
        self.w("    }")
        self.w("}")
        return encoded


def known_mnemonics():
    s = open(os.path.join(TEMPLATE, "src", "decoder.rs")).read()
    return set(re.findall(r"^\s*(MN_\w+) = \d+,", s, re.M))


def generate(tier, out_dir=None):
    out_dir = out_dir or os.path.join(VERIF, ".work", "kani_x64")
    src_dir = asm_src()
    x64 = os.path.join(src_dir, "src", "x64.rs")
    parsed = parse_source(x64)
    spec = tomllib.load(open(SPEC, "rb"))
    g = Gen(parsed, spec, tier)
    g.known_mn = known_mnemonics()
    encoded = g.run()
    os.makedirs(os.path.join(out_dir, "src"), exist_ok=True)
    for f in ("decoder.rs", "lib.rs", "main.rs"):
        _write_if_changed(os.path.join(out_dir, "src", f), open(os.path.join(TEMPLATE, "src", f)).read())
    cargo = open(os.path.join(TEMPLATE, "Cargo.toml")).read()
    cargo = cargo.replace('path = "/repo/dora-asm"', 'path = "%s"' % src_dir)
    _write_if_changed(os.path.join(out_dir, "Cargo.toml"), cargo)
    lock = os.path.join(REPO, "Cargo.lock")
    if os.path.exists(lock) and not os.path.exists(os.path.join(out_dir, "Cargo.lock")):
        shutil.copy(lock, os.path.join(out_dir, "Cargo.lock"))
    _write_if_changed(os.path.join(out_dir, "src", "harnesses.rs"), "\n".join(g.out) + "\n")
    manifest = {
        "tier": tier, "asm_src": src_dir, "crate": out_dir, "groups": g.groups, "units": g.units, "functions_encoded": encoded,
        "unspecified": g.unspecified, "spec_entries_without_method": g.skipped_spec, "restricted_to": g.restricted_to,
        "condition_variants": [v for v, _ in g.conds], "condition_variants_unspecified": g.cond_unspecified,
        "address_constructors": sorted(g.ctors), "address_constructors_unspecified": sorted(set(parsed["ctors"]) - set(g.ctors)),
        "bounds": {"unwind": UNWIND, 
                   "branch_distances": "base + 0..=%d for base in %s" % (EXTRA_PAD, BRANCH_BASES_THOROUGH if tier == "thorough" else BRANCH_BASES_QUICK),
                   "branch_pad_max": (BRANCH_BASES_THOROUGH if tier == "thorough" else BRANCH_BASES_QUICK)[-1] + EXTRA_PAD,
                   "rl_distances": "base + 0..=%d for base in %s" % (EXTRA_PAD, RL_BASES_THOROUGH if tier == "thorough" else RL_BASES_QUICK),
                   "near_branch_bases": NEAR_BASES_THOROUGH if tier == "thorough" else BRANCH_BASES_QUICK,
                   "full_address_methods": FULL_ADDRESS_METHODS if tier == "thorough" else [],
                   "vec_model_capacity": "32; 64/96/128/176 for label units with longer filler"},
    }
    with open(os.path.join(out_dir, "harnesses.json"), "w") as f:
        json.dump(manifest, f, indent=1)
    return manifest


def _write_if_changed(path, content):
    if os.path.exists(path) and open(path).read() == content:
        return
    with open(path, "w") as f:
        f.write(content)


if __name__ == "__main__":
    tier = sys.argv[1] if len(sys.argv) > 1 else "quick"
    m = generate(tier, sys.argv[2] if len(sys.argv) > 2 else None)
    print("%d group harnesses, %d units, %d methods, %d unspecified -> %s" % (
        len(m["groups"]), len(m["units"]), len(m["functions_encoded"]), len(m["unspecified"]), m["crate"]))
    for u in m["unspecified"]:
        print("  unspecified:", u)
