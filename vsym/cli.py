"""./check <id> [--tier quick|thorough] [--replay path]  — dispatch to vsym/checks/<id>.py

exit 0: property held on everything explored (evidence says what that was)
exit 1: reproduced violation not listed in known_findings.json (VIOLATION line printed)
exit 2: inconclusive (unencodable construct, solver disagreement, non reproducing model)"""
import argparse
import importlib
import os
import sys
import time
import traceback

from . import common


def main():
    ap = argparse.ArgumentParser()
    ap.add_argument("pid")
    ap.add_argument("--tier", default=os.environ.get("VERIF_TIER", "quick"), choices=["quick", "thorough"])
    ap.add_argument("--replay", default=None)
    a = ap.parse_args()
    try:
        mod = importlib.import_module("vsym.checks." + a.pid.lower())
    except ModuleNotFoundError as e:
        print("no check for", a.pid, e, file=sys.stderr)
        sys.exit(2)
    t = time.time()
    try:
        if a.replay:
            rc = mod.replay(a.replay)
        else:
            rc = mod.main(a.tier)
    except common.Inconclusive as e:
        print("INCONCLUSIVE property=%s: %s" % (a.pid, e), file=sys.stderr)
        sys.exit(2)
    except Exception:
        traceback.print_exc()
        print("INCONCLUSIVE property=%s: internal error of the checker" % a.pid, file=sys.stderr)
        sys.exit(2)
    common.log("[%s] done in %.1fs, exit %d" % (a.pid, time.time() - t, rc))
    sys.exit(rc)


if __name__ == "__main__":
    main()
