"""Shared infrastructure of the /verif checks: tiers, evidence, known findings,
violation reporting, builds of /repo artefacts (always from the working tree)."""
import fcntl
import hashlib
import json
import os
import subprocess
import sys
import time

VERIF = os.path.dirname(os.path.dirname(os.path.abspath(__file__)))
REPO = os.environ.get("VERIF_REPO", "/repo")
WORK = os.path.join(VERIF, ".work")
EVID = os.path.join(VERIF, "evidence")
REPLAY = os.path.join(VERIF, "replay")
if os.path.realpath(REPO) != "/repo":
    # a run against a scratch copy of the repository (seeded changes, candidate fixes) keeps ALL its scratch
    # output, its evidence and its replay files apart: /verif/evidence always describes /repo itself
    WORK = os.path.join(VERIF, ".work", "alt-" + hashlib.sha1(os.path.realpath(REPO).encode()).hexdigest()[:10])
    EVID = os.path.join(WORK, "evidence")
    REPLAY = os.path.join(WORK, "replay")
SCHEMA = "/root/.vp/EVIDENCE.schema.json"

ENV = dict(os.environ)
ENV.update({"CARGO_NET_OFFLINE": "true", "GOPROXY": "off", "PIP_NO_INDEX": "1"})


class Inconclusive(Exception):
    """The check could not decide (unencodable construct, solver disagreement,
    non reproducing model).  Exit status 2, never a pass, never a violation."""


def seed():
    try:
        return int(os.environ.get("VERIF_SEED", "0"))
    except ValueError:
        return 0


def log(*a):
    print(*a, file=sys.stderr, flush=True)


def ensure_dirs():
    for d in (WORK, EVID, REPLAY):
        os.makedirs(d, exist_ok=True)


class Lock:
    """Inter-process lock: checks may run in parallel but share build output."""

    def __init__(self, name):
        ensure_dirs()
        self.path = os.path.join(WORK, name + ".lock")

    def __enter__(self):
        self.f = open(self.path, "w")
        fcntl.flock(self.f, fcntl.LOCK_EX)
        return self

    def __exit__(self, *a):
        fcntl.flock(self.f, fcntl.LOCK_UN)
        self.f.close()


def run(cmd, cwd=None, timeout=None, check=True, env=None, stdin=None):
    e = dict(ENV)
    if env:
        e.update(env)
    p = subprocess.run(cmd, cwd=cwd, env=e, stdout=subprocess.PIPE, stderr=subprocess.PIPE,
                       timeout=timeout, text=True, input=stdin)
    if check and p.returncode != 0:
        raise Inconclusive("command failed (%d): %s\n%s" % (p.returncode, " ".join(map(str, cmd)), (p.stderr or "")[-4000:]))
    return p


# ---------------------------------------------------------------------------------------
# builds from the working tree

def build_dora(need_boots=True):
    """cargo build of the driver/runtime (+ boots self-compile); incremental; locked."""
    with Lock("repo-build"):
        t = time.time()
        run(["cargo", "build", "--offline", "-q", "-p", "dora", "-p", "dora-runtime", "-p", "dora-startup"], cwd=REPO,
            timeout=3600)
        dbg = os.path.join(REPO, "target", "debug")
        boots = os.path.join(dbg, "dora-boots-compiler")
        if need_boots:
            newest = 0.0
            for root in ("pkgs/boots", "pkgs/std"):
                for dp, _, fs in os.walk(os.path.join(REPO, root)):
                    for f in fs:
                        newest = max(newest, os.path.getmtime(os.path.join(dp, f)))
            for f in ("dora", "dora-cannon-compiler", "libdora_runtime.a", "libdora_startup.a"):
                p = os.path.join(dbg, f)
                if os.path.exists(p):
                    newest = max(newest, os.path.getmtime(p))
            if not os.path.exists(boots) or os.path.getmtime(boots) < newest:
                run([os.path.join(dbg, "dora"), "compile", "--internal-compile-boots", "--cannon",
                     os.path.join(REPO, "pkgs/boots/boots.dora"), "-o", boots], cwd=REPO, timeout=1800)
        log("[build] dora toolchain ready in %.1fs" % (time.time() - t))
        return dbg


def mir_dump(crate, extra_rustc=()):
    """-Zunpretty=mir dump of a workspace crate's lib target, regenerated every call."""
    ensure_dirs()
    out = os.path.join(WORK, "mir", crate + ".mir")
    os.makedirs(os.path.dirname(out), exist_ok=True)
    tdir = os.path.join(WORK, "mir-target")
    with Lock("mir-" + crate):
        t = time.time()
        # force re-emission: the dump is a by-product of compilation, which cargo would skip
        lib = None
        import glob
        for cand in glob.glob(os.path.join(REPO, crate, "src", "lib.rs")):
            lib = cand
        env = {"CARGO_TARGET_DIR": tdir}
        cmd = ["cargo", "+nightly", "rustc", "--offline", "-q", "-p", crate, "--lib", "--",
               "-Zunpretty=mir", "-C", "debug-assertions=on", "-C", "overflow-checks=on"] + list(extra_rustc)
        # touching the file in /repo would dirty mtimes only (content unchanged, git clean)
        st = os.stat(lib)
        os.utime(lib, None)
        try:
            p = run(cmd, cwd=REPO, env=env, timeout=3600)
        finally:
            os.utime(lib, (st.st_atime, st.st_mtime))
        if len(p.stdout) < 1000:
            raise Inconclusive("empty MIR dump for " + crate + ": " + p.stderr[-2000:])
        with open(out, "w") as f:
            f.write(p.stdout)
        log("[mir] %s: %d lines in %.1fs" % (crate, p.stdout.count("\n"), time.time() - t))
    return out


# ---------------------------------------------------------------------------------------
# known findings / violations

def load_findings():
    p = os.path.join(VERIF, "known_findings.json")
    if not os.path.exists(p):
        return []
    return json.load(open(p)).get("findings", [])


class Reporter:
    """Collects violations; distinguishes listed known findings (status open) from new ones."""

    def __init__(self, pid):
        self.pid = pid
        self.known = [f for f in load_findings() if f.get("property") == pid and f.get("status") == "open"]
        self.new = []
        self.known_hit = []

    def violation(self, key, what, replay):
        """key: stable identification of the failing input/call site (matched against
        known_findings.json 'key' exactly).  replay: JSON-able object to reproduce."""
        for f in self.known:
            if f.get("key") == key:
                if key not in [k for k, _ in self.known_hit]:
                    self.known_hit.append((key, f.get("what", what)))
                    print("KNOWN-FINDING: property=%s %s" % (self.pid, f.get("what", what)), flush=True)
                return False
        if key in [k for k, _, _ in self.new]:
            return True
        ensure_dirs()
        h = hashlib.sha1((self.pid + key).encode()).hexdigest()[:12]
        path = os.path.join(REPLAY, "%s-%s.json" % (self.pid, h))
        with open(path, "w") as f:
            json.dump({"property": self.pid, "key": key, "what": what, "replay": replay}, f, indent=1, default=str)
        print("VIOLATION property=%s replay=%s" % (self.pid, path), flush=True)
        log("  violation key=%s: %s" % (key, what))
        self.new.append((key, what, path))
        return True

    def exit_code(self):
        return 1 if self.new else 0


def write_evidence(pid, tier, level, coverage, assumptions, wall_s, violations=0):
    ensure_dirs()
    ev = {"property_id": pid, "tier": tier, "seed": seed(), "level": level, "coverage": coverage,
          "assumptions": list(assumptions), "wall_s": round(wall_s, 2), "violations": int(violations)}
    try:
        import jsonschema
        jsonschema.validate(ev, json.load(open(SCHEMA)))
    except ImportError:
        pass
    path = os.path.join(EVID, pid + ".json")
    with open(path, "w") as f:
        json.dump(ev, f, indent=1, default=str)
    return path


def build_native():
    """(re)builds /verif/engines/native against the working tree; returns the binary path"""
    import shutil
    src = os.path.join(VERIF, "engines", "native")
    dst = os.path.join(WORK, "native-src")
    with Lock("native-build"):
        os.makedirs(os.path.join(dst, "src"), exist_ok=True)
        toml = open(os.path.join(src, "Cargo.toml")).read().replace("@REPO@", REPO)
        _write_if_changed(os.path.join(dst, "Cargo.toml"), toml)
        for f in os.listdir(os.path.join(src, "src")):
            _write_if_changed(os.path.join(dst, "src", f), open(os.path.join(src, "src", f)).read())
        shutil.copy(os.path.join(REPO, "Cargo.lock"), os.path.join(dst, "Cargo.lock"))
        t = time.time()
        run(["cargo", "build", "--offline", "-q"], cwd=dst, env={"CARGO_TARGET_DIR": os.path.join(WORK, "native-target")},
            timeout=3600)
        log("[native] built in %.1fs" % (time.time() - t))
    return os.path.join(WORK, "native-target", "debug", "verif-native")


def _write_if_changed(path, text):
    if os.path.exists(path) and open(path).read() == text:
        return
    with open(path, "w") as f:
        f.write(text)


def native(binpath, *args, timeout=60):
    """run verif-native, parse key=value lines"""
    p = run([binpath] + [str(a) for a in args], timeout=timeout, check=False)
    out = {}
    for ln in p.stdout.splitlines():
        if "=" in ln:
            k, v = ln.split("=", 1)
            out[k] = v
    out["_rc"] = p.returncode
    if p.returncode != 0 and "panic" not in out:
        out["panic"] = "process exit %d: %s" % (p.returncode, p.stderr[-300:])
    return out


C09_NATIVES = {("Mutex", "wait"): "mutex_wait(verif_hm(self), status)", ("Mutex", "notify"): "mutex_notify(verif_hm(self))",
               ("Condition", "enqueue"): "condition_enqueue(verif_hc(self))",
               ("Condition", "block"): "condition_block_after_enqueue(verif_hc(self))",
               ("Condition", "wakeup_one"): "condition_wakeup_one(verif_hc(self))",
               ("Condition", "wakeup_all"): "condition_wakeup_all(verif_hc(self))"}
C09_FALLBACK = """use crate::c09::*;
impl Mutex { pub fn lock_op(&mut self) { unimplemented!() } pub fn unlock_op(&mut self) { unimplemented!() } }
impl Condition { pub fn wait(&mut self, m: &mut Mutex) { unimplemented!() } pub fn notify_one(&mut self) { unimplemented!() }
    pub fn notify_all(&mut self) { unimplemented!() } }
"""


def drivers_mir_dump():
    """MIR of /verif/engines/drivers (the environment programs of the bmc checks) + the Rust translation of
    Dora's Mutex/Condition from pkgs/std/thread.dora of the working tree (module c09_gen)"""
    import shutil
    src = os.path.join(VERIF, "engines", "drivers")
    dst = os.path.join(WORK, "drivers-src")
    out = os.path.join(WORK, "mir", "verif-drivers.mir")
    os.makedirs(os.path.dirname(out), exist_ok=True)
    with Lock("mir-drivers"):
        os.makedirs(os.path.join(dst, "src"), exist_ok=True)
        _write_if_changed(os.path.join(dst, "Cargo.toml"), open(os.path.join(src, "Cargo.toml")).read())
        for f in os.listdir(os.path.join(src, "src")):
            _write_if_changed(os.path.join(dst, "src", f), open(os.path.join(src, "src", f)).read())
        gen_err = None
        try:
            from . import dora2rs
            gen = dora2rs.translate(open(os.path.join(REPO, "pkgs/std/thread.dora")).read(), ["Mutex", "Condition"], C09_NATIVES)
        except Inconclusive as e:
            gen, gen_err = C09_FALLBACK, str(e)
        _write_if_changed(os.path.join(dst, "src", "c09_gen.rs"), gen)
        lib = os.path.join(dst, "src", "lib.rs")

        def dump():
            os.utime(lib, None)
            return run(["cargo", "+nightly", "rustc", "--offline", "-q", "--lib", "--", "-Zunpretty=mir", "-C", "debug-assertions=on",
                        "-C", "overflow-checks=on"], cwd=dst, env={"CARGO_TARGET_DIR": os.path.join(WORK, "drivers-target")},
                       timeout=1800, check=False)
        p = dump()
        if p.returncode != 0 and gen is not C09_FALLBACK:
            # the translated Dora code does not compile (construct outside the supported subset): fall back so
            # that the other drivers still work; C09 sees the marker file and reports inconclusive
            gen_err = "translated thread.dora does not compile: " + p.stderr[-600:]
            _write_if_changed(os.path.join(dst, "src", "c09_gen.rs"), C09_FALLBACK)
            p = dump()
        if p.returncode != 0 or len(p.stdout) < 500:
            raise Inconclusive("MIR dump of the drivers crate failed: " + p.stderr[-2000:])
        with open(out, "w") as f:
            f.write(p.stdout)
        with open(os.path.join(WORK, "mir", "c09_gen.status"), "w") as f:
            f.write(gen_err or "ok")
    return out


def fork_map(fn, items, jobs):
    """map over items in fork()ed children (nestable, unlike multiprocessing.Pool; children inherit
    z3 objects by memory copy and each has the z3 context for itself).  Results must be picklable.
    An exception in a child is re-raised here as Inconclusive."""
    import pickle
    items = list(items)
    results = [None] * len(items)
    running = {}
    nxt = 0

    def reap(pid, idx, rfd):
        with os.fdopen(rfd, "rb") as f:
            data = f.read()
        os.waitpid(pid, 0)
        if not data:
            raise Inconclusive("worker for item %d died without a result" % idx)
        ok, val = pickle.loads(data)
        if not ok:
            raise Inconclusive(val)
        results[idx] = val

    import select
    while nxt < len(items) or running:
        while nxt < len(items) and len(running) < max(1, jobs):
            rfd, wfd = os.pipe()
            sys.stdout.flush()
            sys.stderr.flush()
            pid = os.fork()
            if pid == 0:
                os.close(rfd)
                try:
                    try:
                        out = (True, fn(items[nxt]))
                    except Inconclusive as e:
                        out = (False, str(e))
                    except BaseException as e:
                        import traceback
                        out = (False, "worker error: %s\n%s" % (e, traceback.format_exc()[-1500:]))
                    with os.fdopen(wfd, "wb") as f:
                        f.write(pickle.dumps(out))
                finally:
                    os._exit(0)
            os.close(wfd)
            running[rfd] = (pid, nxt)
            nxt += 1
        ready, _, _ = select.select(list(running), [], [], 1.0)
        for rfd in ready:
            # a readable pipe may deliver data in pieces; read to EOF in reap()
            pid, idx = running.pop(rfd)
            reap(pid, idx, rfd)
    return results
