"""Scalar SSE/AVX instructions on the low lane of the xmm registers (BV64 per register; the
upper lanes are not modelled).  Moves, xor-zeroing, compare and convert are interpreted with
z3's floating point theory; arithmetic (add/sub/mul/div/sqrt) likewise (RNE, the MXCSR
default, is assumed)."""
import z3

from .sem import Unsupported, BV, simp, zx, XMM, Flags

RNE = z3.RNE()


def _fp(bits, w):
    return z3.fpBVToFP(bits, z3.Float32() if w == 32 else z3.Float64())


def _is_xmm(op):
    return op[0] == "reg" and op[1] in XMM


def _rd(ex, st, insn, op, w):
    """low w bits of an xmm register / memory operand / general register"""
    if _is_xmm(op):
        v = st.xmm[op[1]]
        return simp(z3.Extract(w - 1, 0, v)) if w < 64 else v
    return ex.read(st, insn, op, w)


def _wr_low(ex, st, name, val, keep_from=None):
    """write the low lane; bits above val.size() come from keep_from (merge) or are zero"""
    w = val.size()
    if w == 64:
        st.xmm[name] = simp(val)
    else:
        hi = z3.Extract(63, w, st.xmm[keep_from]) if keep_from else BV(0, 64 - w)
        st.xmm[name] = simp(z3.Concat(hi, val))


def execute(ex, st, insn, name):
    ops = insn.ops
    n = name[1:] if name.startswith("v") else name
    avx = name.startswith("v")
    if n in ("xorps", "xorpd", "pxor"):
        a, b, d = (ops[0], ops[1], ops[2]) if len(ops) == 3 else (ops[0], ops[1], ops[1])
        if not (_is_xmm(a) and _is_xmm(b) and _is_xmm(d)):
            raise Unsupported(name + " with memory operand")
        st.xmm[d[1]] = simp(st.xmm[a[1]] ^ st.xmm[b[1]])
        return None
    if n in ("movaps", "movapd", "movups", "movupd", "movdqa", "movdqu"):
        src, dst = ops
        if _is_xmm(src) and _is_xmm(dst):
            st.xmm[dst[1]] = st.xmm[src[1]]
            return None
        raise Unsupported(name + " with memory operand (128-bit lane not modelled)")
    if n in ("movsd", "movss"):
        w = 64 if n == "movsd" else 32
        if len(ops) == 3:                      # vmovss %xmm_src, %xmm_merge, %xmm_dst
            src, mrg, dst = ops
            _wr_low(ex, st, dst[1], _rd(ex, st, insn, src, w), keep_from=mrg[1])
            return None
        src, dst = ops
        if _is_xmm(dst):
            v = _rd(ex, st, insn, src, w)
            if _is_xmm(src):
                _wr_low(ex, st, dst[1], v, keep_from=dst[1])
            else:
                _wr_low(ex, st, dst[1], v)
            return None
        ex.write(st, insn, dst, _rd(ex, st, insn, src, w))
        return None
    if n in ("movd", "movq"):
        w = 32 if n == "movd" else 64
        src, dst = ops
        v = _rd(ex, st, insn, src, w)
        if _is_xmm(dst):
            _wr_low(ex, st, dst[1], v)
        else:
            ex.write(st, insn, dst, v)
        return None
    if n in ("ucomisd", "ucomiss", "comisd", "comiss"):
        w = 64 if n.endswith("sd") else 32
        b = _fp(_rd(ex, st, insn, ops[0], w), w)     # AT&T: ucomisd src, dst compares dst with src
        a = _fp(_rd(ex, st, insn, ops[1], w), w)
        un = z3.Or(z3.fpIsNaN(a), z3.fpIsNaN(b))
        st.flags = Flags("explicit", w, ex={"ZF": z3.Or(un, z3.fpEQ(a, b)), "PF": un, "CF": z3.Or(un, z3.fpLT(a, b)),
                                             "OF": z3.BoolVal(False), "SF": z3.BoolVal(False)})
        return None
    if n in ("addsd", "subsd", "mulsd", "divsd", "addss", "subss", "mulss", "divss"):
        w = 64 if n.endswith("sd") else 32
        if len(ops) == 3:
            b, a, d = ops
        else:
            b, a = ops
            d = a
        fa, fb = _fp(_rd(ex, st, insn, a, w), w), _fp(_rd(ex, st, insn, b, w), w)
        r = {"add": z3.fpAdd, "sub": z3.fpSub, "mul": z3.fpMul, "div": z3.fpDiv}[n[:3]](RNE, fa, fb)
        # NaN payloads: z3 has one NaN; results that are NaN are compared as NaN-ness only
        _wr_low(ex, st, d[1], z3.fpToIEEEBV(r), keep_from=a[1] if _is_xmm(a) else None)
        return None
    if n in ("sqrtsd", "sqrtss"):
        w = 64 if n.endswith("sd") else 32
        src = ops[0]
        d = ops[-1]
        r = z3.fpSqrt(RNE, _fp(_rd(ex, st, insn, src, w), w))
        _wr_low(ex, st, d[1], z3.fpToIEEEBV(r), keep_from=d[1])
        return None
    if n.startswith("cvttsd2si") or n.startswith("cvttss2si"):
        w = 64 if "sd2si" in n else 32
        src, dst = ops
        from .sem import REGS
        ow = REGS[dst[1]][2]
        f = _fp(_rd(ex, st, insn, src, w), w)
        lo = z3.fpSignedToFP(RNE, BV(-(1 << (ow - 1)), ow), f.sort())     # exact: power of two
        hi_excl = z3.fpNeg(lo)                                             # 2^(ow-1), exact
        ok = z3.And(z3.Not(z3.fpIsNaN(f)), z3.fpGEQ(f, lo), z3.fpLT(f, hi_excl))
        # fpGEQ(f, lo) is slightly too strict for values in (lo-1, lo) which truncate to lo;
        # those are representable only for Float64->Int32, handled by comparing the truncation
        t = z3.fpRoundToIntegral(z3.RTZ(), f)
        ok = z3.And(z3.Not(z3.fpIsNaN(f)), z3.Not(z3.fpIsInf(f)), z3.fpGEQ(t, lo), z3.fpLT(t, hi_excl))
        v = z3.If(ok, z3.fpToSBV(z3.RTZ(), f, z3.BitVecSort(ow)), BV(1 << (ow - 1), ow))
        ex.write(st, insn, dst, simp(v))
        return None
    if n.startswith("cvtsi2sd") or n.startswith("cvtsi2ss"):
        w = 64 if "2sd" in n else 32
        body = n.rstrip("lq")
        iw = 64 if n.endswith("q") else 32
        if len(ops) == 3:
            src, mrg, dst = ops
        else:
            src, dst = ops
            mrg = dst
        if src[0] == "reg":
            from .sem import REGS
            iw = REGS[src[1]][2]
        x = ex.read(st, insn, src, iw)
        r = z3.fpSignedToFP(RNE, x, z3.Float64() if w == 64 else z3.Float32())
        _wr_low(ex, st, dst[1], z3.fpToIEEEBV(r), keep_from=mrg[1])
        return None
    if n in ("cvtsd2ss", "cvtss2sd"):
        sw, dw = (64, 32) if n == "cvtsd2ss" else (32, 64)
        if len(ops) == 3:
            src, mrg, dst = ops
        else:
            src, dst = ops
            mrg = dst
        f = _fp(_rd(ex, st, insn, src, sw), sw)
        r = z3.fpFPToFP(RNE, f, z3.Float64() if dw == 64 else z3.Float32())
        _wr_low(ex, st, dst[1], z3.fpToIEEEBV(r), keep_from=mrg[1])
        return None
    raise Unsupported("mnemonic " + name)
