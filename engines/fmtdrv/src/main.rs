//! verif-fmt  — batch server over stdin/stdout for check C17.  One request per input line, one answer line per request,
//! every answer line starts with `@@ ` (the real `format_source_with_line_length` prints diagnostics to stdout before its
//! final assertion fails; those lines carry no marker and are ignored by the reader).
//!
//!   doc <hex text>            parse + dora_format::doc::format            -> `@@ DOC <doc>` | `@@ PARSEERR <n>` | `@@ PANIC <msg>`
//!   fmt <width> <hex text>    format_source_with_line_length(text, width) -> `@@ OK <hex>` | `@@ PARSEERR <n>` | `@@ PANIC <msg>`
//!   render <width> <doc>      render_doc_with_line_length(doc, width)     -> `@@ OK <hex>` | `@@ PANIC <msg>`
//!   parse <hex text>          Parser::parse: number of errors             -> `@@ ERRORS <n>` | `@@ PANIC <msg>`
//!   tokens <hex text>         dora_parser::lex                            -> `@@ TOKENS <KIND>:<start>,…` (no EOF) | `@@ PANIC <msg>`
//!
//! <doc> is a prefix encoding, blank separated:  C <n> <doc>*n | N <indent> <doc> | G <doc> | T <hex or -> | L (SoftLine)
//! | B (SoftBreak) | I <doc> (IfBreak) | H (HardLine).  A <hex> that is empty is written `-`.
use std::io::{BufRead, Write};
use std::panic;
use std::sync::Arc;

use dora_format::doc::Doc;
use dora_parser::Parser;
use smol_str::SmolStr;

fn hex_to_bytes(s: &str) -> Vec<u8> {
    if s == "-" {
        return Vec::new();
    }
    (0..s.len() / 2).map(|i| u8::from_str_radix(&s[2 * i..2 * i + 2], 16).unwrap()).collect()
}

fn to_hex(b: &[u8]) -> String {
    if b.is_empty() {
        return "-".to_string();
    }
    b.iter().map(|x| format!("{:02x}", x)).collect()
}

fn msg(e: Box<dyn std::any::Any + Send>) -> String {
    let m = if let Some(s) = e.downcast_ref::<String>() {
        s.clone()
    } else if let Some(s) = e.downcast_ref::<&str>() {
        s.to_string()
    } else {
        "?".to_string()
    };
    m.replace('\n', " ")
}

fn write_doc(d: &Doc, out: &mut String) {
    match d {
        Doc::Concat { children } => {
            out.push_str(&format!("C {} ", children.len()));
            for c in children {
                write_doc(c, out);
            }
        }
        Doc::Nest { indent, doc } => {
            out.push_str(&format!("N {} ", indent));
            write_doc(doc, out);
        }
        Doc::Group { doc } => {
            out.push_str("G ");
            write_doc(doc, out);
        }
        Doc::Text { text } => {
            out.push_str("T ");
            out.push_str(&to_hex(text.as_str().as_bytes()));
            out.push(' ');
        }
        Doc::SoftLine => out.push_str("L "),
        Doc::SoftBreak => out.push_str("B "),
        Doc::IfBreak { doc } => {
            out.push_str("I ");
            write_doc(doc, out);
        }
        Doc::HardLine => out.push_str("H "),
    }
}

fn read_doc<'a, I: Iterator<Item = &'a str>>(it: &mut I) -> Doc {
    match it.next().expect("doc token") {
        "C" => {
            let n: usize = it.next().unwrap().parse().unwrap();
            let mut children = Vec::new();
            for _ in 0..n {
                children.push(read_doc(it));
            }
            Doc::Concat { children }
        }
        "N" => {
            let indent: u32 = it.next().unwrap().parse().unwrap();
            Doc::Nest { indent, doc: Box::new(read_doc(it)) }
        }
        "G" => Doc::Group { doc: Box::new(read_doc(it)) },
        "T" => {
            let b = hex_to_bytes(it.next().unwrap());
            Doc::Text { text: SmolStr::new(String::from_utf8(b).unwrap()) }
        }
        "L" => Doc::SoftLine,
        "B" => Doc::SoftBreak,
        "I" => Doc::IfBreak { doc: Box::new(read_doc(it)) },
        "H" => Doc::HardLine,
        other => panic!("bad doc token {}", other),
    }
}

fn text_of(hex: &str) -> Option<String> {
    String::from_utf8(hex_to_bytes(hex)).ok()
}

fn handle(line: &str) -> String {
    let mut it = line.split_ascii_whitespace();
    let op = match it.next() {
        Some(op) => op.to_string(),
        None => return "EMPTY".to_string(),
    };
    match op.as_str() {
        "doc" => {
            let text = match text_of(it.next().unwrap_or("-")) {
                Some(t) => t,
                None => return "INVALID_UTF8".to_string(),
            };
            let r = panic::catch_unwind(move || {
                let parser = Parser::from_shared_string(Arc::new(text));
                let (file, errors) = parser.parse();
                if !errors.is_empty() {
                    return format!("PARSEERR {}", errors.len());
                }
                let doc = dora_format::doc::format(file.root());
                let mut s = String::from("DOC ");
                write_doc(&doc, &mut s);
                s
            });
            r.unwrap_or_else(|e| format!("PANIC {}", msg(e)))
        }
        "fmt" => {
            let width: u32 = it.next().unwrap().parse().unwrap();
            let text = match text_of(it.next().unwrap_or("-")) {
                Some(t) => t,
                None => return "INVALID_UTF8".to_string(),
            };
            let r = panic::catch_unwind(move || match dora_format::format_source_with_line_length(&text, width) {
                Ok(s) => format!("OK {}", to_hex(s.as_bytes())),
                Err(errors) => format!("PARSEERR {}", errors.len()),
            });
            r.unwrap_or_else(|e| format!("PANIC {}", msg(e)))
        }
        "render" => {
            let width: u32 = it.next().unwrap().parse().unwrap();
            let rest: Vec<String> = it.map(|s| s.to_string()).collect();
            let r = panic::catch_unwind(move || {
                let mut toks = rest.iter().map(|s| s.as_str());
                let doc = read_doc(&mut toks);
                let s = dora_format::render::render_doc_with_line_length(&doc, width);
                format!("OK {}", to_hex(s.as_bytes()))
            });
            r.unwrap_or_else(|e| format!("PANIC {}", msg(e)))
        }
        "parse" => {
            let text = match text_of(it.next().unwrap_or("-")) {
                Some(t) => t,
                None => return "INVALID_UTF8".to_string(),
            };
            let r = panic::catch_unwind(move || {
                let parser = Parser::from_shared_string(Arc::new(text));
                let (_file, errors) = parser.parse();
                format!("ERRORS {}", errors.len())
            });
            r.unwrap_or_else(|e| format!("PANIC {}", msg(e)))
        }
        "tokens" => {
            let text = match text_of(it.next().unwrap_or("-")) {
                Some(t) => t,
                None => return "INVALID_UTF8".to_string(),
            };
            let r = panic::catch_unwind(move || {
                let res = dora_parser::lex(&text);
                let mut s = String::from("TOKENS ");
                s.push_str(&format!("{} ", res.errors.len()));
                for (i, (k, st)) in res.tokens.iter().zip(res.starts.iter()).enumerate() {
                    if k.is_eof() {
                        continue;
                    }
                    if i > 0 {
                        s.push(',');
                    }
                    s.push_str(&format!("{:?}:{}", k, st));
                }
                s
            });
            r.unwrap_or_else(|e| format!("PANIC {}", msg(e)))
        }
        _ => "UNKNOWN".to_string(),
    }
}

fn main() {
    // the default hook prints the panic message to stderr: keep it quiet, the message is returned in the answer
    panic::set_hook(Box::new(|_| {}));
    let stdin = std::io::stdin();
    let stdout = std::io::stdout();
    for line in stdin.lock().lines() {
        let line = match line {
            Ok(l) => l,
            Err(_) => break,
        };
        let ans = handle(&line);
        let mut o = stdout.lock();
        // a diagnostic of the real code may have left an unterminated line
        let _ = writeln!(o, "\n@@ {}", ans);
        let _ = o.flush();
    }
}
