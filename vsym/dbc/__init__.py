"""DBC front end of vsym: Dora register bytecode (`dora compile --emit-bytecode`) -> z3.

parser.py  text dump -> Program (functions, registers + types, const pool, instructions)
interp.py  path-exploring symbolic / concrete interpreter of a subset of the opcodes
gen.py     seeded generator of `match` kernels (source text, oracle, drivers)
See NOTES.md for the opcodes covered and where their semantics were taken from.
"""
