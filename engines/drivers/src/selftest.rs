// Functions that push std operations through the MIR interpreter's models; tools/model_selftest.py runs each on the
// inputs below both natively (this file compiled as a program) and through vsym, and compares the results.
// Signature: (a, b) -> u64, every result folded into the u64.

fn opt(a: u64) -> Option<u64> { if a & 1 == 1 { Some(a >> 1) } else { None } }
fn res(a: u64) -> Result<u64, u64> { if a & 1 == 1 { Ok(a >> 1) } else { Err(a >> 1) } }
fn ou(o: Option<u64>) -> u64 { match o { Some(v) => v.wrapping_mul(2).wrapping_add(1), None => 0 } }
fn ru(r: Result<u64, u64>) -> u64 { match r { Ok(v) => v.wrapping_mul(2).wrapping_add(1), Err(e) => e.wrapping_mul(2) } }

pub fn st_min(a: u64, b: u64) -> u64 { a.min(b) }
pub fn st_max(a: u64, b: u64) -> u64 { std::cmp::max(a, b) }
pub fn st_imin(a: u64, b: u64) -> u64 { (a as i64).min(b as i64) as u64 }
pub fn st_imax(a: u64, b: u64) -> u64 { std::cmp::max(a as i32, b as i32) as u64 }
pub fn st_cmp(a: u64, b: u64) -> u64 { match a.cmp(&b) { std::cmp::Ordering::Less => 0, std::cmp::Ordering::Equal => 1, std::cmp::Ordering::Greater => 2 } }
pub fn st_icmp(a: u64, b: u64) -> u64 { match (a as i8).cmp(&(b as i8)) { std::cmp::Ordering::Less => 0, std::cmp::Ordering::Equal => 1, std::cmp::Ordering::Greater => 2 } }
pub fn st_abs(a: u64, _b: u64) -> u64 { (a as i32).abs() as u64 }
pub fn st_unsigned_abs(a: u64, _b: u64) -> u64 { (a as i32).unsigned_abs() as u64 }
pub fn st_signum(a: u64, _b: u64) -> u64 { (a as i64).signum() as u64 }
pub fn st_abs_diff(a: u64, b: u64) -> u64 { a.abs_diff(b) }
pub fn st_iabs_diff(a: u64, b: u64) -> u64 { (a as i32).abs_diff(b as i32) as u64 }
pub fn st_rotl(a: u64, b: u64) -> u64 { a.rotate_left(b as u32) }
pub fn st_rotr32(a: u64, b: u64) -> u64 { (a as u32).rotate_right(b as u32) as u64 }
pub fn st_swap_bytes(a: u64, _b: u64) -> u64 { (a as u32).swap_bytes() as u64 }
pub fn st_pow(a: u64, _b: u64) -> u64 { (a as u32).pow(3) as u64 }
pub fn st_sat_add(a: u64, b: u64) -> u64 { (a as u8).saturating_add(b as u8) as u64 }
pub fn st_sat_sub(a: u64, b: u64) -> u64 { a.saturating_sub(b) }
pub fn st_isat_add(a: u64, b: u64) -> u64 { (a as i8).saturating_add(b as i8) as u64 }
pub fn st_isat_sub(a: u64, b: u64) -> u64 { (a as i8).saturating_sub(b as i8) as u64 }
pub fn st_checked_div(a: u64, b: u64) -> u64 { ou(a.checked_div(b)) }
pub fn st_ichecked_div(a: u64, b: u64) -> u64 { ou((a as i32).checked_div(b as i32).map(|x| x as u32 as u64)) }
pub fn st_checked_rem(a: u64, b: u64) -> u64 { ou(a.checked_rem(b)) }
pub fn st_checked_shl(a: u64, b: u64) -> u64 { ou(a.checked_shl(b as u32)) }
pub fn st_checked_shr(a: u64, b: u64) -> u64 { ou((a as u32).checked_shr(b as u32).map(|x| x as u64)) }
pub fn st_checked_neg(a: u64, _b: u64) -> u64 { ou((a as i32).checked_neg().map(|x| x as u32 as u64)) }
pub fn st_checked_add(a: u64, b: u64) -> u64 { ou(a.checked_add(b)) }
pub fn st_is_some_and(a: u64, b: u64) -> u64 { opt(a).is_some_and(|v| v > b) as u64 }
pub fn st_map_or(a: u64, b: u64) -> u64 { opt(a).map_or(b, |v| v ^ 5) }
pub fn st_map_or_else(a: u64, b: u64) -> u64 { opt(a).map_or_else(|| b.wrapping_add(1), |v| v ^ 7) }
pub fn st_as_ref(a: u64, _b: u64) -> u64 { let o = opt(a); match o.as_ref() { Some(r) => *r + 1, None => 0 } }
pub fn st_as_mut(a: u64, b: u64) -> u64 { let mut o = opt(a); if let Some(r) = o.as_mut() { *r = b; } ou(o) }
pub fn st_take(a: u64, _b: u64) -> u64 { let mut o = opt(a); let t = o.take(); ou(t).wrapping_mul(3).wrapping_add(ou(o)) }
pub fn st_replace(a: u64, b: u64) -> u64 { let mut o = opt(a); let t = o.replace(b); ou(t).wrapping_mul(3).wrapping_add(ou(o)) }
pub fn st_or(a: u64, b: u64) -> u64 { ou(opt(a).or(opt(b))) }
pub fn st_and(a: u64, b: u64) -> u64 { ou(opt(a).and(opt(b))) }
pub fn st_xor(a: u64, b: u64) -> u64 { ou(opt(a).xor(opt(b))) }
pub fn st_filter(a: u64, b: u64) -> u64 { ou(opt(a).filter(|v| *v < b)) }
pub fn st_ok_or_else(a: u64, b: u64) -> u64 { ru(opt(a).ok_or_else(|| b)) }
pub fn st_ok_or(a: u64, b: u64) -> u64 { ru(opt(a).ok_or(b)) }
pub fn st_or_else(a: u64, b: u64) -> u64 { ou(opt(a).or_else(|| opt(b))) }
pub fn st_and_then(a: u64, b: u64) -> u64 { ou(opt(a).and_then(|v| opt(v ^ b))) }
pub fn st_unwrap_or(a: u64, b: u64) -> u64 { opt(a).unwrap_or(b) }
pub fn st_unwrap(a: u64, _b: u64) -> u64 { opt(a).unwrap() }
pub fn st_res_map(a: u64, b: u64) -> u64 { ru(res(a).map(|v| v ^ b)) }
pub fn st_res_map_err(a: u64, b: u64) -> u64 { ru(res(a).map_err(|v| v ^ b)) }
pub fn st_res_and_then(a: u64, b: u64) -> u64 { ru(res(a).and_then(|v| res(v ^ b))) }
pub fn st_res_or_else(a: u64, b: u64) -> u64 { ru(res(a).or_else(|v| res(v ^ b))) }
pub fn st_res_unwrap_or(a: u64, b: u64) -> u64 { res(a).unwrap_or(b) }
pub fn st_res_unwrap_or_else(a: u64, b: u64) -> u64 { res(a).unwrap_or_else(|e| e ^ b) }
pub fn st_res_err(a: u64, _b: u64) -> u64 { ou(res(a).err()) }
pub fn st_res_ok(a: u64, _b: u64) -> u64 { ou(res(a).ok()) }
pub fn st_res_is_ok_and(a: u64, b: u64) -> u64 { res(a).is_ok_and(|v| v == b) as u64 }
pub fn st_then(a: u64, b: u64) -> u64 { ou((a > b).then(|| a - b)) }
pub fn st_then_some(a: u64, b: u64) -> u64 { ou((a > b).then_some(b)) }
pub fn st_mem_swap(a: u64, b: u64) -> u64 { let (mut x, mut y) = (a, b); std::mem::swap(&mut x, &mut y); x.wrapping_mul(3).wrapping_add(y) }
pub fn st_mem_replace(a: u64, b: u64) -> u64 { let mut x = a; let o = std::mem::replace(&mut x, b); x.wrapping_mul(3).wrapping_add(o) }

fn bytes(a: u64) -> [u8; 4] { [(a & 0x7f) as u8, ((a >> 8) & 0x7f) as u8, ((a >> 16) & 0x7f) as u8, ((a >> 24) & 0x7f) as u8] }
pub fn st_contains(a: u64, b: u64) -> u64 { bytes(a).contains(&(b as u8)) as u64 }
pub fn st_slice_starts(a: u64, b: u64) -> u64 { let x = bytes(a); let y = bytes(b); x.starts_with(&y[..2]) as u64 }
pub fn st_slice_ends(a: u64, b: u64) -> u64 { let x = bytes(a); let y = bytes(b); x.ends_with(&y[2..]) as u64 }
pub fn st_split_at(a: u64, b: u64) -> u64 { let x = bytes(a); let (l, r) = x.split_at((b % 6) as usize); (l.len() * 16 + r.len()) as u64 + r.first().map_or(0, |v| (*v as u64) << 8) }
pub fn st_to_vec(a: u64, b: u64) -> u64 { let mut v = bytes(a).to_vec(); v.push(b as u8); v.len() as u64 + ((v[4] as u64) << 8) + ((v[0] as u64) << 16) }
pub fn st_vec_ops(a: u64, b: u64) -> u64 {
    let mut v: Vec<u8> = Vec::new();
    v.extend_from_slice(&bytes(a));
    v.insert((b % 5) as usize, 0x55);
    let r = v.remove(((b >> 4) % 5) as usize);
    let s = v.swap_remove(((b >> 8) % 4) as usize);
    v.truncate(((b >> 12) % 5) as usize);
    let l = v.last().map_or(0xff, |x| *x);
    let f = v.first().map_or(0xfe, |x| *x);
    (r as u64) | (s as u64) << 8 | (l as u64) << 16 | (f as u64) << 24 | (v.len() as u64) << 32
}
pub fn st_vec_clear(a: u64, _b: u64) -> u64 { let mut v = bytes(a).to_vec(); v.clear(); v.len() as u64 }
pub fn st_vec_remove_oob(a: u64, b: u64) -> u64 { let mut v = bytes(a).to_vec(); v.remove((b % 8) as usize) as u64 }
pub fn st_string_ops(a: u64, b: u64) -> u64 {
    let x = bytes(a);
    let mut s = String::new();
    for c in x { s.push(c as char); }
    s.push_str("ab");
    let t = s.clone();
    let p = s.pop().map_or(0, |c| c as u64);
    s.truncate((b % 6) as usize);
    let e = t.ends_with("ab") as u64 | (t.ends_with('b') as u64) << 1 | (s.ends_with("zz") as u64) << 2;
    p | (s.len() as u64) << 8 | e << 16 | (t.to_string().len() as u64) << 24
}
pub fn st_char_case(a: u64, _b: u64) -> u64 { let c = (a & 0x7f) as u8 as char; (c.to_ascii_uppercase() as u64) | (c.to_ascii_lowercase() as u64) << 8 }
pub fn st_to_digit(a: u64, b: u64) -> u64 { let c = (a & 0x7f) as u8 as char; ou(c.to_digit(if b & 1 == 1 { 16 } else { 10 }).map(|d| d as u64)) }
pub fn st_from_u32(a: u64, _b: u64) -> u64 { ou(char::from_u32(a as u32).map(|c| c as u64)) }
pub fn st_ptr_eq(a: u64, b: u64) -> u64 { let x = [a, b]; (std::ptr::eq(&x[0], &x[0]) as u64) | (std::ptr::eq(&x[0], &x[1]) as u64) << 1 }


pub fn st_it_enumerate(a: u64, b: u64) -> u64 { let x = bytes(a); let mut r = 0u64; for (i, v) in x.iter().enumerate() { if *v as u64 > (b & 0x7f) { r += (i as u64 + 1) * 7; } } r }
pub fn st_it_take_while(a: u64, b: u64) -> u64 { bytes(a).iter().take_while(|v| (**v as u64) < (b & 0x7f)).count() as u64 }
pub fn st_it_skip_take(a: u64, b: u64) -> u64 { let x = bytes(a); let mut r = 0u64; for v in x.iter().skip((b % 3) as usize).take(((b >> 2) % 4) as usize) { r = r * 131 + *v as u64; } r }
pub fn st_it_zip(a: u64, b: u64) -> u64 { let x = bytes(a); let y = bytes(b); let mut r = 0u64; for (p, q) in x.iter().zip(y.iter()) { if p == q { r += 1; } } r }
pub fn st_it_chain(a: u64, b: u64) -> u64 { let x = bytes(a); let y = bytes(b); let mut r = 0u64; for v in x[..2].iter().chain(y[1..].iter()) { r = r * 129 + *v as u64; } r }
pub fn st_it_position(a: u64, b: u64) -> u64 { ou(bytes(a).iter().position(|v| *v as u64 == (b & 0x7f)).map(|i| i as u64)) }
pub fn st_it_find(a: u64, b: u64) -> u64 { ou(bytes(a).iter().find(|v| (**v as u64) > (b & 0x7f)).map(|v| *v as u64)) }
pub fn st_it_find_map(a: u64, b: u64) -> u64 { ou(bytes(a).iter().find_map(|v| if (*v as u64) > (b & 0x7f) { Some(*v as u64 + 1) } else { None })) }
pub fn st_it_fold(a: u64, b: u64) -> u64 { bytes(a).iter().fold(b & 0xffff, |acc, v| acc * 3 + *v as u64) }
pub fn st_it_last(a: u64, b: u64) -> u64 { ou(bytes(a)[..(b % 5) as usize].iter().last().map(|v| *v as u64)) }
pub fn st_it_nth(a: u64, b: u64) -> u64 { ou(bytes(a).iter().nth((b % 6) as usize).map(|v| *v as u64)) }
pub fn st_it_sum(a: u64, b: u64) -> u64 { bytes(a).iter().map(|v| *v as u32 + (b & 0xff) as u32).sum::<u32>() as u64 }
pub fn st_it_sum_overflow(a: u64, b: u64) -> u64 { bytes(a).iter().map(|v| (*v).wrapping_add(b as u8)).sum::<u8>() as u64 }
pub fn st_partition_point(a: u64, b: u64) -> u64 { let mut x = bytes(a); let mut i = 1; while i < 4 { if x[i] < x[i - 1] { x[i] = x[i - 1]; } i += 1; } x.partition_point(|v| (*v as u64) < (b & 0x7f)) as u64 }
pub fn st_it_any_all(a: u64, b: u64) -> u64 { let x = bytes(a); (x.iter().any(|v| *v as u64 == (b & 0x7f)) as u64) | (x.iter().all(|v| *v as u64 >= (b & 0x3f)) as u64) << 1 }
pub fn st_last_mut(a: u64, b: u64) -> u64 { let mut v = bytes(a).to_vec(); v.truncate((b % 5) as usize); if let Some(l) = v.last_mut() { *l = 0x11; } if let Some(f) = v.first_mut() { *f ^= 0x22; } if let Some(g) = v.get_mut(((b >> 3) % 6) as usize) { *g = g.wrapping_add(3); } let mut r = v.len() as u64; for x in v.iter() { r = r * 131 + *x as u64; } r }

pub const ST_FNS: &[(&str, fn(u64, u64) -> u64)] = &[
    ("st_min", st_min), ("st_max", st_max), ("st_imin", st_imin), ("st_imax", st_imax), ("st_cmp", st_cmp), ("st_icmp", st_icmp),
    ("st_abs", st_abs), ("st_unsigned_abs", st_unsigned_abs), ("st_signum", st_signum), ("st_abs_diff", st_abs_diff),
    ("st_iabs_diff", st_iabs_diff), ("st_rotl", st_rotl), ("st_rotr32", st_rotr32), ("st_swap_bytes", st_swap_bytes),
    ("st_pow", st_pow), ("st_sat_add", st_sat_add), ("st_sat_sub", st_sat_sub), ("st_isat_add", st_isat_add),
    ("st_isat_sub", st_isat_sub), ("st_checked_div", st_checked_div), ("st_ichecked_div", st_ichecked_div),
    ("st_checked_rem", st_checked_rem), ("st_checked_shl", st_checked_shl), ("st_checked_shr", st_checked_shr),
    ("st_checked_neg", st_checked_neg), ("st_checked_add", st_checked_add), ("st_is_some_and", st_is_some_and),
    ("st_map_or", st_map_or), ("st_map_or_else", st_map_or_else), ("st_as_ref", st_as_ref), ("st_as_mut", st_as_mut),
    ("st_take", st_take), ("st_replace", st_replace), ("st_or", st_or), ("st_and", st_and), ("st_xor", st_xor),
    ("st_filter", st_filter), ("st_ok_or_else", st_ok_or_else), ("st_ok_or", st_ok_or), ("st_or_else", st_or_else),
    ("st_and_then", st_and_then), ("st_unwrap_or", st_unwrap_or), ("st_unwrap", st_unwrap), ("st_res_map", st_res_map),
    ("st_res_map_err", st_res_map_err), ("st_res_and_then", st_res_and_then), ("st_res_or_else", st_res_or_else),
    ("st_res_unwrap_or", st_res_unwrap_or), ("st_res_unwrap_or_else", st_res_unwrap_or_else), ("st_res_err", st_res_err),
    ("st_res_ok", st_res_ok), ("st_res_is_ok_and", st_res_is_ok_and), ("st_then", st_then), ("st_then_some", st_then_some),
    ("st_mem_swap", st_mem_swap), ("st_mem_replace", st_mem_replace), ("st_contains", st_contains),
    ("st_slice_starts", st_slice_starts), ("st_slice_ends", st_slice_ends), ("st_split_at", st_split_at), ("st_to_vec", st_to_vec),
    ("st_vec_ops", st_vec_ops), ("st_vec_clear", st_vec_clear), ("st_vec_remove_oob", st_vec_remove_oob),
    ("st_string_ops", st_string_ops), ("st_char_case", st_char_case), ("st_to_digit", st_to_digit), ("st_from_u32", st_from_u32),
    ("st_ptr_eq", st_ptr_eq),
    ("st_it_enumerate", st_it_enumerate), ("st_it_take_while", st_it_take_while), ("st_it_skip_take", st_it_skip_take),
    ("st_it_zip", st_it_zip), ("st_it_chain", st_it_chain), ("st_it_position", st_it_position), ("st_it_find", st_it_find),
    ("st_it_find_map", st_it_find_map), ("st_it_fold", st_it_fold), ("st_it_last", st_it_last), ("st_it_nth", st_it_nth),
    ("st_it_sum", st_it_sum), ("st_it_sum_overflow", st_it_sum_overflow), ("st_partition_point", st_partition_point),
    ("st_it_any_all", st_it_any_all), ("st_last_mut", st_last_mut),
];
