"""Parser of the text printed by `dora compile … --emit-bytecode <all|fn>`.

The printer is /repo/dora-bytecode/src/dumper.rs (`dump`, `BytecodeDumper`).  Per function:

    Bytecode for <name>:
      <off>: <Opcode> <operands> [# comment]
      …
      Registers:
       <i> => <type>
      Constants:
       <i> => <Kind> <payload>
      Locations:
       <off> => <line>:<col>

Only the functions asked for are parsed (the dump of `all` contains the whole of std).  Anything
the parser does not understand inside a requested function raises `Unsupported` — the caller turns
that into "function inconclusive", never into a verdict.
"""
import re


class Unsupported(Exception):
    """A construct of the dump / an opcode the DBC front end has no reading for."""


REG3 = {"Add", "Sub", "Mul", "Div", "Mod", "CheckedAdd", "CheckedSub", "CheckedMul", "CheckedDiv",
        "CheckedMod", "And", "Or", "Xor", "Shl", "Shr", "Sar", "TestEq", "TestNe", "TestGt", "TestGe",
        "TestLt", "TestLe", "TestIdentity", "LoadArray", "StoreArray", "GetArrayRef"}
REG2 = {"Neg", "CheckedNeg", "Not", "Mov", "ArrayLength", "StoreRef", "LoadRef", "GetRegisterRef"}
REG1 = {"Ret", "ConstTrue", "ConstFalse", "ConstZeroUInt8", "ConstZeroChar", "ConstZeroInt32",
        "ConstZeroInt64", "ConstZeroFloat32", "ConstZeroFloat64"}
INVOKES = {"InvokeDirect", "InvokeVirtual", "InvokeStatic", "InvokeGenericStatic", "InvokeGenericDirect"}
NEWS = {"NewObject", "NewTuple", "NewEnum", "NewStruct"}


class Instr:
    __slots__ = ("off", "op", "a", "raw", "idx")

    def __init__(self, off, op, a, raw):
        self.off, self.op, self.a, self.raw, self.idx = off, op, a, raw, -1

    def __repr__(self):
        return "%d: %s" % (self.off, self.raw)


class Function:
    def __init__(self, name):
        self.name = name
        self.instrs = []
        self.at = {}          # bytecode offset -> index into instrs
        self.regs = []        # register types, as printed
        self.consts = {}      # idx -> (kind, payload string)
        self.locations = {}   # offset -> "line:col"
        self.text = ""

    def shape(self):
        """Summary of the dispatch shape, for evidence: opcode histogram of the control part."""
        ops = [i.op for i in self.instrs]
        tabs = [len(i.a["targets"]) for i in self.instrs if i.op == "Switch"]
        return {"switch_tables": tabs, "test_eq": ops.count("TestEq"), "test_lt": ops.count("TestLt"),
                "test_gt": ops.count("TestGt"), "jump_if": ops.count("JumpIfTrue") + ops.count("JumpIfFalse"),
                "calls": sum(1 for o in ops if o in INVOKES), "instructions": len(ops)}


def _reg(s):
    s = s.strip()
    m = re.fullmatch(r"r(\d+)", s)
    if not m:
        raise Unsupported("register expected: %r" % s)
    return int(m.group(1))


def _cp(s):
    m = re.fullmatch(r"@(\d+)", s.strip())
    if not m:
        raise Unsupported("const pool index expected: %r" % s)
    return int(m.group(1))


def _split_comment(rest):
    if " # " in rest:
        a, b = rest.split(" # ", 1)
        return a, b
    if rest.endswith(" #"):
        return rest[:-2], ""
    return rest, None


def _parse_operands(op, rest):
    if op in REG3:
        r = [_reg(x) for x in rest.split(",")]
        if len(r) != 3:
            raise Unsupported(rest)
        return {"d": r[0], "l": r[1], "r": r[2]}
    if op in REG2:
        r = [_reg(x) for x in rest.split(",")]
        if len(r) != 2:
            raise Unsupported(rest)
        return {"d": r[0], "s": r[1]}
    if op in REG1:
        return {"d": _reg(rest)}
    if op == "LoopStart":
        return {}
    if op in ("ConstInt32", "ConstInt64"):
        m = re.fullmatch(r"\s*r(\d+), @(\d+) # (-?\d+)", rest)
        if not m:
            raise Unsupported(rest)
        return {"d": int(m.group(1)), "cp": int(m.group(2)), "v": int(m.group(3))}
    if op == "ConstChar":
        # the character itself is printed raw (may be a quote, a control character, …): only the
        # hexadecimal scalar value at the end of the line is used
        m = re.fullmatch(r"\s*r(\d+), @(\d+) # '[\s\S]*' 0x([0-9a-f]+)", rest)
        if not m:
            raise Unsupported(rest)
        return {"d": int(m.group(1)), "cp": int(m.group(2)), "v": int(m.group(3), 16)}
    if op == "ConstUInt8":
        m = re.fullmatch(r"\s*r(\d+), (\d+)", rest)
        if not m:
            raise Unsupported(rest)
        return {"d": int(m.group(1)), "v": int(m.group(2))}
    if op in ("Jump", "JumpLoop"):
        m = re.fullmatch(r"\s*(\d+) \(([+-]\d+)\)", rest)
        if not m:
            raise Unsupported(rest)
        return {"t": int(m.group(1)), "delta": int(m.group(2))}
    if op in ("JumpIfFalse", "JumpIfTrue"):
        m = re.fullmatch(r"\s*r(\d+), (\d+) \(([+-]\d+)\)", rest)
        if not m:
            raise Unsupported(rest)
        return {"s": int(m.group(1)), "t": int(m.group(2)), "delta": int(m.group(3))}
    if op == "Switch":
        m = re.fullmatch(r"\s*r(\d+), @(\d+) # \[([0-9, ]*)\], default (\d+)", rest)
        if not m:
            raise Unsupported(rest)
        tg = [int(x) for x in m.group(3).split(",")] if m.group(3).strip() else []
        return {"s": int(m.group(1)), "cp": int(m.group(2)), "targets": tg, "default": int(m.group(4))}
    if op in INVOKES or op in NEWS:
        body, com = _split_comment(rest)
        parts = [x.strip() for x in body.split(",")]
        if len(parts) < 2:
            raise Unsupported(rest)
        return {"d": _reg(parts[0]), "cp": _cp(parts[1]), "args": [_reg(x) for x in parts[2:]],
                "name": (com or "").strip()}
    if op == "LoadEnumVariant":
        body, com = _split_comment(rest)
        parts = body.split(",")
        return {"d": _reg(parts[0]), "s": _reg(parts[1]), "cp": _cp(parts[2]), "enum": (com or "").strip()}
    if op == "LoadEnumElement":
        body, com = _split_comment(rest)
        parts = body.split(",")
        m = re.fullmatch(r"(.*)::(\w+)\.(\d+)", (com or "").strip())
        if not m or len(parts) != 4:
            raise Unsupported(rest)
        return {"d": _reg(parts[0]), "s": _reg(parts[1]), "cp": _cp(parts[2]), "elem": int(parts[3]),
                "enum": m.group(1), "variant": m.group(2)}
    if op in ("LoadField", "StoreField", "GetFieldRef", "LoadTupleElement"):
        body, com = _split_comment(rest)
        parts = body.split(",")
        if len(parts) < 3:
            raise Unsupported(rest)
        com = (com or "").strip()
        m = re.fullmatch(r"(.*)\.(\w+)", com)
        return {"d": _reg(parts[0]), "s": _reg(parts[1]), "owner": m.group(1) if m else com,
                "field": m.group(2) if m else None}
    if op == "LoadConst":
        m = re.fullmatch(r"\s*r(\d+), ConstId\((\d+)\) # (\S+)", rest)
        if not m:
            raise Unsupported(rest)
        return {"d": int(m.group(1)), "id": int(m.group(2)), "path": m.group(3)}
    # ConstFloat*, ConstString, globals, arrays, trait objects, … : kept raw, not interpreted
    return {"rest": rest}


_HEAD = re.compile(r"^Bytecode for (.*):$", re.M)
_ILINE = re.compile(r"^\s*(\d+): (\w+)(.*)$")


class Program:
    """Lazy view of a dump: functions are cut out by their header line and parsed on demand."""

    def __init__(self, text):
        self.blocks = {}
        self.dups = set()
        heads = list(_HEAD.finditer(text))
        for i, m in enumerate(heads):
            end = heads[i + 1].start() if i + 1 < len(heads) else len(text)
            name = m.group(1)
            if name in self.blocks:
                self.dups.add(name)
            self.blocks[name] = text[m.end() + 1:end]
        self._parsed = {}

    def names(self):
        return list(self.blocks)

    def has(self, name):
        return name in self.blocks

    def function(self, name):
        if name in self._parsed:
            return self._parsed[name]
        if name not in self.blocks:
            raise Unsupported("no bytecode for function %s in the dump" % name)
        if name in self.dups:
            raise Unsupported("function name %s occurs twice in the dump" % name)
        f = parse_function(name, self.blocks[name])
        self._parsed[name] = f
        return f


def parse_function(name, block):
    f = Function(name)
    f.text = block
    m = re.search(r"\n\n  Registers:\n", block)
    if not m:
        if block.startswith("\n  Registers:\n"):       # function without instructions
            code, tail = "", block[1:]
        else:
            raise Unsupported("no Registers section in %s" % name)
    else:
        code, tail = block[:m.start()], block[m.start() + 2:]
    m2 = re.search(r"\n  Constants:\n", tail)
    m3 = re.search(r"\n  Locations:\n", tail)
    if not m2 or not m3:
        raise Unsupported("missing Constants/Locations section in %s" % name)
    regs_txt = tail[len("  Registers:\n"):m2.start()]
    const_txt = tail[m2.end():m3.start()]
    loc_txt = tail[m3.end():]

    # instructions: a ConstChar of '\n' / ConstString with line breaks spans lines -> join
    # continuation lines (lines that do not start with "<off>: Opcode") to the previous one
    lines = []
    for ln in code.split("\n"):
        if _ILINE.match(ln) or not lines:
            lines.append(ln)
        else:
            lines[-1] += "\n" + ln
    for ln in lines:
        if not ln.strip():
            continue
        mm = re.match(r"^\s*(\d+): (\w+)([\s\S]*)$", ln)
        if not mm:
            raise Unsupported("instruction line not understood in %s: %r" % (name, ln))
        off, op, rest = int(mm.group(1)), mm.group(2), mm.group(3)
        ins = Instr(off, op, _parse_operands(op, rest), ln.strip())
        ins.idx = len(f.instrs)
        if off in f.at:
            raise Unsupported("duplicate offset %d in %s" % (off, name))
        f.at[off] = ins.idx
        f.instrs.append(ins)

    for ln in regs_txt.split("\n"):
        if not ln.strip():
            continue
        mm = re.match(r"^\s*(\d+) => (.*)$", ln)
        if not mm or int(mm.group(1)) != len(f.regs):
            raise Unsupported("register line not understood in %s: %r" % (name, ln))
        f.regs.append(mm.group(2).strip())

    cur = None
    for ln in const_txt.split("\n"):
        mm = re.match(r"^   (\d+) => (\w+) ?([\s\S]*)$", ln)
        if mm and int(mm.group(1)) == len(f.consts):
            cur = int(mm.group(1))
            f.consts[cur] = (mm.group(2), mm.group(3))
        elif cur is not None and f.consts[cur][0] in ("Char", "String"):
            f.consts[cur] = (f.consts[cur][0], f.consts[cur][1] + "\n" + ln)   # raw line break inside a literal
        elif ln.strip():
            raise Unsupported("constant line not understood in %s: %r" % (name, ln))

    for ln in loc_txt.split("\n"):
        mm = re.match(r"^\s*(\d+) => (\d+:\d+)$", ln)
        if mm:
            f.locations[int(mm.group(1))] = mm.group(2)

    _cross_check(f)
    return f


def _cross_check(f):
    """Operands printed inline must agree with the const pool section; jump targets must be
    instruction boundaries.  Both are printed from the same data, so a disagreement means the
    parser mis-read something."""
    nreg = len(f.regs)
    for ins in f.instrs:
        a = ins.a
        for k in ("d", "s", "l", "r"):
            if k in a and isinstance(a[k], int) and a[k] >= nreg:
                raise Unsupported("register r%d out of range in %s: %s" % (a[k], f.name, ins.raw))
        for r in a.get("args", ()):
            if r >= nreg:
                raise Unsupported("register r%d out of range in %s: %s" % (r, f.name, ins.raw))
        if ins.op in ("ConstInt32", "ConstInt64"):
            kind, payload = f.consts.get(a["cp"], (None, None))
            if kind != ins.op[5:] or int(payload) != a["v"]:
                raise Unsupported("const pool mismatch in %s: %s" % (f.name, ins.raw))
        if ins.op == "ConstChar":
            if f.consts.get(a["cp"], (None,))[0] != "Char":
                raise Unsupported("const pool mismatch in %s: %s" % (f.name, ins.raw))
        if ins.op == "Switch":
            kind, payload = f.consts.get(a["cp"], (None, None))
            mm = re.fullmatch(r"([0-9, ]*), default (\d+)", payload or "")
            if kind != "JumpTable" or not mm:
                raise Unsupported("jump table constant not understood in %s: %s" % (f.name, ins.raw))
            tg = [int(x) for x in mm.group(1).split(",")] if mm.group(1).strip() else []
            if tg != a["targets"] or int(mm.group(2)) != a["default"]:
                raise Unsupported("jump table mismatch in %s: %s" % (f.name, ins.raw))
            for t in tg + [a["default"]]:
                if t not in f.at:
                    raise Unsupported("switch target %d is not an instruction in %s" % (t, f.name))
        if ins.op in ("Jump", "JumpIfFalse", "JumpIfTrue", "JumpLoop"):
            if a["t"] not in f.at or a["t"] != ins.off + a["delta"]:
                raise Unsupported("jump target %d is not an instruction in %s" % (a["t"], f.name))
        if ins.op in INVOKES:
            kind, payload = f.consts.get(a["cp"], (None, None))
            if kind not in ("Fct", "Generic", "TraitObjectMethod"):
                raise Unsupported("callee constant not understood in %s: %s" % (f.name, ins.raw))
