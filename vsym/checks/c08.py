"""C08 -- every AArch64 instruction is encoded as the instruction that was requested.

Deciding step: Kani 0.68 / CBMC (cadical) over the compiled Rust code of /repo/dora-asm
(src/arm64.rs) with symbolic operands, against a hand-written reference decoder
(/verif/engines/kani_asm/arm64/src/decoder.rs) and the spec table /verif/spec/arm64.toml.
The harness crate is regenerated from the current working tree on every run
(/verif/engines/kani_asm/gen_arm64.py).  A failing post-assertion is turned into concrete
operands (Kani concrete playback), replayed against the natively compiled real assembler and
disassembled by llvm-mc-14; only a reproduced mismatch is reported.
"""
import json
import os
import re
import resource
import shutil
import subprocess
import sys
import time
from concurrent.futures import ThreadPoolExecutor

from .. import common

PID = "C08"
ENG = os.path.join(common.VERIF, "engines", "kani_asm")
sys.path.insert(0, ENG)
sys.path.insert(0, os.path.join(ENG, "arm64"))
import gen_arm64  # noqa: E402
import render  # noqa: E402

# VERIF_C08_WORKTAG: separate work directories (and no evidence file) for development / mutation runs
# that must not disturb a registered run
TAG = os.environ.get("VERIF_C08_WORKTAG", "")
CRATE = os.path.join(common.WORK, "kani_arm64" + TAG)
TD = os.path.join(common.WORK, "kani_arm64" + TAG + "_td")        # kani target dirs, one per worker
NATIVE_TD = os.path.join(common.WORK, "kani_arm64" + TAG + "_native")
LOCK = "kani_arm64" + TAG
LLVM_MC = shutil.which("llvm-mc-14") or shutil.which("llvm-mc")

KANI_FLAGS = ["-Z", "unstable-options", "-Z", "stubbing", "--no-memory-safety-checks", "--no-assertion-reach-checks"]
MEM_LIMIT = int(os.environ.get("VERIF_KANI_MEM_GB", "10")) << 30
HARNESS_TIMEOUT = os.environ.get("VERIF_KANI_TIMEOUT", "900")   # seconds per harness

TRUSTED = [
    "reference decoder engines/kani_asm/arm64/src/decoder.rs (written from the Arm ARM encoding tables; cross-checked against llvm-mc-14 on boundary tuples and random words in the thorough tier)",
    "spec table spec/arm64.toml (method -> requested instruction, legality predicates)",
    "Kani 0.68 compilation of the Rust sources to GOTO (debug semantics: overflow checks on), CBMC 6.11 + cadical",
    "llvm-mc-14 AArch64 disassembler as second opinion in replays and oracle validation",
]


def jobs():
    try:
        return max(1, int(os.environ.get("VERIF_JOBS", "16")))
    except ValueError:
        return 16


# ---------------------------------------------------------------------------------------------
# running Kani

def _limits():
    resource.setrlimit(resource.RLIMIT_AS, (MEM_LIMIT, MEM_LIMIT))


CHECK_RE = re.compile(r'^Check \d+: (\S+)\n\s+- Status: (\w+)\n\s+- Description: "(.*)"\n(?:\s+- Location: (.*)\n)?', re.M)


class HResult:
    def __init__(self, name):
        self.name = name
        self.checks = []       # (id, status, description, location)
        self.verdict = None    # SUCCESSFUL / FAILED / None
        self.time = None
        self.raw_tail = ""
        self.playback = []     # (check description, [bytes,...])
        self.cached = False

    def failed(self):
        return [c for c in self.checks if c[1] == "FAILURE"]

    def post(self):
        return [c for c in self.checks if "POST" in c[2]]

    def cover_ok(self):
        cs = [c for c in self.checks if "VACUITY" in c[2]]
        return bool(cs) and all(c[1] == "SATISFIED" for c in cs)

    def unwinding_failed(self):
        return [c for c in self.checks if "unwinding assertion" in c[2] and c[1] != "SUCCESS"]

    def undetermined(self):
        return [c for c in self.checks if c[1] not in ("SUCCESS", "FAILURE", "SATISFIED", "UNREACHABLE", "UNSATISFIABLE")]


def parse_playback(body):
    """[(check description, [byte vectors in kani::any() order])] from --concrete-playback=print output"""
    out = []
    desc = None
    vals = None
    for line in body.splitlines():
        m = re.match(r'^/// Check for `\w+`: "(.*)"\s*$', line)
        if m:
            desc = m.group(1)
            if desc.startswith('"') and desc.endswith('"'):
                desc = desc[1:-1]
            vals = None
            continue
        if desc is not None and "let concrete_vals" in line:
            vals = []
            continue
        if vals is not None:
            m = re.match(r'^\s*vec!\[([\d, ]*)\],?\s*$', line)
            if m:
                vals.append([int(x) for x in m.group(1).split(",") if x.strip()])
            elif re.match(r'^\s*\];', line):
                out.append((desc, vals))
                desc, vals = None, None
    return out


def parse_output(text):
    """split a (sequential) cargo-kani stdout into per-harness results"""
    res = {}
    parts = re.split(r'^Checking harness (\S+?)\.\.\.\s*$', text, flags=re.M)
    # parts: [pre, name1, body1, name2, body2, ...]
    for i in range(1, len(parts), 2):
        name, body = parts[i], parts[i + 1]
        r = HResult(name)
        for m in CHECK_RE.finditer(body):
            d = m.group(3)
            if d.startswith('"') and d.endswith('"'):
                d = d[1:-1]
            r.checks.append((m.group(1), m.group(2), d, m.group(4) or ""))
        m = re.search(r'^VERIFICATION:- (\w+)', body, re.M)
        r.verdict = m.group(1) if m else None
        m = re.search(r'^Verification Time: ([\d.]+)s', body, re.M)
        r.time = float(m.group(1)) if m else None
        r.raw_tail = body[-1500:]
        r.playback = parse_playback(body)
        res[name] = r
    return res


def run_partition(idx, names, extra, log, timeout_s):
    """one sequential `cargo kani` process over `names` with its own target dir"""
    td = os.path.join(TD, "w%02d" % idx)
    cmd = ["cargo", "kani", "--lib", "--target-dir", td, "--exact"]
    for n in names:
        cmd += ["--harness", "harnesses::" + n]
    cmd += KANI_FLAGS + ["--harness-timeout", "%ds" % timeout_s] + extra
    t = time.time()
    try:
        p = subprocess.run(cmd, cwd=CRATE, env=common.ENV, stdout=subprocess.PIPE, stderr=subprocess.PIPE, text=True,
                           timeout=timeout_s * len(names) + 1200, preexec_fn=_limits)
        out, err = p.stdout, p.stderr
    except subprocess.TimeoutExpired as e:
        out = (e.stdout or b"").decode() if isinstance(e.stdout, bytes) else (e.stdout or "")
        err = "TIMEOUT of the whole partition"
    with open(os.path.join(TD, "w%02d.%s.out" % (idx, log)), "w") as f:
        f.write(" ".join(cmd) + "\n" + out + "\n=== stderr ===\n" + err[-20000:])
    res = parse_output(out)
    return res, time.time() - t, err


def weight(h):
    """relative cost (measured): single-instruction harness ~ 8 s, composite / label ~ 40-130 s"""
    n = h["name"]
    if "_mem_" in n:
        return 14
    if "mov_imm" in n or n.startswith(("fwd__", "bwd__", "far__")):
        return 8
    if h["kind"] == "any":
        return 2
    return 1


# ---- content-keyed result cache ------------------------------------------------------------
# A harness result depends only on: the dora-asm sources, the generated harness crate, the Kani
# flags and the Kani version.  Conclusive per-harness results are stored under the SHA-256 of
# exactly that content; a later run with identical content reuses them (nothing is ever reused
# across different content; VERIF_C08_NOCACHE=1 disables the cache).
CACHE = os.path.join(common.WORK, "kani_arm64" + TAG + "_cache")


def content_key(extra):
    import hashlib
    h = hashlib.sha256()
    roots = [os.path.join(gen_arm64.asm_dir(), "src"), os.path.join(CRATE, "src")]
    files = [os.path.join(gen_arm64.asm_dir(), "Cargo.toml"), os.path.join(CRATE, "Cargo.toml"), os.path.join(CRATE, "Cargo.lock")]
    for r in roots:
        for dp, _, fs in sorted(os.walk(r)):
            files += [os.path.join(dp, f) for f in sorted(fs)]
    for f in files:
        h.update(f.encode())
        try:
            h.update(open(f, "rb").read())
        except OSError:
            h.update(b"<missing>")
    h.update(" ".join(KANI_FLAGS + list(extra)).encode())
    try:
        h.update(subprocess.run(["cargo", "kani", "--version"], stdout=subprocess.PIPE, stderr=subprocess.STDOUT, env=common.ENV, timeout=120).stdout)
    except Exception:
        pass
    return h.hexdigest()[:24]


def cache_load(key, name):
    if os.environ.get("VERIF_C08_CACHE") != "1":      # the content-keyed result cache is a development aid: off by default
        return None
    p = os.path.join(CACHE, key, name + ".json")
    if not os.path.exists(p):
        return None
    try:
        d = json.load(open(p))
    except ValueError:
        return None
    r = HResult(name)
    r.checks = [tuple(c) for c in d["checks"]]
    r.verdict, r.time, r.raw_tail = d["verdict"], d["time"], d.get("raw_tail", "")
    r.playback = [(a, b) for a, b in d["playback"]]
    r.cached = True
    return r


def cache_store(key, name, r):
    if r.verdict is None or r.time is None:
        return  # timeouts / crashes are never cached
    os.makedirs(os.path.join(CACHE, key), exist_ok=True)
    with open(os.path.join(CACHE, key, name + ".json"), "w") as f:
        json.dump({"checks": r.checks, "verdict": r.verdict, "time": r.time, "raw_tail": r.raw_tail, "playback": r.playback}, f)


def run_kani(hs, log, extra=()):
    """hs: harness dicts from the generator.  Returns {name: HResult}, wall seconds.
    Harnesses without a verdict (timeout under load) are retried once, alone, with 4x the timeout."""
    key = content_key(extra)
    cached = {}
    for h in hs:
        r = cache_load(key, h["name"])
        if r is not None:
            cached[h["name"]] = r
    todo = [h for h in hs if h["name"] not in cached]
    if cached:
        common.log("[C08] %d of %d harness results reused from the content-keyed cache %s" % (len(cached), len(hs), key))
    res, wall = ({}, 0.0)
    if todo:
        res, wall = run_kani_uncached(todo, log, extra, int(HARNESS_TIMEOUT))
        missing = [h for h in todo if res.get(h["name"]) is None or res[h["name"]].verdict is None or res[h["name"]].time is None]
        if missing and len(missing) <= 40:
            common.log("[C08] retrying %d harnesses without verdict with a 4x timeout" % len(missing))
            res2, wall2 = run_kani_uncached(missing, log + "-retry", extra, 4 * int(HARNESS_TIMEOUT))
            res.update(res2)
            wall += wall2
        for h in todo:
            if h["name"] in res:
                cache_store(key, h["name"], res[h["name"]])
    res.update(cached)
    return res, wall


def run_kani_uncached(hs, log, extra, timeout_s):
    os.makedirs(TD, exist_ok=True)
    n = min(jobs(), max(1, len(hs)))
    parts = [[] for _ in range(n)]
    load = [0] * n
    for h in sorted(hs, key=lambda h: -weight(h)):
        i = load.index(min(load))
        parts[i].append(h["name"])
        load[i] += weight(h)
    t = time.time()
    results = {}
    errs = []
    with ThreadPoolExecutor(max_workers=n) as ex:
        futs = [ex.submit(run_partition, i, p, list(extra), log, timeout_s) for i, p in enumerate(parts) if p]
        for f in futs:
            r, _, err = f.result()
            results.update(r)
            if "error: could not compile" in err or "error[E" in err:
                errs.append(err[-3000:])
    for d in os.listdir(TD):
        if os.path.isdir(os.path.join(TD, d)):
            shutil.rmtree(os.path.join(TD, d), ignore_errors=True)   # ~0.6 GB each; only the *.out logs are kept
    if errs:
        raise common.Inconclusive("harness crate does not compile under Kani:\n" + errs[0])
    short = {}
    for k, v in results.items():
        short[k.split("::")[-1]] = v
    return short, time.time() - t


# ---------------------------------------------------------------------------------------------
# native replay

def build_native():
    with common.Lock(LOCK + "_native"):
        p = common.run(["cargo", "build", "--offline", "-q", "--bin", "arm64-replay", "--target-dir", NATIVE_TD],
                       cwd=CRATE, timeout=1800, check=False)
        if p.returncode != 0:
            raise common.Inconclusive("native replay binary does not build:\n" + p.stderr[-3000:])
    return os.path.join(NATIVE_TD, "debug", "arm64-replay")


def native(binary, args, stdin=None):
    p = subprocess.run([binary] + [str(a) for a in args], stdout=subprocess.PIPE, stderr=subprocess.PIPE, text=True,
                       input=stdin, timeout=600)
    out = []
    for l in p.stdout.splitlines():
        l = l.strip()
        if l.startswith("{"):
            out.append(json.loads(l))
    return out


def llvm_mc(words, no_aliases=True):
    """disassemble 32-bit words; returns one text per word ('<invalid>' when llvm-mc rejects it)"""
    if not LLVM_MC:
        raise common.Inconclusive("llvm-mc not found")
    res = []
    CH = 2000
    for i in range(0, len(words), CH):
        chunk = words[i:i + CH]
        txt = "\n".join(" ".join("0x%02x" % ((w >> (8 * b)) & 255) for b in range(4)) for w in chunk) + "\n"
        cmd = [LLVM_MC, "--disassemble", "-triple=aarch64", "-mattr=+lse,+v8.1a,+fp-armv8,+neon,+fullfp16"]
        if no_aliases:
            cmd += ["-M", "no-aliases"]
        p = subprocess.run(cmd, input=txt, stdout=subprocess.PIPE, stderr=subprocess.PIPE, text=True, timeout=600)
        lines = [l.strip() for l in p.stdout.splitlines() if l.strip() and not l.strip().startswith(".text")]
        bad = set()
        for m in re.finditer(r'<stdin>:(\d+):\d+: warning: invalid instruction encoding', p.stderr):
            bad.add(int(m.group(1)) - 1)
        it = iter(lines)
        for j in range(len(chunk)):
            if j in bad:
                res.append("<invalid>")
            else:
                res.append(re.sub(r'\s+', ' ', next(it, "<missing>")))
    return res


def decode_args(info, method, kind, vals):
    """concrete-playback byte vectors -> operand values in harness declaration order"""
    codes = list(info["codes"][method])
    if kind in ("fwd", "bwd", "far"):
        codes = codes + [["k", "u32"]]
    out = []
    if len(vals) < len(codes):
        return None
    for (n, t), bs in zip(codes, vals):
        v = int.from_bytes(bytes(bs), "little", signed=t.startswith("i"))
        out.append(v)
    if kind in ("fwd", "bwd", "far"):
        d = {"fwd": 0, "bwd": 1, "far": 2}[kind]
        out = out[:-1] + [d, out[-1]]
    return out


def describe(info, method, kind, args):
    codes = [c[0] for c in info["codes"][method]]
    if kind in ("fwd", "bwd", "far"):
        codes = codes + ["dir", "filler_words"]
    return "%s(%s)" % (method, ", ".join("%s=%s" % (n, a) for n, a in zip(codes, args)))


def replay_one(binary, info, method, kind, args):
    """run the real assembler natively; returns (reproduced: bool, what: str, obj)"""
    rs = native(binary, ["replay", method, kind] + list(args))
    if not rs or "error" in rs[0]:
        raise common.Inconclusive("native replay of %s %s failed: %s" % (method, args, rs))
    r = rs[0]
    call = describe(info, method, kind, args)
    obj = {"method": method, "kind": kind, "args": [str(a) for a in args], "call": call, "asm_src": info["asm_src"]}
    if r["refused"]:
        if r["legal"] and r["contract"]:
            return True, "%s: legal operands are refused (panic: %s)" % (call, r["panic"]), dict(obj, native=r)
        return False, "refused natively", dict(obj, native=r)
    words = r["words"]
    dis = llvm_mc(words, no_aliases=False) if words else []
    dis_na = llvm_mc(words, no_aliases=True) if words else []
    obj["native"] = r
    obj["llvm_mc"] = dis
    if r["ok"] and r["legal"]:
        return False, "native run satisfies the post-condition", obj
    # second opinion: llvm-mc's text must differ from the rendering of the expected instruction
    exp = r.get("expected")
    if exp is not None and r["legal"] and len(words) == 1:
        want = render.render(exp)
        if render.same(want, dis_na[0], dis[0]):
            raise common.Inconclusive("reference decoder rejects %s -> %s but llvm-mc prints the expected text '%s' (decoder/spec defect)"
                                      % (call, ["%08x" % w for w in words], want))
    hexw = " ".join("%08x" % w for w in words)
    if r.get("note"):
        call += " [" + r["note"] + "]"
    if not r["legal"]:
        what = "%s: operands that cannot be encoded are accepted; emitted %s = [%s]" % (call, hexw, "; ".join(dis))
    else:
        want = render.render(exp) if exp else "(sequence semantics)"
        what = "%s: emitted %s = [%s], requested %s" % (call, hexw, "; ".join(dis), want)
    return True, what, obj


# ---------------------------------------------------------------------------------------------
# verdicts

REFUSAL_HINT = re.compile(r'assertion failed|attempt to|unwrap|expect|unreachable|not implemented|placeholder message|index out of bounds|illegal value|overflow|explicit panic|unbound label')


# harness kinds in which a panic inside the assembler is a refusal (only the post-assertions count):
# H_any, and the far label harness (a distance out of the instruction's range must be refused)
ANY_STYLE = ("any", "far")


def classify(h, r):
    """-> ('pass'|'fail'|'inconclusive', reason)"""
    if r is None or r.verdict is None:
        return "inconclusive", "no verdict (timeout / out of memory / tool crash)"
    if r.unwinding_failed():
        return "inconclusive", "unwinding assertion failed: " + r.unwinding_failed()[0][2]
    if r.undetermined():
        return "inconclusive", "undetermined checks: " + r.undetermined()[0][2]
    posts = r.post()
    if not posts:
        return "inconclusive", "post-assertions missing from the output"
    if h["kind"] in ANY_STYLE:
        if any(c[1] == "FAILURE" for c in posts):
            return "fail", "post-assertion fails"
        if not all(c[1] == "SUCCESS" for c in posts):
            return "inconclusive", "post-assertion status " + str([c[1] for c in posts])
        if not r.cover_ok():
            return "inconclusive", "vacuous: no accepted call is reachable"
        return "pass", ""
    if r.failed():
        return "fail", "; ".join(sorted(set(c[2] for c in r.failed()))[:4])
    if r.verdict != "SUCCESSFUL":
        return "inconclusive", "verdict " + str(r.verdict)
    if not r.cover_ok():
        return "inconclusive", "vacuity witness not satisfied"
    return "pass", ""


def main(tier):
    t0 = time.time()
    common.ensure_dirs()
    rep = common.Reporter(PID)
    with common.Lock(LOCK):
        info = gen_arm64.generate(CRATE)
        hs = [h for h in info["harnesses"] if tier == "thorough" or h["tier"] == "quick"]
        only = os.environ.get("VERIF_C08_ONLY")
        if only:
            rx = re.compile(only)
            hs = [h for h in hs if rx.search(h["name"])]
        if not hs:
            raise common.Inconclusive("no harness generated (spec/arm64.toml joins with no method of %s)" % info["asm_src"])
        common.log("[C08] %d methods in source, %d specified, %d unspecified, %d harnesses, %d jobs" % (
            info["methods_in_source"], len(info["specified"]), len(info["unspecified"]) + len(info["signature_changed"]), len(hs), jobs()))
        binary = build_native()
        results, kani_wall = run_kani(hs, "main")
        verdicts = {}
        for h in hs:
            verdicts[h["name"]] = classify(h, results.get(h["name"]))
        failing = [h for h in hs if verdicts[h["name"]][0] == "fail"]
        inconclusive = [(h["name"], verdicts[h["name"]][1]) for h in hs if verdicts[h["name"]][0] == "inconclusive"]
        # counterexamples -> concrete operands -> native replay
        violations = []
        not_reproduced = []
        if failing:
            common.log("[C08] %d failing harnesses, extracting counterexamples" % len(failing))
            pres, _ = run_kani(failing, "cex", extra=["-Z", "concrete-playback", "--concrete-playback=print"])
            for h in failing:
                pr = pres.get(h["name"])
                if pr is None or not pr.playback:
                    inconclusive.append((h["name"], "no counterexample values could be extracted"))
                    continue
                # Every set of values Kani printed is a candidate (Kani prints one playback test per
                # DISTINCT value vector, so the witness of the violated post-condition may be filed under
                # another check, e.g. the vacuity cover); the native replay decides.  Priority: the CEX
                # cover witness, the failing post-assertion, other failing checks, the vacuity witness.
                def prio(p):
                    d = p[0]
                    return 0 if "CEX" in d else 1 if "POST" in d else 3 if "VACUITY" in d else 2
                wanted = sorted(pr.playback, key=prio)
                reproduced = False
                seen = set()
                for desc, vals in wanted:
                    args = decode_args(info, h["method"], h["kind"], vals)
                    if args is None or tuple(args) in seen:
                        continue
                    seen.add(tuple(args))
                    ok, what, obj = replay_one(binary, info, h["method"], h["kind"], args)
                    if ok:
                        reproduced = True
                        obj["harness"] = h["name"]
                        obj["failed_check"] = desc
                        violations.append((h, what, obj))
                        break
                if not reproduced:
                    not_reproduced.append(h["name"])
        for h, what, obj in violations:
            rep.violation("%s/%s" % (h["method"], h["kind"]), what, obj)
        oracle = oracle_validation(binary, info) if tier == "thorough" and not only else None

        discharged = sum(1 for h in hs if verdicts[h["name"]][0] == "pass")
        times = sorted((results[h["name"]].time or 0.0) for h in hs if h["name"] in results)
        refusal_overflow = sorted({h["method"] for h in hs if h["kind"] in ANY_STYLE and h["name"] in results
                                   and any("overflow" in c[2] for c in results[h["name"]].failed())})
        # an obligation that fails exactly as an *open known finding* lists is reported as KNOWN-FINDING and is not
        # part of what this run claims proven: it is excluded from `obligations` and named separately
        known_hs = sorted(h["name"] for h in failing) if (failing and not rep.new and not not_reproduced) else []
        cov = {
            "obligations": len(hs) - len(known_hs),
            "obligations_excluded_as_open_known_findings": known_hs,
            "discharged": discharged,
            "checker_cmd": "cargo kani --lib --exact --harness harnesses::<h> " + " ".join(KANI_FLAGS) + "  (CBMC 6.11, cadical; unwinding assertions on)",
            "trusted_base": TRUSTED,
            "functions_encoded": len({h["method"] for h in hs}),
            "methods_decided_in_this_tier": sorted({h["method"] for h in hs}),
            "methods_decided_by_the_thorough_tier_only": sorted({m for m in info["specified"]} - {h["method"] for h in hs}) if tier == "quick" else [],
            "harness_kinds_in_this_tier": {k: sum(1 for h in hs if h["kind"] == k) for k in sorted({h["kind"] for h in hs})},
            "methods_in_source": info["methods_in_source"],
            "unspecified": info["unspecified"] + info["signature_changed"],
            "not_instruction_methods": info["not_instruction"],
            "isa_legal_but_refused_by_contract": info["contracts"],
            "refusals_that_rely_on_overflow_checks": refusal_overflow,
            "bounds": {
                "registers": "all 33 API values (R0..R30, REG_ZERO, REG_SP); NeonRegister 0..31",
                "immediates": "full parameter type (u32/u64/i32/i64)",
                "label_near_filler_words": gen_arm64.NEAR,
                "label_far_distance_bytes": "< 2^31 forward (label bound via set_position; natively replayed with real filler)",
                "unwind": gen_arm64.UNWIND,
            },
            "queries": sum(len(r.checks) for r in results.values()),
            "solver_time_s": {"sum": round(sum(times), 1), "max": round(times[-1], 1) if times else 0,
                              "median": round(times[len(times) // 2], 1) if times else 0, "kani_wall": round(kani_wall, 1)},
            "results_reused_from_content_keyed_cache": sum(1 for h in hs if h["name"] in results and results[h["name"]].cached),
            "vacuity_witnesses": sum(1 for h in hs if h["name"] in results and results[h["name"]].cover_ok()),
            "failing_harnesses": [{"harness": h["name"], "why": verdicts[h["name"]][1]} for h in failing],
            "inconclusive_harnesses": [{"harness": n, "why": w} for n, w in inconclusive],
            "counterexamples_not_reproduced": not_reproduced,
            "known_findings_hit": [k for k, _ in rep.known_hit],
            "oracle_validation": oracle,
            "samples": [h["name"] for h in hs[:6]] + [v[1] for v in violations[:4]],
            "outside_the_claim": [
                "instruction selection in the macro assemblers, trampolines",
                "the Dora-language assembler pkgs/boots/assembler/arm64.dora (not covered)",
                "backward label references further than %d words; code buffers of 2 GiB and more" % gen_arm64.NEAR,
                "register aliasing preconditions of composite helpers (scratch != base, scratch != stored register)",
                "release builds without overflow checks (Kani models the debug semantics)",
            ],
        }
        assumptions = [
            "the reference decoder and the spec table are correct (cross-validated against llvm-mc-14, not proved)",
            "arithmetic overflow panics (debug / overflow-checks=on semantics) count as refusals",
            "ldr_mem_*/str_mem_*: scratch differs from base (and from the stored register)",
        ]
        if TAG:
            with open(os.path.join(CRATE, "evidence.json"), "w") as f:
                json.dump({"coverage": cov, "wall_s": time.time() - t0, "violations": len(rep.new)}, f, indent=1, default=str)
        else:
            common.write_evidence(PID, tier, "proof", cov, assumptions, time.time() - t0, violations=len(rep.new))
        for n, w in inconclusive[:10]:
            common.log("  inconclusive %s: %s" % (n, w))
        if not_reproduced:
            raise common.Inconclusive("counterexamples of %s do not reproduce natively" % not_reproduced[:5])
        if inconclusive:
            raise common.Inconclusive("%d harnesses inconclusive, e.g. %s: %s" % (len(inconclusive), inconclusive[0][0], inconclusive[0][1]))
        return rep.exit_code()


# ---------------------------------------------------------------------------------------------
# oracle validation (not the deciding step)

def oracle_validation(binary, info):
    """boundary tuples of the spec run natively; llvm-mc text must equal the rendering of the spec's
    expected instruction.  A mismatch means spec/decoder/renderer are wrong -> Inconclusive."""
    rs = native(binary, ["tuples"])
    bad = []
    words, exps = [], []
    for r in rs:
        if "error" in r:
            bad.append(str(r))
            continue
        if r["refused"] or not r["legal"]:
            if r["contract"] and r["legal"]:
                bad.append("tuple refused: %s %s (%s)" % (r["method"], r["args"], r["panic"]))
            continue
        if r.get("expected") is not None and len(r["words"]) == 1:
            words.append(r["words"][0])
            exps.append(r)
    dis = llvm_mc(words, True)
    dis_al = llvm_mc(words, False)
    agree = 0
    for r, d, d2 in zip(exps, dis, dis_al):
        # an ok tuple: decoded == expected (or its accepted equivalent); what is validated here is that
        # llvm-mc reads the same instruction out of the word as the reference decoder + spec do
        shown = r["decoded"][0] if r["ok"] and r["decoded"][0] is not None else r["expected"]
        if render.same(render.render(shown), d, d2):
            agree += 1
        elif r["ok"]:
            bad.append("%s%s: word %08x llvm-mc '%s' vs spec '%s'" % (r["method"], r["args"], r["words"][0], d, render.render(shown)))
    # random words: reference decoder vs llvm-mc
    import random
    rnd = random.Random(common.seed() + 8)
    rw = [rnd.getrandbits(32) for _ in range(int(os.environ.get("VERIF_C08_RANDOM_WORDS", "60000")))]
    # neighbours of the words dora-asm really emits: 1..3 flipped bits (register / immediate / opcode fields)
    for wd in words:
        for _ in range(12):
            x = wd
            for _ in range(rnd.randint(1, 3)):
                x ^= 1 << rnd.randrange(32)
            rw.append(x)
    dec = native(binary, ["decode-stdin"], stdin="\n".join(str(w) for w in rw) + "\n")
    valid = [(d["word"], d["decoded"]) for d in dec if d["decoded"] is not None]
    dis = llvm_mc([w for w, _ in valid], True)
    dis_al = llvm_mc([w for w, _ in valid], False)
    ragree = 0
    for (w, d), t, t2 in zip(valid, dis, dis_al):
        if render.same(render.render(d), t, t2):
            ragree += 1
        else:
            bad.append("random word %08x: decoder '%s' vs llvm-mc '%s'" % (w, render.render(d), t))
    out = {"tuples_run": len(rs), "tuples_compared_with_llvm_mc": len(exps), "tuples_agree": agree,
           "random_words": len(rw), "random_words_decoded": len(valid), "random_words_agree": ragree,
           "disagreements": bad[:20]}
    if bad:
        common.log("[C08] oracle validation disagreements:\n  " + "\n  ".join(bad[:20]))
        raise common.Inconclusive("oracle validation: spec/decoder disagree with llvm-mc in %d cases, e.g. %s" % (len(bad), bad[0]))
    return out


def replay(path):
    obj = json.load(open(path))["replay"]
    with common.Lock(LOCK):
        if obj.get("asm_src") and os.path.dirname(os.path.dirname(obj["asm_src"])) != gen_arm64.asm_dir():
            common.log("[C08] note: replaying against %s (recorded: %s)" % (gen_arm64.asm_dir(), obj["asm_src"]))
        info = gen_arm64.generate(CRATE)
        if obj["method"] not in info["codes"]:
            raise common.Inconclusive("method %s no longer specified/present" % obj["method"])
        binary = build_native()
        ok, what, o = replay_one(binary, info, obj["method"], obj["kind"], obj["args"])
    print(("REPRODUCED: " if ok else "not reproduced: ") + what)
    print(json.dumps({"llvm_mc": o.get("llvm_mc"), "native": o.get("native")}, default=str)[:3000])
    return 1 if ok else 0
