"""C03 harnesses: one inductive step of ObjectHashMap (runtime/waitlists.rs), capacity 8.

Slots are fully symbolic: each key is a 64-bit symbol (0 = EMPTY, 1 = DELETED, > 1 live), values are symbolic
u64, `entries`, the table's gc epoch and the runtime's epoch are symbols."""
import z3

from ..common import Inconclusive
from ..mir import models_gc as G
from ..mir.interp import Cell, Int, Opaque, Ref, Tup
from ..mir.models import deref
from .c03 import H, RT
from .c03_units import U, addr_t, bv, ule, ult, num

WL = RT + "runtime/waitlists.rs"
CAP = 8

INVARIANT_TEXT = (
    "Inv(T), capacity N = 8 (EMPTY = key 0, DELETED = key 1, live = key > 1; home(k) = k & (N-1)): "
    "(I1) capacity == data.len() == N; "
    "(I2) entries == number of live slots; "
    "(I3) live keys are pairwise distinct; "
    "(I4) probe chains are unbroken: for every live slot i no slot on the cyclic walk home(key_i), home+1, .., i-1 is EMPTY; "
    "(I5) entries <= N - N/4 (= 6; overflow() makes insert rehash to a larger table before a 7th entry); "
    "(I6) at least one slot is EMPTY (probing for an absent key terminates); "
    "real callers (family A): every live key and every argument key is the address of a heap object: a multiple of 8 and >= 8, hence home == 0 at capacity 8, and "
    "(I7) the non-EMPTY slots form a prefix 0..n-1 of the table with (I8) n <= 6.  I1-I8 is inductive under get / insert (entries <= 5, no rehash) / remove (entries >= 2, no rehash) "
    "and is re-established by rehash (epoch change from ANY state with I2, I3, I5 and aligned keys: keys rewritten in place by the collector; underflow; overflow to capacity 16, checked with I1-I6 at N = 16). "
    "Family B (arbitrary, unaligned keys, all 8 home slots, wrap-around): from I1-I6 one step gives I1-I5 and the functional result, but NOT I6: "
    "overflow() counts live entries only, so tombstones can use up the last EMPTY slot (6 live + 2 DELETED at capacity 8); with 8-aligned keys this needs capacity >= 16 (homes 0 and 8), which is outside this check. "
    "Functional step (all families, probe key q universally quantified): get(k) returns Some(v) iff a live slot holds k, with its value, and changes nothing; "
    "insert(k, v) makes lookup(k) == v, keeps lookup(q) for q != k, entries += [k was absent]; remove(k) returns the old value or None, makes k absent, keeps the rest, entries -= [k was present]; "
    "a following get(k) returns Some(v) / None / the same result."
)


INVARIANT_TEXT_COUNTED = (
    "THIS TREE COUNTS TOMBSTONES (field ObjectHashMap::tombstones): Inv(T), capacity N = 8 (EMPTY = key 0, DELETED = key 1, live = key > 1; home(k) = k & (N-1)): "
    "(I1) capacity == data.len() == N; (I2) entries == number of live slots; (I3) live keys pairwise distinct; "
    "(I4) for every live slot i no slot on the cyclic walk home(key_i) .. i-1 is EMPTY; (I5) entries <= N - N/4; "
    "(I9) tombstones == number of DELETED slots; (I10) entries + tombstones <= N - N/4 (= 6), hence (I6) at least N/4 = 2 slots are EMPTY and every probe terminates. "
    "I1-I6, I9, I10 is inductive for ARBITRARY keys (family B, all 8 home slots, wrap-around) under get / insert (entries + tombstones <= 5: no rehash) / remove (entries >= 2), "
    "and is re-established by every rehash (epoch change, underflow, overflow: entries + tombstones + 1 > 6 rebuilds with capacity_for_entries(entries + 1), i.e. 8 or 16); "
    "the 8-alignment of keys (family A, with I7 prefix / I8) is kept as an additional family but is no longer needed for termination. Functional step as in the uncounted version."
)


def bounds_text(tier):
    nb, nc, ng = limits(tier)
    return ("capacity 8; family A (8-aligned keys, full invariant): all states; family B (arbitrary keys): at most %d non-EMPTY slots (live or DELETED, at symbolic positions); "
            "rehash on epoch change: 8-aligned keys, invariant states with at most %d live entries; arbitrary keys rewritten in place (chains broken) with at most %d live entries, tombstones anywhere; underflow rehash (entries < 2) and overflow rehash (entries == 6 -> capacity 16): all states of the invariant; "
            "probing: at most 8 iterations (a longer probe is reported as non-termination)" % (nb, nc, ng))


def limits(tier):
    """(non-EMPTY slots in family B, live entries in the aligned epoch rehash, live entries in the arbitrary-key epoch rehash)"""
    return (4, 3, 1) if tier == "quick" else (7, 6, 2)


def live(k):
    return z3.UGT(k, bv(1))


def cnt(conds):
    """number of true conditions (at most 16) as a 64-bit term, summed in 8 bits"""
    one, zero = z3.BitVecVal(1, 8), z3.BitVecVal(0, 8)
    return z3.ZeroExt(56, z3.Sum([z3.If(c, one, zero) for c in conds])) if conds else bv(0)


def present(K, q):
    return z3.Or(*[k == q for k in K])


def value(K, V, q):
    acc = bv(0)
    for k, v in zip(reversed(K), reversed(V)):
        acc = z3.If(k == q, v, acc)
    return acc


def inv_parts(K, n, aligned, tomb=None):
    """named parts of the invariant for a table with keys K (python list of terms, len N) and entries n;
    tomb: the table's tombstone counter, for trees that have one"""
    N = len(K)
    P = {}
    if tomb is not None:
        P["I9 tombstones == DELETED slots"] = tomb == cnt([k == 1 for k in K])
        P["I10 entries + tombstones <= capacity - capacity/4"] = z3.And(ule(n, N), ule(tomb, N), ule(n + tomb, N - N // 4))
    P["I2 entries == live slots"] = n == cnt([live(k) for k in K])
    P["I3 live keys distinct"] = z3.And(*[z3.Implies(z3.And(live(K[i]), live(K[j])), K[i] != K[j]) for i in range(N) for j in range(i + 1, N)])
    ch = []
    for i in range(N):
        dist = (bv(i) - (K[i] & (N - 1))) & (N - 1)
        for d in range(N - 1):
            ch.append(z3.Implies(z3.And(live(K[i]), ult(d, dist)), K[(i - 1 - d) % N] != 0))
    P["I4 probe chains unbroken"] = z3.And(*ch)
    P["I5 entries <= capacity - capacity/4"] = ule(n, N - N // 4)
    P["I6 an EMPTY slot exists"] = z3.Or(*[k == 0 for k in K])
    if aligned:
        P["I7 non-EMPTY slots form a prefix"] = z3.And(*[z3.Implies(K[i] != 0, K[i - 1] != 0) for i in range(1, N)])
        P["I8 at most 6 non-EMPTY slots"] = ule(cnt([k != 0 for k in K]), 6)
        P["live keys are multiples of 8"] = z3.And(*[z3.Implies(live(k), k & 7 == 0) for k in K])
    return P


def harnesses(E, tier):
    NB, NC, NG = limits(tier)
    # a tree whose table counts its tombstones (the fix of finding table/tombstones-fill-table/cap16) is checked against the
    # stronger invariant I9/I10, which makes "an EMPTY slot exists" inductive for arbitrary keys as well
    TOMB = "tombstones" in E.L.fields(WL, "ObjectHashMap")
    global INVARIANT_TEXT
    if TOMB:
        INVARIANT_TEXT = INVARIANT_TEXT_COUNTED
    ins = [("k%d" % i, "usize") for i in range(CAP)] + [("v%d" % i, "usize") for i in range(CAP)] + \
          [("entries", "usize"), ("epoch", "usize"), ("rt", "usize"), ("key", "usize"), ("val", "usize")] + ([("tomb", "usize")] if TOMB else [])
    tomb_of = (lambda I: I["tomb"]) if TOMB else (lambda I: None)
    load = (lambda I: I["entries"] + I["tomb"]) if TOMB else (lambda I: I["entries"])

    def KV(I):
        return [I["k%d" % i] for i in range(CAP)], [I["v%d" % i] for i in range(CAP)]

    def mk(it, I):
        K, V = KV(I)
        ents = [E.L.make(WL, "HashMapEntry", key=E.addr(k), value=Int(U(v), "u64")) for k, v in zip(K, V)]
        extra = {"tombstones": Int(U(I["tomb"]), "usize")} if TOMB else {}
        tbl = E.L.make(WL, "ObjectHashMap", data=G.mk_box_slice(ents), entries=Int(U(I["entries"]), "usize"),
                       capacity=Int(CAP, "usize"), gc_epoch=Int(U(I["epoch"]), "usize"), **extra)
        it.hooks["get_runtime"] = lambda it_, ctx_, fn, args: Ref(Cell(Opaque("runtime"), "rt"))
        it.hooks["Runtime::gc_epoch"] = lambda it_, ctx_, fn, args: Int(U(I["rt"]), "usize")
        return Cell(tbl, "table")

    fi = lambda n: E.L.index(WL, "ObjectHashMap", n)
    ei = lambda n: E.L.index(WL, "HashMapEntry", n)

    def read(cell, ctx):
        t = cell.v
        els = G.box_elems(t.fields[fi("data")])
        K2 = [addr_t(e.fields[ei("key")]) for e in els]
        V2 = []
        for e in els:
            v = e.fields[ei("value")]
            V2.append(v.t if isinstance(v, Int) else ctx.fresh("uninit", "u64").t)
        return K2, V2, t.fields[fi("entries")].t, t.fields[fi("capacity")].t, t.fields[fi("gc_epoch")].t

    def read_tomb(cell, O):
        if TOMB:
            O["tombstones"] = cell.v.fields[fi("tombstones")].t

    def optval(r):
        if r.variant == "Some":
            v = deref(r.fields[0])
            if not isinstance(v, Int):
                raise Inconclusive("table value %r" % (v,))
            return True, v.t
        return False, bv(0)

    def sym(op):
        def f(ctx, it, I):
            cell = mk(it, I)
            me, k = Ref(cell), E.addr(I["key"])
            O = {"res_some": False, "res_val": bv(0)}
            if op == "get":
                O["res_some"], O["res_val"] = optval(it.call(ctx, "ObjectHashMap::get", [me, k]))
            elif op == "insert":
                it.call(ctx, "ObjectHashMap::insert", [me, k, Int(I["val"], "u64")])
            else:
                O["res_some"], O["res_val"] = optval(it.call(ctx, "ObjectHashMap::remove", [me, k]))
            O["get2_some"], O["get2_val"] = optval(it.call(ctx, "ObjectHashMap::get", [me, k]))
            O["keys"], O["vals"], O["entries"], O["capacity"], O["epoch"] = read(cell, ctx)
            read_tomb(cell, O)
            return O
        return f

    def nat(op):
        def cmd(v):
            slots = ",".join("%d:%d" % (v["k%d" % i], v["v%d" % i]) for i in range(CAP))
            o = "%s:%d" % (op, v["key"]) + (":%d" % v["val"] if op == "insert" else "")
            return ["table", slots, ("%d/%d" % (v["entries"], v["tomb"])) if TOMB else v["entries"], v["epoch"], v["rt"], o, "get:%d" % v["key"]]

        def opt(t):
            return (True, num(t[5:])) if t.startswith("Some:") else (False, 0)

        def parse(r):
            o = {}
            o["res_some"], o["res_val"] = opt(r["op0"])
            o["get2_some"], o["get2_val"] = opt(r["op1"])
            o["keys"] = [num(x) for x in r["keys"].split(",")]
            o["vals"] = [0 if x == "-" else num(x) for x in r["values"].split(",")]
            o["entries"], o["capacity"], o["epoch"] = num(r["entries"]), num(r["capacity"]), num(r["gc_epoch"])
            if TOMB:
                o["tombstones"] = num(r["tombstones"])
            return o
        return cmd, parse

    def functional(op, I, O):
        K, V = KV(I)
        K2, V2 = O["keys"], O["vals"]
        key, val, n = I["key"], I["val"], I["entries"]
        q = z3.BitVec("q!probe", 64)
        was = present(K, key)
        some = O["res_some"]
        c = []
        if op in ("get", "remove"):
            c.append(("%s(k) does not return Some exactly when a live slot holds k" % op, z3.BoolVal(bool(some)) == was))
            if some:
                c.append(("%s(k) returns a value that is not the one stored for k" % op, O["res_val"] == value(K, V, key)))
        if op == "get":
            pres2 = lambda q: present(K, q)
            val2 = lambda q: value(K, V, q)
            n2 = n
            g2 = ("a second get(k) answers differently", z3.And(z3.BoolVal(O["get2_some"] == some), O["get2_val"] == O["res_val"]))
        elif op == "insert":
            pres2 = lambda q: z3.Or(q == key, present(K, q))
            val2 = lambda q: z3.If(q == key, val, value(K, V, q))
            n2 = n + z3.If(was, bv(0), bv(1))
            g2 = ("get(k) after insert(k, v) does not return Some(v)", z3.And(z3.BoolVal(O["get2_some"]), O["get2_val"] == val))
        else:
            pres2 = lambda q: z3.And(q != key, present(K, q))
            val2 = lambda q: value(K, V, q)
            n2 = n - z3.If(was, bv(1), bv(0))
            g2 = ("get(k) after remove(k) does not return None", z3.BoolVal(not O["get2_some"]))
        c.append(("after %s: some key is present that should not be / absent that should be present" % op, z3.Implies(live(q), present(K2, q) == pres2(q))))
        c.append(("after %s: the value stored for some key changed / is wrong" % op, z3.Implies(z3.And(live(q), present(K2, q)), value(K2, V2, q) == val2(q))))
        c.append(("after %s: entries is not updated consistently" % op, O["entries"] == n2))
        c.append(g2)
        return c

    def post_inv(I, O, aligned, skip=()):
        P = inv_parts(O["keys"], O["entries"], aligned and len(O["keys"]) == CAP, O.get("tombstones"))
        c = [("I1 capacity field != data.len()", O["capacity"] == len(O["keys"]))]
        for name, cond in P.items():
            if not any(name.startswith(s) for s in skip):
                c.append(("invariant broken after the step: " + name, cond))
        return c

    def base_spec(op, I, O, what):
        if O["hang"]:
            return [("%s: probing does not terminate (more than a full round over the table)" % what, False)]
        if O["panic"]:
            return [("%s panics: %s" % (what, O.get("msg", "")[:60]), False)]
        return None

    def arg_ok(I, aligned):
        return z3.And(I["key"] & 7 == 0, ule(8, I["key"])) if aligned else live(I["key"])

    def pre_inv(I, aligned):
        K, _ = KV(I)
        return z3.And(*inv_parts(K, I["entries"], aligned, tomb_of(I)).values())

    def rehashed(op, I, O):
        """the table was rebuilt: epoch recorded, no tombstone left except the one of the key remove() has just deleted"""
        tomb = cnt([k == 1 for k in O["keys"]])
        left = bv(1 if (op == "remove" and O["res_some"]) else 0)
        done = z3.And(O["epoch"] == I["rt"], tomb == left)
        # get() returns before looking at the epoch when the table has no entry
        return [("table not rebuilt (tombstones dropped, epoch recorded) for the new epoch", z3.Implies(I["entries"] != 0, done) if op == "get" else done)]

    hs = []
    rng_ops = {"get": lambda I: z3.BoolVal(True), "insert": lambda I: ule(load(I), 5), "remove": lambda I: ule(2, I["entries"])}

    # ---- samples for translator validation (any state will do; no full tables: probing would not terminate)
    def samp(keys, vals, entries, epoch, rt, key, val=77):
        d = {"entries": entries, "epoch": epoch, "rt": rt, "key": key, "val": val}
        if TOMB:
            d["tomb"] = sum(1 for k in keys if k == 1)
        for i in range(CAP):
            d["k%d" % i], d["v%d" % i] = keys[i], vals[i]
        return d
    T1 = ([16, 24, 1, 32, 0, 0, 0, 0], [1, 2, 0, 3, 0, 0, 0, 0], 3)
    T2 = ([31, 9, 10, 1, 0, 0, 14, 23], [5, 6, 7, 0, 0, 0, 8, 9], 5)
    T3 = ([16, 0, 24, 1, 0, 32, 0, 0], [1, 0, 2, 0, 0, 3, 0, 0], 3)
    T4 = ([16, 1, 0, 0, 0, 0, 0, 0], [4, 0, 0, 0, 0, 0, 0, 0], 1)
    T5 = ([8, 16, 24, 32, 40, 48, 0, 0], [1, 2, 3, 4, 5, 6, 0, 0], 6)
    T0 = ([0] * 8, [0] * 8, 0)

    def samples(op):
        def f(rng):
            out = []
            for (k, v, n), keys in ((T1, (32, 40, 16, 24, 48)), (T2, (31, 39, 47, 9, 14)), (T4, (16, 24)), (T0, (64,)), (T5, (56, 8))):
                for key in keys:
                    out.append(samp(k, v, n, 3, 3, key))
            for key in (24, 40, 16, 32):
                out.append(samp(T3[0], T3[1], T3[2], 1, 2, key))
            return out
        return f

    for op in ("get", "insert", "remove"):
        # family A: 8-aligned keys (real callers), full inductive step
        def specA(I, O, op=op):
            b = base_spec(op, I, O, "%s (aligned keys)" % op)
            if b:
                return b
            return functional(op, I, O) + post_inv(I, O, True) + [("capacity changed without a rehash condition", O["capacity"] == CAP), ("gc epoch of the table changed", O["epoch"] == I["epoch"])]

        def twA(I, O, op=op):
            if O["panic"] or O["hang"]:
                return []
            K, _ = KV(I)
            K2 = O["keys"]
            t = [("a tombstone precedes the slot of the key", z3.And(K[0] == 1, present(K, I["key"])))]
            if op == "insert":
                t += [("insert into the slot of a tombstone", z3.Or(*[z3.And(K[i] == 1, K2[i] == I["key"]) for i in range(CAP)])),
                      ("insert into an EMPTY slot", z3.Or(*[z3.And(K[i] == 0, K2[i] == I["key"]) for i in range(CAP)])),
                      ("insert overwrites the value of a present key", present(K, I["key"]))]
            else:
                t += [("key found", z3.BoolVal(bool(O["res_some"]))), ("key absent", z3.BoolVal(not O["res_some"]))]
            return t
        needA = ["a tombstone precedes the slot of the key"] + (["insert into the slot of a tombstone", "insert into an EMPTY slot", "insert overwrites the value of a present key"]
                                                                 if op == "insert" else ["key found", "key absent"])
        hs.append(H("table-A/" + op, "ObjectHashMap::%s (+ is_live/is_deleted/is_empty, maybe_rehash_on_%s, overflow/underflow/invalidated_by_gc)" % (op, op), ins,
                    lambda I, op=op: z3.And(pre_inv(I, True), arg_ok(I, True), I["epoch"] == I["rt"], rng_ops[op](I)),
                    sym(op), nat(op), specA, twA, samples(op), need=needA, max_steps=6000, depth=7, qfbv=True))

        # family B: arbitrary keys, every home slot, wrap-around; I6 is assumed, not re-established (see INVARIANT_TEXT)
        def specB(I, O, op=op):
            b = base_spec(op, I, O, "%s (arbitrary keys)" % op)
            if b:
                return b
            return functional(op, I, O) + post_inv(I, O, False, skip=() if TOMB else ("I6",)) + [("capacity changed without a rehash condition", O["capacity"] == CAP),
                                                                                   ("gc epoch of the table changed", O["epoch"] == I["epoch"])]

        def twB(I, O, op=op):
            if O["panic"] or O["hang"]:
                return []
            K, _ = KV(I)
            t = [("probe wraps around the end of the table", z3.Or(*[z3.And(K[i] == I["key"], ult(i, I["key"] & 7)) for i in range(CAP)])),
                 ("key absent", z3.Not(present(K, I["key"])))]
            if op == "insert":
                t.append(("insert uses up the last EMPTY slot (I6 not inductive for arbitrary hashes)", z3.And(*[k != 0 for k in O["keys"]])))
            return t
        needB = ["probe wraps around the end of the table", "key absent"] + (["insert uses up the last EMPTY slot (I6 not inductive for arbitrary hashes)"] if op == "insert" and NB >= 7 and not TOMB else [])
        hs.append(H("table-B/" + op, "ObjectHashMap::%s, arbitrary keys" % op, ins,
                    lambda I, op=op: z3.And(pre_inv(I, False), arg_ok(I, False), I["epoch"] == I["rt"], rng_ops[op](I), ule(cnt([k != 0 for k in KV(I)[0]]), NB)),
                    sym(op), nat(op), specB, twB, samples(op), need=needB, max_steps=6000, depth=8, qfbv=True))

        # family C: rehash because the collector ran.  With 8-aligned keys at capacity 8 every key keeps home 0, so the states the
        # collector leaves behind are exactly the states of the invariant; the table is rebuilt all the same.
        def preC(I, op=op):
            return z3.And(pre_inv(I, True), ule(I["entries"], NC if op != "insert" else min(NC, 5)), arg_ok(I, True), I["epoch"] != I["rt"])

        def specC(I, O, op=op):
            b = base_spec(op, I, O, "%s after a collection" % op)
            if b:
                return b
            return functional(op, I, O) + post_inv(I, O, True) + [("capacity changed", O["capacity"] == CAP)] + rehashed(op, I, O)

        def twC(I, O, op=op):
            if O["panic"] or O["hang"]:
                return []
            K, _ = KV(I)
            return [("rehash drops tombstones", z3.And(I["entries"] != 0, z3.Or(*[k == 1 for k in K]))), ("key present", present(K, I["key"]))]
        hs.append(H("table-C/epoch/" + op, "ObjectHashMap::rehash via maybe_rehash_on_%s (epoch changed) + with_capacity + capacity_for_entries" % op, ins, preC,
                    sym(op), nat(op), specC, twC, samples(op), need=["rehash drops tombstones", "key present"], max_steps=30000, depth=8, qfbv=True))

        # the same with arbitrary keys: the collector rewrote the live keys in place, so they no longer sit on their probe chains
        def preG(I, op=op):
            K, _ = KV(I)
            P = inv_parts(K, I["entries"], False, tomb_of(I))
            return z3.And(P["I2 entries == live slots"], P["I3 live keys distinct"], P["I6 an EMPTY slot exists"], ule(I["entries"], NG), arg_ok(I, False), I["epoch"] != I["rt"],
                          *[c for n, c in P.items() if n.startswith(("I9", "I10"))])

        def specG(I, O, op=op):
            b = base_spec(op, I, O, "%s after a collection (arbitrary keys)" % op)
            if b:
                return b
            return functional(op, I, O) + post_inv(I, O, False) + [("capacity changed", O["capacity"] == CAP)] + rehashed(op, I, O)

        def twG(I, O, op=op):
            if O["panic"] or O["hang"]:
                return []
            K, _ = KV(I)
            return [("the key sits behind an EMPTY home slot before the rehash (moved object)",
                     z3.Or(*[z3.And(K[i] == I["key"], K[j] == 0, (I["key"] & 7) == j) for i in range(CAP) for j in range(CAP) if i != j]))]
        hs.append(H("table-C/epoch-any/" + op, "ObjectHashMap::rehash via maybe_rehash_on_%s (epoch changed), arbitrary keys" % op, ins, preG,
                    sym(op), nat(op), specG, twG, samples(op), need=["the key sits behind an EMPTY home slot before the rehash (moved object)"],
                    max_steps=30000, depth=8, qfbv=True))

    # underflow: remove with fewer than capacity/4 entries rebuilds the table (same capacity)
    def specU(I, O):
        b = base_spec("remove", I, O, "remove with underflow rehash")
        if b:
            return b
        return functional("remove", I, O) + post_inv(I, O, True) + [("capacity changed", O["capacity"] == CAP)] + rehashed("remove", I, O)
    hs.append(H("table-C/underflow/remove", "ObjectHashMap::remove -> underflow() -> rehash", ins,
                lambda I: z3.And(pre_inv(I, True), arg_ok(I, True), I["epoch"] == I["rt"], ult(I["entries"], 2)), sym("remove"), nat("remove"), specU,
                lambda I, O: [] if O["panic"] or O["hang"] else [("last entry removed", z3.BoolVal(bool(O["res_some"]))), ("rehash drops tombstones", z3.Or(*[k == 1 for k in KV(I)[0]]))],
                samples("remove"), need=["last entry removed", "rehash drops tombstones"], max_steps=30000, depth=8, qfbv=True))

    # overflow: the 7th entry moves the table to capacity 16
    def specO(I, O):
        b = base_spec("insert", I, O, "insert with overflow rehash")
        if b:
            return b
        c = functional("insert", I, O) + post_inv(I, O, False)
        c.append(("table not rebuilt with capacity_for_entries(entries + 1)", O["capacity"] == z3.If(ule(I["entries"], 5), bv(8), bv(16))))
        c.append(("tombstones survive the rehash", z3.And(*[k != 1 for k in O["keys"]])))
        return c
    hs.append(H("table-C/overflow/insert", "ObjectHashMap::insert -> overflow() -> rehash(capacity_for_entries(7) == 16)", ins,
                lambda I: z3.And(pre_inv(I, True), arg_ok(I, True), I["epoch"] == I["rt"], load(I) == 6), sym("insert"), nat("insert"), specO,
                lambda I, O: [] if O["panic"] or O["hang"] else [("a key lands in the upper half (home 8)", z3.Or(*[live(k) for k in O["keys"][8:]]) if len(O["keys"]) > 8 else False), ("new key", z3.Not(present(KV(I)[0], I["key"])))],
                samples("insert"), need=["a key lands in the upper half (home 8)", "new key"], max_steps=60000, depth=8, qfbv=True))
    hs.append(history16(E, mk_empty=lambda it, I: mk_table_any(E, it, [], [], 0, I["rt"], I["rt"]), read=read, optval=optval))
    return hs


FINDING_KEY = "table/tombstones-fill-table/cap16"


def mk_table_any(E, it, K, V, entries, epoch, rt):
    ents = [E.L.make(WL, "HashMapEntry", key=E.addr(k), value=Int(U(v), "u64")) for k, v in zip(K, V)]
    extra = {"tombstones": Int(0, "usize")} if "tombstones" in E.L.fields(WL, "ObjectHashMap") else {}
    tbl = E.L.make(WL, "ObjectHashMap", data=G.mk_box_slice(ents), entries=Int(U(entries), "usize"),
                   capacity=Int(len(K), "usize"), gc_epoch=Int(U(epoch), "usize"), **extra)
    it.hooks["get_runtime"] = lambda it_, ctx_, fn, args: Ref(Cell(Opaque("runtime"), "rt"))
    it.hooks["Runtime::gc_epoch"] = lambda it_, ctx_, fn, args: Int(U(rt), "usize")
    return Cell(tbl, "table")


def history16(E, mk_empty, read, optval):
    """Reachability of a table WITHOUT an EMPTY slot with real (8-aligned) keys, from the empty table, no collection
    in between: 12 inserts (8 keys of home 0, 4 of home 8 at capacity 16), then 4 x (remove a home-0 key, insert a
    home-8 key): overflow() counts live entries only, so the tombstones are never cleaned up and the last EMPTY slot
    is used.  The skeleton of the history (which operation, low 12 bits of each key) is concrete, found by hand from
    the failed induction of family B; the upper 52 bits of every key are symbolic."""
    A = ["a%d" % i for i in range(8)]
    B = ["b%d" % i for i in range(8)]
    ins = [(n, "usize") for n in A + B + ["x", "rt"]]
    low = {("a%d" % i): 0x000 + 16 * i for i in range(8)}
    low.update({("b%d" % i): 0x808 + 16 * i for i in range(8)})
    low["x"] = 0xC00

    def pre(I):
        return z3.And(*[z3.And(I[n] & 0xFFF == v, ule(0x1000, I[n])) for n, v in low.items()])

    def script():
        ops = [("insert", a) for a in A] + [("insert", b) for b in B[:4]]
        for i in range(4):
            ops += [("remove", A[i]), ("insert", B[4 + i])]
        return ops

    def sym(ctx, it, I):
        cell = mk_empty(it, I)
        me = Ref(cell)
        for op, n in script():
            if op == "insert":
                it.call(ctx, "ObjectHashMap::insert", [me, E.addr(I[n]), Int(bv(7), "u64")])
            else:
                it.call(ctx, "ObjectHashMap::remove", [me, E.addr(I[n])])
        O = {}
        O["keys"], O["vals"], O["entries"], O["capacity"], O["epoch"] = read(cell, ctx)
        ctx.ex.max_steps = ctx.steps + 3000          # a probe of an absent key needs < 20 steps per slot
        O["res_some"], O["res_val"] = optval(it.call(ctx, "ObjectHashMap::get", [me, E.addr(I["x"])]))
        return O

    def cmd(v):
        ops = ["%s:%d" % (op, v[n]) + (":7" if op == "insert" else "") for op, n in script()]
        return ["table", "-", 0, 0, v["rt"]] + ops + ["get:%d" % v["x"]]

    def parse(r):
        o = {"keys": [num(x) for x in r["keys"].split(",")], "vals": [0 if x == "-" else num(x) for x in r["values"].split(",")],
             "entries": num(r["entries"]), "capacity": num(r["capacity"]), "epoch": num(r["gc_epoch"])}
        t = r["op%d" % len(script())]
        o["res_some"], o["res_val"] = (True, num(t[5:])) if t.startswith("Some:") else (False, 0)
        return o

    def spec(I, O):
        if O["hang"]:
            return [("tombstones use up every EMPTY slot (overflow() counts live entries only): get() of an absent key never returns", False)]
        if O["panic"]:
            return [("the history panics: " + O.get("msg", "")[:60], False)]
        return [("no EMPTY slot is left after the history", z3.Or(*[k == 0 for k in O["keys"]])),
                ("get() of a key that was never inserted returns Some", not O["res_some"]),
                ("entries != live slots after the history", O["entries"] == cnt([live(k) for k in O["keys"]]))]

    def samples(rng):
        out = []
        for _ in range(2):
            v = {n: (rng.getrandbits(34) << 12) + 0x1000 + lo for n, lo in low.items()}
            v["rt"] = rng.getrandbits(10)
            out.append(v)
        return out
    h = H("table16/tombstones-fill-table", "ObjectHashMap: 20-operation history from the empty table (capacity 16), then get of an absent key", ins, pre,
          sym, (cmd, parse), spec, lambda I, O: [("history executed", True)], samples, need=["history executed"], max_steps=200000, depth=8, qfbv=True)
    h.fixed_key = FINDING_KEY
    return h
