#!/usr/bin/env python3
"""tools/seed_eval.py <seeded/<id>/<name> dir> <check id> [--tier quick|thorough] [--worktree <dir>]

Default (the prescribed way): applies <dir>/patch.diff to /repo (which must be clean), runs the check, reverts
/repo straight afterwards (git checkout -- .); the clean-tree evidence file is saved and restored.
With --worktree <dir>: the patch is applied in a scratch git worktree of /repo (created at /repo's HEAD if
missing) and the check runs with VERIF_REPO=<dir>: /repo and /verif/evidence are not touched, so several
evaluations can run side by side.  Records exit status and VIOLATION lines in the seed's meta.json under "runs"."""
import json, os, subprocess, sys, time

BUILD_CHECKS = {"C01", "C02", "C09", "C11", "C13", "C14"}      # need the dora toolchain built in the tree they look at

def sh(cmd, **kw):
    return subprocess.run(cmd, shell=True, text=True, capture_output=True, **kw)

def main():
    d = os.path.abspath(sys.argv[1]); cid = sys.argv[2]
    tier = sys.argv[sys.argv.index("--tier") + 1] if "--tier" in sys.argv else "quick"
    wt = sys.argv[sys.argv.index("--worktree") + 1] if "--worktree" in sys.argv else None
    patch = os.path.join(d, "patch.diff")
    tree = wt or "/repo"
    if wt and not os.path.exists(os.path.join(wt, ".git")):
        r = sh("git -C /repo worktree add --detach %s HEAD" % wt)
        if r.returncode != 0:
            print("cannot create worktree:", r.stderr); sys.exit(2)
    if wt and cid in BUILD_CHECKS and not os.path.exists(os.path.join(wt, "target")):
        sh("cp -a /repo/target %s/target" % wt)
    if wt:
        sh("git -C %s checkout -q --detach $(git -C /repo rev-parse HEAD) && git -C %s checkout -- ." % (wt, wt))
    st = sh("git -C %s status --porcelain --untracked-files=no" % tree).stdout.strip()
    if st:
        print("refusing: %s has uncommitted changes:\n%s" % (tree, st)); sys.exit(2)
    r = sh("git -C %s apply --check %s" % (tree, patch))
    if r.returncode != 0:
        print("patch does not apply:", r.stderr); sys.exit(2)
    sh("git -C %s apply %s" % (tree, patch))
    ev = "/verif/evidence/%s.json" % cid
    saved = open(ev).read() if (not wt and os.path.exists(ev)) else None
    t = time.time()
    try:
        env = dict(os.environ); env.setdefault("VERIF_SEED", "0")
        if wt:
            env["VERIF_REPO"] = wt
        p = subprocess.run(["./check", cid, "--tier", tier], cwd="/verif", text=True, capture_output=True, env=env)
    finally:
        sh("git -C %s checkout -- ." % tree)
        if not wt:
            if os.path.exists(ev):
                os.replace(ev, os.path.join(d, "evidence-%s.json" % cid))
            if saved is not None:
                open(ev, "w").write(saved)
    viol = [l for l in p.stdout.splitlines() if l.startswith("VIOLATION") or l.startswith("KNOWN-FINDING")]
    det = [l.strip() for l in p.stderr.splitlines() if "violation key=" in l or "INCONCLUSIVE" in l]
    run = {"check": cid, "tier": tier, "exit": p.returncode, "wall_s": round(time.time() - t, 1), "stdout_lines": viol, "detail": det[:6],
           "how": ("VERIF_REPO=scratch worktree" if wt else "git -C /repo apply; check; git -C /repo checkout -- ."),
           "caught": p.returncode == 1 and any(l.startswith("VIOLATION") for l in viol)}
    mp = os.path.join(d, "meta.json")
    meta = json.load(open(mp)) if os.path.exists(mp) else {}
    meta.setdefault("runs", []).append(run)
    json.dump(meta, open(mp, "w"), indent=1)
    print(json.dumps(run, indent=1))
    clean = sh("git -C %s status --porcelain --untracked-files=no" % tree).stdout.strip()
    if clean:
        print("WARNING: %s not clean after revert: %s" % (tree, clean))

if __name__ == "__main__":
    main()
