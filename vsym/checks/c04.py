"""C04 — no managed thread runs while the world is stopped (MIR-bmc).

Unit (real MIR of the working tree): safepoint::{stop_the_world, stop_threads, resume_threads,
invoke_safepoint_operation, safepoint_slow}, DoraThread::{park, park_slow, unpark, unpark_slow},
parked_scope, Barrier::*, BarrierData::*, Threads::{add_thread, remove_current_thread},
Runtime::set_state, ThreadState::* (dora-compiler/src/abi.rs).
Environment: /verif/engines/drivers/src/c04.rs (managed threads choosing actions
nondeterministically) + the python models below (ghost state, thread-list, accessors)."""
import json
import os
import re
import time

import z3

from .. import common
from ..common import Inconclusive, log
from ..mir import parse as P
from ..mir import bmc as B
from ..mir import cmodels as CM
from ..mir import rtmodels as RM
from ..mir.structs import Layouts, enum_discriminants
from ..mir.interp import Int, Panic, Ref, Tup, UNIT, get_path
from ..mir.models import write_ref

PID = "C04"
RUNNING, PARKED, SP_REQ, PARKED_SP_REQ, SAFEPOINT = "Running", "Parked", "SafepointRequested", "ParkedSafepointRequested", "Safepoint"

ENV_MODELS = []


def em(name):
    def deco(fn):
        ENV_MODELS.append((re.compile(r"(\w+::)*" + name), fn))
        return fn
    return deco


PRIVATE = ("verif_rt", "verif_threads", "verif_me", "verif_action", "verif_native_code", "verif_spawn_arc")


def visible(callee):
    if callee.split("::")[-1] in PRIVATE:
        return False
    return CM.visible(callee)


def ghost(it):
    return it.system.roots["ghost"]


def gget(it, *path):
    return get_path(ghost(it).v, path)


def gset(it, path, v):
    write_ref(Ref(ghost(it), path), v)


G_INOP, G_STARTED, G_BUDGET, G_SPAWNED, G_OPS_DONE = 0, 1, 2, 3, 4


def me_of(args):
    t = args[0].conc()
    if t is None:
        raise Inconclusive("thread id not concrete")
    return t


@em("verif_rt")
def e_rt(it, ctx, callee, args):
    return Ref(it.system.roots["rt"])


@em("verif_threads")
def e_threads(it, ctx, callee, args):
    return Ref(it.system.roots["rt"], (it.system.idx["Runtime.threads"],))


@em("verif_me")
def e_me(it, ctx, callee, args):
    return Ref(it.system.roots["thr%d" % me_of(args)])


@em("verif_wait_started")
def e_wait_started(it, ctx, callee, args):
    ctx.assume(gget(it, G_STARTED, me_of(args)))
    return UNIT


@em("verif_action")
def e_action(it, ctx, callee, args):
    me = me_of(args)
    b = gget(it, G_BUDGET, me)
    if not ctx.branch(b.t != 0):
        return Int(0, "u8")
    ch = CM.take_choice(ctx, it)
    k = ch & 7
    sysm = it.system
    # action 4 (start a thread) only while an unstarted thread exists and nobody started it yet
    can_spawn = z3.BoolVal(False)
    if sysm.child is not None:
        can_spawn = z3.Not(gget(it, G_SPAWNED))
    acts = sysm.actions[me] if isinstance(sysm.actions, dict) else sysm.actions
    for a in (1, 2, 3):
        if a in acts and ctx.branch(k == a):
            gset(it, (G_BUDGET, me), Int(b.t - 1, "u8"))
            return Int(a, "u8")
    if 4 in acts and ctx.branch(z3.And(k == 4, can_spawn)):
        gset(it, (G_BUDGET, me), Int(b.t - 1, "u8"))
        gset(it, (G_SPAWNED,), z3.BoolVal(True))
        return Int(4, "u8")
    return Int(0, "u8")


def state_ref(it, t):
    s = it.system
    return Ref(s.roots["thr%d" % t], (s.idx["DoraThread.tld"], s.idx["ThreadLocalData.state"], 0))


@em("verif_poll")
def e_poll(it, ctx, callee, args):
    r = state_ref(it, me_of(args))
    return get_path(r.cell.v, r.path)


@em("verif_native_code")
def e_native(it, ctx, callee, args):
    return UNIT


@em("verif_operation_begin")
def e_op_begin(it, ctx, callee, args):
    me = me_of(args)
    s = it.system
    T = s.T
    d = s.discr
    # S1: every OTHER registered thread is blocked at a safepoint or parked-with-request
    lst = Ref(s.roots["rt"], (s.idx["Runtime.threads"], s.idx["Threads.threads"], 1))
    bv = get_path(lst.cell.v, lst.path)
    n = bv.fields[0]
    conds = []
    for i, slot in enumerate(bv.fields[1].fields):
        tid = slot.fields[0]
        ok = []
        for t in range(T):
            r = state_ref(it, t)
            st = get_path(r.cell.v, r.path)
            ok.append(z3.And(tid.t == t, z3.Or(st.t == d[SAFEPOINT], st.t == d[PARKED_SP_REQ])))
        conds.append(z3.Implies(z3.And(z3.UGT(n.t, i), tid.t != me), z3.Or(*ok)))
    if ctx.branch(z3.Not(z3.And(*conds))):
        raise Panic("GHOST S1: operation runs while another registered thread is neither at a safepoint nor parked with the request flag", "env")
    if ctx.branch(gget(it, G_INOP)):
        raise Panic("GHOST S1: two stop-the-world operations overlap", "env")
    gset(it, (G_INOP,), z3.BoolVal(True))
    return UNIT


@em("verif_operation_end")
def e_op_end(it, ctx, callee, args):
    gset(it, (G_INOP,), z3.BoolVal(False))
    gset(it, (G_OPS_DONE,), Int(gget(it, G_OPS_DONE).t + 1, "u8"))
    return UNIT


@em("verif_spawn_arc")
def e_spawn_arc(it, ctx, callee, args):
    return RM.mk_arc(it.system.child)


@em("verif_mark_started")
def e_mark_started(it, ctx, callee, args):
    gset(it, (G_STARTED, it.system.child), z3.BoolVal(True))
    return UNIT


@em("verif_heap_access")
def e_heap(it, ctx, callee, args):
    me = me_of(args)
    if ctx.branch(gget(it, G_INOP)):
        raise Panic("GHOST S1: a managed thread touches the heap while a stop-the-world operation is in progress", "env")
    r = state_ref(it, me)
    st = get_path(r.cell.v, r.path)
    d = it.system.discr
    if ctx.branch(z3.Not(z3.Or(st.t == d[RUNNING], st.t == d[SP_REQ]))):
        raise Panic("GHOST: managed code runs in thread state other than Running/SafepointRequested", "env")
    return UNIT


# hooks replacing runtime accessors that reach into thread-local storage / globals

def h_current_thread(it, ctx, fn, args):
    return Ref(it.system.roots["thr%d" % it.thread])


def h_get_runtime(it, ctx, fn, args):
    return Ref(it.system.roots["rt"])


def h_noop(it, ctx, fn, args):
    return UNIT


# ------------------------------------------------------------------------------------------

def build_system(progs, T, unstarted_child, budgets, actions):
    rt_prog, cmp_prog, drv_prog = progs
    models = list(ENV_MODELS) + RM.RTMODELS + CM.all_models()
    sysm = B.System([rt_prog, cmp_prog, drv_prog], models, visible, T)
    L = Layouts(common.REPO)
    TH, RTF = "dora-runtime/src/threads.rs", "dora-runtime/src/runtime.rs"
    discr = enum_discriminants(os.path.join(common.REPO, "dora-compiler/src/abi.rs"), "ThreadState")
    rdiscr = enum_discriminants(os.path.join(common.REPO, RTF), "RuntimeState")
    sysm.discr = discr
    sysm.extra_discr = {"ThreadState": discr, "RuntimeState": rdiscr}
    sysm.hooks = {"current_thread": h_current_thread, "get_runtime": h_get_runtime,
                  "make_iterable_current": h_noop, "tlab::make_iterable_current": h_noop}
    sysm.child = (T - 1) if unstarted_child else None
    sysm.actions = actions
    sysm.idx = {
        "Runtime.threads": L.index(RTF, "Runtime", "threads"),
        "Threads.threads": L.index(TH, "Threads", "threads"),
        "DoraThread.tld": L.index(TH, "DoraThread", "tld"),
        "ThreadLocalData.state": L.index(TH, "ThreadLocalData", "state"),
    }
    nreg = T - 1 if unstarted_child else T
    for t in range(T):
        init = discr[RUNNING] if t < nreg else discr[PARKED]
        tld = L.make(TH, "ThreadLocalData", state=CM.mk_atomic(Int(init, "u8")))
        thr = L.make(TH, "DoraThread", id=Int(t, "usize"), tld=tld, index_in_thread_list=CM.mk_atomic(Int(t, "usize")))
        sysm.add_root("thr%d" % t, thr)
    slots = Tup([RM.mk_arc(i if i < nreg else 0) for i in range(T)])
    lst = Tup((Int(nreg, "usize"), slots), name="BVec")
    bdata = L.make(TH, "BarrierData", armed=z3.BoolVal(False), stopped=Int(0, "usize"))
    barrier = L.make(TH, "Barrier", data=CM.mk_mutex(bdata), cv_wakeup=CM.mk_condvar(1), cv_notify=CM.mk_condvar(2))
    threads = L.make(TH, "Threads", threads=CM.mk_mutex(lst), cv_join=CM.mk_condvar(3), next_thread_id=CM.mk_atomic(Int(1, "usize")),
                     barrier=barrier)
    rt = L.make(RTF, "Runtime", threads=threads, state=CM.mk_atomic(Int(rdiscr["Running"], "u8")))
    sysm.add_root("rt", rt)
    sysm.add_root("sched", Tup([Int(0, "u8") for _ in range(T)]))
    sysm.add_root("ghost", Tup((z3.BoolVal(False), Tup([z3.BoolVal(t < nreg) for t in range(T)]),
                                 Tup([Int(budgets[t], "u8") for t in range(T)]), z3.BoolVal(False), Int(0, "u8"))))
    worker = drv_prog.find("drv_c04_thread")
    if worker is None:
        raise Inconclusive("driver drv_c04_thread missing")
    for t in range(T):
        sysm.add_thread(worker, [Int(t, "usize"), z3.BoolVal(t < nreg)])
    return sysm


def load_progs():
    rt = P.parse_file(common.mir_dump("dora-runtime"), common.REPO)
    cmp_ = P.parse_file(common.mir_dump("dora-compiler"), common.REPO)
    drv = P.parse_file(common.drivers_mir_dump(), os.path.join(common.WORK, "drivers-src"))
    for need in ("stop_the_world", "safepoint_slow", "DoraThread::park", "DoraThread::unpark", "Threads::remove_current_thread",
                 "Barrier::wait_in_safepoint", "parked_scope"):
        if rt.find(need) is None:
            raise Inconclusive("%s not found in the MIR dump of dora-runtime" % need)
    return rt, cmp_, drv


def run_config(progs, cfg, tmo, deadline, qjobs=3):
    T, child, budgets, actions, K = cfg["T"], cfg["child"], cfg["budgets"], cfg["actions"], cfg["K"]
    if isinstance(actions, dict):
        actions = {int(k): tuple(v) for k, v in actions.items()}
    t0 = time.time()
    sysm = build_system(progs, T, child, budgets, actions)
    sysm.build(deadline)
    nn = sum(len(n) for n, e in sysm.cfa)
    ne = sum(len(e) for n, e in sysm.cfa)
    tb = time.time() - t0
    t1 = time.time()
    U = sysm.encode(K)
    te = time.time() - t1
    res = {"cfg": cfg, "K": K, "nodes": nn, "edges": ne, "build_s": round(tb, 1), "encode_s": round(te, 1), "queries": {}}
    from ..mir import bmccheck as BC
    wit = [("witness-all-finish", U.all_done(K))]
    allacts = set(a for v in actions.values() for a in v) if isinstance(actions, dict) else set(actions)
    actions_for_witness = allacts
    if 3 in allacts:
        wit.append(("witness-operation-runs", U.fired(lambda e: "verif_operation_begin" in e.label and e.panic is None)))
    if 1 in allacts and 3 in allacts:
        wit.append(("witness-safepoint_slow-blocks", U.fired(lambda e: "wait_in_safepoint" in B.node_name(e.src) and "Condvar::wait" in e.label)))
    if 2 in allacts and 3 in allacts:
        wit.append(("witness-park_slow", U.fired(lambda e: "park_slow" in B.node_name(e.src) and e.panic is None)))
        wit.append(("witness-unpark-waits", U.fired(lambda e: "wait_in_unpark" in B.node_name(e.src) and "Condvar::wait" in e.label)))
    qs = BC.standard_queries(U, [], wit)
    res["queries"] = BC.decide_all(U, qs, tmo, "c04-%s-%d" % (cfg["name"], K), qjobs, PID, cfg["name"])
    res["fns"] = sorted(sysm.interp_fns)
    res["models"] = sorted(sysm.models_used)
    res["cfa_stats"] = sysm.stats
    return res


ALL = (1, 2, 3, 4)
CONFIGS = {
    # "core": the configuration must be decided completely, including "no execution is longer than K"
    "quick": [
        {"name": "poll+stw", "T": 2, "child": False, "budgets": [1, 1], "actions": (1, 3), "K": 52, "core": True},
        {"name": "native+stw", "T": 2, "child": False, "budgets": [1, 1], "actions": (2, 3), "K": 52, "core": True},
    ],
    "thorough": [
        {"name": "poll+stw", "T": 2, "child": False, "budgets": [1, 1], "actions": (1, 3), "K": 52, "core": True},
        {"name": "native+stw", "T": 2, "child": False, "budgets": [1, 1], "actions": (2, 3), "K": 52, "core": True},
        {"name": "poll+native+stw", "T": 2, "child": False, "budgets": [1, 1], "actions": (1, 2, 3), "K": 52, "core": True},
        {"name": "stw-twice+native", "T": 2, "child": False, "budgets": [2, 1], "actions": {0: (3,), 1: (2,)}, "K": 80},
        {"name": "stw-twice+poll", "T": 2, "child": False, "budgets": [2, 1], "actions": {0: (3,), 1: (1,)}, "K": 80},
        {"name": "2thr-2actions", "T": 2, "child": False, "budgets": [2, 2], "actions": (1, 2, 3), "K": 85},
        {"name": "2thr+spawn", "T": 3, "child": True, "budgets": [1, 1, 1], "actions": ALL, "K": 75},
        {"name": "3thr-1action", "T": 3, "child": False, "budgets": [1, 1, 1], "actions": (1, 2, 3), "K": 75},
    ],
}


def _cfg_worker(a):
    progs, cfg, tmo, deadline = a
    deadline = time.time() + deadline
    try:
        return run_config(progs, cfg, tmo, deadline, qjobs=4)
    except Inconclusive as e:
        return {"inconclusive": "%s: %s" % (cfg["name"], e)}


def main(tier):
    t0 = time.time()
    progs = load_progs()
    rep = common.Reporter(PID)
    tmo = 1800 if tier == "quick" else 3000
    deadline = 1800 if tier == "quick" else 3600      # seconds for the CFA construction of ONE configuration, counted from its start
    cfgs = CONFIGS[tier]
    only = os.environ.get("VERIF_C04_ONLY")        # development aid: run the configurations whose name contains this text
    if only:
        cfgs = [c for c in cfgs if only in c["name"]] or cfgs
    results = list(common.fork_map(_cfg_worker, [(progs, c, tmo, deadline) for c in cfgs], min(len(cfgs), 4)))
    if "inconclusive" in results[0]:
        raise Inconclusive(results[0]["inconclusive"])
    return finish(tier, t0, results, rep)


def finish(tier, t0, results, rep):
    from ..mir import bmccheck as BC
    incon = [r["inconclusive"] for r in results if "inconclusive" in r]
    results = [r for r in results if "inconclusive" not in r]
    if not results:
        raise Inconclusive("; ".join(incon))
    states = sum(r["nodes"] for r in results)
    trans = sum(r["edges"] for r in results)
    nq, undecided, bounded = BC.judge(results, rep, "stw", lambda r: r["cfg"]["name"])
    undecided = undecided + bounded
    samples = [{"config": r["cfg"], "K": r["K"], "nodes": r["nodes"], "edges": r["edges"]} for r in results]
    core = results[0]
    cov = {
        "states": states, "transitions": trans, "traces_validated_against_impl": 0,
        "samples": samples + [{"query": n, **{k: v for k, v in q.items() if k != "trace"}} for n, q in core["queries"].items()],
        "configurations": [{k: v for k, v in r.items() if k not in ("fns", "models")} for r in results],
        "configurations_inconclusive": incon,
        "functions_encoded": core["fns"], "models_used": core["models"], "queries": nq, "undecided_or_bounded": undecided,
        "bounds": "threads, per-thread action budgets and action alphabets as listed per configuration; every schedule of at most K steps; "
                  "'unfinished-at-K' unsat certifies that K covers all complete executions of that workload",
        "outside_the_claim": ["the emitted poll instruction itself", "real OS scheduling", "weak memory (SC assumed)", "more than 3 threads",
                              "what the operation does (collection, snapshot, OOM report) beyond being an operation", "TLAB retirement in remove_current_thread (stubbed)"],
    }
    assumptions = ["sequentially consistent memory", "parking_lot::Condvar has no spurious wake-ups (its documented contract)",
                   "notify_one wakes an adversarially chosen waiter", "every thread eventually leaves (drivers end in remove_current_thread): compiled code polls at every function entry and loop back edge, so a Running thread never stops silently",
                   "current_thread()/get_runtime() return the executing thread / the one runtime", "thread list capacity = number of modelled threads"]
    common.write_evidence(PID, tier, "model_checking", cov, assumptions, time.time() - t0, len(rep.new))
    return rep.exit_code()


def classify(tr):
    for s in tr:
        if s.get("panic"):
            p = s["panic"]
            p = re.sub(r"\s+", " ", p)[:80]
            return p
    return "no-panic"


def replay(path):
    d = json.load(open(path))
    for s in d["replay"].get("trace", []):
        print(s)
    return 0
