//! Reference decoder for the part of x86-64 (64-bit mode) that dora's assemblers offer.
//!
//! Written from the Intel SDM vol. 2 (ch. 2 instruction format, appendix A opcode maps,
//! the per-instruction pages), NOT from dora-asm/src/x64.rs.  It returns the instruction
//! in *semantic* operand order (Intel order: o1 = destination / first operand), so that
//! every valid encoding of the same instruction decodes to the same value:
//!   * optional / redundant REX bits are accepted, a REX that is not directly in front
//!     of the opcode is ignored (SDM 2.2.1),
//!   * both directions of the ALU / MOV / MOVSS/MOVSD/MOVAPS register forms are accepted,
//!   * disp8 vs disp32, a SIB byte that only names a base, ignored scale bits when there
//!     is no index, VEX2 vs VEX3, VEX.L on LIG and VEX.W on WIG instructions,
//!   * short (imm8, sign-extended) and long immediates, shift-by-1 forms, accumulator
//!     short forms (05 id, A8 ib, ...).
//! Anything that is not one of the offered instructions (or is not valid in 64-bit mode)
//! yields `None`.  There is exactly one small loop (legacy prefixes, at most 6 rounds).

pub const K_NONE: u8 = 0;
pub const K_REG: u8 = 1;
pub const K_MEM: u8 = 2;
pub const K_IMM: u8 = 3;
pub const K_REL: u8 = 4;

/// register class == width in bits (GP) / 128 = xmm / 255 = ymm; for memory operands the
/// access width in bits (0 for LEA, which does not access memory).
pub const C8: u8 = 8;
pub const C16: u8 = 16;
pub const C32: u8 = 32;
pub const C64: u8 = 64;
pub const CX: u8 = 128;
pub const CY: u8 = 255;

pub const NOREG: u8 = 0xff;
pub const NOCC: u8 = 0xff;

macro_rules! mnemonics {
    ($($id:ident = $n:expr, $name:expr;)*) => {
        $(pub const $id: u16 = $n;)*
        pub fn mn_name(m: u16) -> &'static str {
            match m { $($n => $name,)* _ => "?" }
        }
        pub fn mn_by_name(s: &str) -> Option<u16> {
            $(if s == $name { return Some($n); })*
            None
        }
    };
}

mnemonics! {
    MN_NONE = 0, "(none)";
    MN_ADD = 1, "add";
    MN_OR = 2, "or";
    MN_ADC = 3, "adc";
    MN_SBB = 4, "sbb";
    MN_AND = 5, "and";
    MN_SUB = 6, "sub";
    MN_XOR = 7, "xor";
    MN_CMP = 8, "cmp";
    MN_TEST = 9, "test";
    MN_MOV = 10, "mov";
    MN_MOVZX = 11, "movzx";
    MN_MOVSX = 12, "movsx";
    MN_MOVSXD = 13, "movsxd";
    MN_LEA = 14, "lea";
    MN_IMUL = 15, "imul";
    MN_IDIV = 16, "idiv";
    MN_DIV = 17, "div";
    MN_MUL = 18, "mul";
    MN_NEG = 19, "neg";
    MN_NOT = 20, "not";
    MN_ROL = 21, "rol";
    MN_ROR = 22, "ror";
    MN_RCL = 23, "rcl";
    MN_RCR = 24, "rcr";
    MN_SHL = 25, "shl";
    MN_SHR = 26, "shr";
    MN_SAR = 27, "sar";
    MN_PUSH = 28, "push";
    MN_POP = 29, "pop";
    MN_RET = 30, "ret";
    MN_NOP = 31, "nop";
    MN_INT3 = 32, "int3";
    MN_CWD = 33, "cwd";
    MN_CDQ = 34, "cdq";
    MN_CQO = 35, "cqo";
    MN_CALL = 36, "call";
    MN_JMP = 37, "jmp";
    MN_JCC = 38, "jcc";
    MN_SETCC = 39, "setcc";
    MN_CMOVCC = 40, "cmovcc";
    MN_CMPXCHG = 41, "cmpxchg";
    MN_XADD = 42, "xadd";
    MN_XCHG = 43, "xchg";
    MN_LZCNT = 44, "lzcnt";
    MN_TZCNT = 45, "tzcnt";
    MN_POPCNT = 46, "popcnt";
    MN_MFENCE = 47, "mfence";
    MN_INC = 48, "inc";
    MN_DEC = 49, "dec";
    MN_MOVSS = 60, "movss";
    MN_MOVSD = 61, "movsd";
    MN_MOVUPS = 62, "movups";
    MN_MOVUPD = 63, "movupd";
    MN_MOVAPS = 64, "movaps";
    MN_MOVAPD = 65, "movapd";
    MN_CVTSI2SS = 66, "cvtsi2ss";
    MN_CVTSI2SD = 67, "cvtsi2sd";
    MN_CVTTSS2SI = 68, "cvttss2si";
    MN_CVTTSD2SI = 69, "cvttsd2si";
    MN_UCOMISS = 70, "ucomiss";
    MN_UCOMISD = 71, "ucomisd";
    MN_SQRTSS = 72, "sqrtss";
    MN_SQRTSD = 73, "sqrtsd";
    MN_ANDPS = 74, "andps";
    MN_ANDPD = 75, "andpd";
    MN_XORPS = 76, "xorps";
    MN_XORPD = 77, "xorpd";
    MN_ADDSS = 78, "addss";
    MN_ADDSD = 79, "addsd";
    MN_MULSS = 80, "mulss";
    MN_MULSD = 81, "mulsd";
    MN_SUBSS = 82, "subss";
    MN_SUBSD = 83, "subsd";
    MN_DIVSS = 84, "divss";
    MN_DIVSD = 85, "divsd";
    MN_CVTSS2SD = 86, "cvtss2sd";
    MN_CVTSD2SS = 87, "cvtsd2ss";
    MN_MOVD = 88, "movd";
    MN_MOVQ = 89, "movq";
    MN_PXOR = 90, "pxor";
    MN_ROUNDSS = 91, "roundss";
    MN_ROUNDSD = 92, "roundsd";
}

#[derive(Copy, Clone, PartialEq, Eq, Debug)]
pub struct Opnd {
    pub kind: u8,
    pub class: u8,
    /// register number 0..15; 20..23 = AH, CH, DH, BH (byte register 4..7 without REX)
    pub num: u8,
}

impl Opnd {
    pub const NONE: Opnd = Opnd { kind: K_NONE, class: 0, num: 0 };
    pub fn reg(class: u8, num: u8) -> Opnd {
        Opnd { kind: K_REG, class, num }
    }
    pub fn mem(class: u8) -> Opnd {
        Opnd { kind: K_MEM, class, num: 0 }
    }
    pub fn imm() -> Opnd {
        Opnd { kind: K_IMM, class: 0, num: 0 }
    }
    pub fn rel() -> Opnd {
        Opnd { kind: K_REL, class: 0, num: 0 }
    }
    pub fn same(&self, o: &Opnd) -> bool {
        self.kind == o.kind && self.class == o.class && self.num == o.num
    }
}

#[derive(Copy, Clone, PartialEq, Eq, Debug)]
pub struct Mem {
    pub base: u8,
    pub index: u8,
    /// 1, 2, 4, 8; normalised to 1 when there is no index register
    pub scale: u8,
    pub disp: i32,
    pub rip: bool,
}

impl Mem {
    pub const NONE: Mem = Mem { base: NOREG, index: NOREG, scale: 1, disp: 0, rip: false };
    pub fn same(&self, o: &Mem) -> bool {
        self.base == o.base && self.index == o.index && self.scale == o.scale && self.disp == o.disp && self.rip == o.rip
    }
}

#[derive(Copy, Clone, PartialEq, Eq, Debug)]
pub struct Insn {
    pub mn: u16,
    /// operation width in bits: 8/16/32/64 for general purpose instructions (destination
    /// width for movzx/movsx/movsxd, integer width for cvtsi2s*/cvtts*2si/movd/movq),
    /// 32/64 for scalar single/double, 128/255 for packed, 0 when there is none.
    pub opsize: u8,
    pub cc: u8,
    pub o1: Opnd,
    pub o2: Opnd,
    pub o3: Opnd,
    pub o4: Opnd,
    pub mem: Mem,
    /// immediate as the instruction sees it (sign-extended where the ISA sign-extends,
    /// counts / rounding modes zero-extended)
    pub imm: i64,
    /// branch displacement relative to the end of the instruction
    pub rel: i64,
    pub lock: bool,
    /// F3 / F2 present and not consumed as a mandatory prefix
    pub rep: bool,
    pub repne: bool,
    /// 66 present and not consumed as a mandatory prefix
    pub p66: bool,
    pub vex: bool,
    /// shift / rotate count comes from CL
    pub by_cl: bool,
    pub len: usize,
}

impl Insn {
    pub fn blank() -> Insn {
        Insn {
            mn: MN_NONE,
            opsize: 0,
            cc: NOCC,
            o1: Opnd::NONE,
            o2: Opnd::NONE,
            o3: Opnd::NONE,
            o4: Opnd::NONE,
            mem: Mem::NONE,
            imm: 0,
            rel: 0,
            lock: false,
            rep: false,
            repne: false,
            p66: false,
            vex: false,
            by_cl: false,
            len: 0,
        }
    }

    /// everything but the length
    pub fn same(&self, o: &Insn) -> bool {
        self.mn == o.mn
            && self.opsize == o.opsize
            && self.cc == o.cc
            && self.o1.same(&o.o1)
            && self.o2.same(&o.o2)
            && self.o3.same(&o.o3)
            && self.o4.same(&o.o4)
            && self.mem.same(&o.mem)
            && self.imm == o.imm
            && self.rel == o.rel
            && self.lock == o.lock
            && self.rep == o.rep
            && self.repne == o.repne
            && self.p66 == o.p66
            && self.vex == o.vex
            && self.by_cl == o.by_cl
    }
}

// =============================================================================================
// Decoding proper.  Structure chosen for the benefit of symbolic execution: the opcode is
// classified by a straight-line table lookup (`lookup_1b` / `lookup_0f` / `lookup_vex`), the
// ModRM/SIB/displacement are parsed at ONE place, the immediate is read at ONE place, and the
// operands are built from a small template.  Byte reads never return Option: reading past the
// end sets `bad` and the result is discarded at the end.

struct Cur<'a> {
    code: &'a [u8],
    pos: usize,
    bad: bool,
}

impl<'a> Cur<'a> {
    #[inline(never)]
    fn u8(&mut self) -> u8 {
        if self.pos < self.code.len() {
            let b = self.code[self.pos];
            self.pos += 1;
            b
        } else {
            self.bad = true;
            0
        }
    }
}

// operand templates
const F_NONE: u8 = 0;
const F_E_G: u8 = 1; // o1 = r/m, o2 = reg
const F_G_E: u8 = 2; // o1 = reg, o2 = r/m
const F_A_I: u8 = 3; // o1 = accumulator, o2 = imm
const F_E_I: u8 = 4; // o1 = r/m, o2 = imm
const F_E: u8 = 5; // o1 = r/m
const F_E_CL: u8 = 6; // o1 = r/m, o2 = CL
const F_O: u8 = 7; // o1 = register in the opcode byte
const F_O_I: u8 = 8;
const F_REL: u8 = 9;
const F_G_M: u8 = 10; // lea
const F_V_W: u8 = 11; // o1 = xmm (reg field), o2 = xmm/mem
const F_W_V: u8 = 12;
const F_V_E: u8 = 13; // o1 = xmm (reg field), o2 = gpr/mem
const F_E_V: u8 = 14;
const F_G_W: u8 = 15; // o1 = gpr (reg field), o2 = xmm/mem
const F_V_W_I: u8 = 16;
const F_V_H_W: u8 = 17; // VEX three operand: reg field, vvvv, r/m
const F_V_H_E: u8 = 18;
const F_V_H_W_I: u8 = 19;
const F_VMOVS_LD: u8 = 20; // VEX 10: mem: V, M ; reg: V, H, U
const F_VMOVS_ST: u8 = 21; // VEX 11: mem: M, V ; reg: U, H, V

// immediate kinds
const I_NONE: u8 = 0;
const I_B_S: u8 = 1; // one byte, sign-extended
const I_B_U: u8 = 2; // one byte, zero-extended (counts, rounding modes)
const I_Z: u8 = 3; // 2 bytes if the operation is 16-bit wide, else 4; sign-extended
const I_Q: u8 = 4; // 8 bytes
const I_ONE: u8 = 5; // implicit 1 (shift-by-one forms)
const I_REL8: u8 = 6;
const I_REL32: u8 = 7;

#[derive(Copy, Clone)]
struct Info {
    ok: bool,
    mn: u16,
    opsize: u8,
    form: u8,
    /// class of operand 1, 2, 3 (register class, or access width for memory)
    c1: u8,
    c2: u8,
    c3: u8,
    immk: u8,
    cc: u8,
    modrm: bool,
    /// 0 none, 1 = 80/81/83, 2 = shifts, 3 = C6/C7, 4 = F6/F7, 5 = FF
    group: u8,
    used66: bool,
    usedrep: bool,
    lockable: bool,
    /// VEX two-operand form: vvvv must be 1111b
    novvvv: bool,
}

const BAD: Info = Info {
    ok: false,
    mn: MN_NONE,
    opsize: 0,
    form: F_NONE,
    c1: 0,
    c2: 0,
    c3: 0,
    immk: I_NONE,
    cc: NOCC,
    modrm: false,
    group: 0,
    used66: false,
    usedrep: false,
    lockable: false,
    novvvv: false,
};

fn info(mn: u16, opsize: u8, form: u8, c1: u8, c2: u8, immk: u8, modrm: bool) -> Info {
    Info { ok: true, mn, opsize, form, c1, c2, c3: 0, immk, cc: NOCC, modrm, group: 0, used66: false, usedrep: false, lockable: false, novvvv: false }
}

fn alu_mn(op: u8) -> u16 {
    match op & 7 {
        0 => MN_ADD,
        1 => MN_OR,
        2 => MN_ADC,
        3 => MN_SBB,
        4 => MN_AND,
        5 => MN_SUB,
        6 => MN_XOR,
        _ => MN_CMP,
    }
}

fn shift_mn(digit: u8) -> u16 {
    match digit & 7 {
        0 => MN_ROL,
        1 => MN_ROR,
        2 => MN_RCL,
        3 => MN_RCR,
        4 => MN_SHL,
        5 => MN_SHR,
        6 => MN_SHL, // SAL, alias of SHL
        _ => MN_SAR,
    }
}

/// one-byte opcode map (SDM vol. 2 table A-2), 64-bit mode.
/// `vs` = width of a "v" operand (16/32/64), `p66` = 66 prefix seen, `rep` = 0/2 (F2)/3 (F3),
/// `rexb` = REX.B
fn lookup_1b(b: u8, vs: u8, p66: bool, rep: u8, rexb: u8) -> Info {
    let bs: u8 = if b & 1 == 0 { C8 } else { vs }; // the usual "bit 0 = byte/word" rule
    let stack: u8 = if p66 { C16 } else { C64 };
    match b {
        0x00..=0x3F => {
            let mn = alu_mn(b >> 3);
            match b & 7 {
                0 | 1 => {
                    let mut i = info(mn, bs, F_E_G, bs, bs, I_NONE, true);
                    i.lockable = mn != MN_CMP;
                    i
                }
                2 | 3 => info(mn, bs, F_G_E, bs, bs, I_NONE, true),
                4 => info(mn, C8, F_A_I, C8, 0, I_B_S, false),
                5 => info(mn, vs, F_A_I, vs, 0, I_Z, false),
                // x6/x7/xE/xF: push/pop seg, daa, ...: invalid in 64-bit mode (0F is the escape,
                // 26/2E/36/3E are prefixes; both handled by the caller)
                _ => BAD,
            }
        }
        0x50..=0x57 => info(MN_PUSH, stack, F_O, stack, 0, I_NONE, false),
        0x58..=0x5F => info(MN_POP, stack, F_O, stack, 0, I_NONE, false),
        0x63 => info(MN_MOVSXD, vs, F_G_E, vs, if vs == C16 { C16 } else { C32 }, I_NONE, true),
        0x70..=0x7F => {
            let mut i = info(MN_JCC, C64, F_REL, 0, 0, I_REL8, false);
            i.cc = b & 0xF;
            i
        }
        0x80 | 0x81 | 0x83 => {
            let mut i = info(MN_NONE, bs, F_E_I, bs, 0, if b == 0x81 { I_Z } else { I_B_S }, true);
            i.group = 1;
            i
        }
        0x84 | 0x85 => info(MN_TEST, bs, F_E_G, bs, bs, I_NONE, true),
        0x86 | 0x87 => {
            let mut i = info(MN_XCHG, bs, F_E_G, bs, bs, I_NONE, true);
            i.lockable = true;
            i
        }
        0x88 | 0x89 => info(MN_MOV, bs, F_E_G, bs, bs, I_NONE, true),
        0x8A | 0x8B => info(MN_MOV, bs, F_G_E, bs, bs, I_NONE, true),
        0x8D => info(MN_LEA, vs, F_G_M, vs, 0, I_NONE, true),
        0x90 => {
            // 90 with REX.B is XCHG r8, rAX; F3 90 is PAUSE: neither is offered
            if rexb == 1 || rep != 0 {
                BAD
            } else {
                info(MN_NOP, 0, F_NONE, 0, 0, I_NONE, false)
            }
        }
        0x99 => {
            let mn = if vs == C64 {
                MN_CQO
            } else if vs == C16 {
                MN_CWD
            } else {
                MN_CDQ
            };
            info(mn, vs, F_NONE, 0, 0, I_NONE, false)
        }
        0xA8 => info(MN_TEST, C8, F_A_I, C8, 0, I_B_S, false),
        0xA9 => info(MN_TEST, vs, F_A_I, vs, 0, I_Z, false),
        0xB0..=0xB7 => info(MN_MOV, C8, F_O_I, C8, 0, I_B_S, false),
        0xB8..=0xBF => info(MN_MOV, vs, F_O_I, vs, 0, if vs == C64 { I_Q } else { I_Z }, false),
        0xC0 | 0xC1 => {
            let mut i = info(MN_NONE, bs, F_E_I, bs, 0, I_B_U, true);
            i.group = 2;
            i
        }
        0xD0 | 0xD1 => {
            let mut i = info(MN_NONE, bs, F_E_I, bs, 0, I_ONE, true);
            i.group = 2;
            i
        }
        0xD2 | 0xD3 => {
            let mut i = info(MN_NONE, bs, F_E_CL, bs, C8, I_NONE, true);
            i.group = 2;
            i
        }
        0xC3 => info(MN_RET, C64, F_NONE, 0, 0, I_NONE, false),
        0xC6 | 0xC7 => {
            let mut i = info(MN_MOV, bs, F_E_I, bs, 0, if b == 0xC6 { I_B_S } else { I_Z }, true);
            i.group = 3;
            i
        }
        0xCC => info(MN_INT3, 0, F_NONE, 0, 0, I_NONE, false),
        0xE8 => info(MN_CALL, C64, F_REL, 0, 0, I_REL32, false),
        0xE9 => info(MN_JMP, C64, F_REL, 0, 0, I_REL32, false),
        0xEB => info(MN_JMP, C64, F_REL, 0, 0, I_REL8, false),
        0xF6 | 0xF7 => {
            let mut i = info(MN_NONE, bs, F_E, bs, 0, I_NONE, true);
            i.group = 4;
            i
        }
        0xFF => {
            let mut i = info(MN_NONE, vs, F_E, vs, 0, I_NONE, true);
            i.group = 5;
            i
        }
        _ => BAD,
    }
}

/// the /digit of a group opcode decides the mnemonic (SDM vol. 2 table A-6)
fn refine_group(mut i: Info, b: u8, digit: u8, p66: bool) -> Info {
    match i.group {
        1 => {
            i.mn = alu_mn(digit);
            i.lockable = i.mn != MN_CMP;
        }
        2 => {
            i.mn = shift_mn(digit);
        }
        3 => {
            if digit != 0 {
                return BAD;
            }
        }
        4 => match digit {
            0 | 1 => {
                i.mn = MN_TEST;
                i.form = F_E_I;
                i.immk = if b == 0xF6 { I_B_S } else { I_Z };
            }
            2 => {
                i.mn = MN_NOT;
                i.lockable = true;
            }
            3 => {
                i.mn = MN_NEG;
                i.lockable = true;
            }
            4 => i.mn = MN_MUL,
            5 => i.mn = MN_IMUL,
            6 => i.mn = MN_DIV,
            _ => i.mn = MN_IDIV,
        },
        5 => match digit {
            0 | 1 => {
                i.mn = if digit == 0 { MN_INC } else { MN_DEC };
                i.lockable = true;
            }
            2 | 4 | 6 => {
                // near indirect call / jmp, push: operand size is 64 bits in 64-bit mode
                i.mn = if digit == 2 {
                    MN_CALL
                } else if digit == 4 {
                    MN_JMP
                } else {
                    MN_PUSH
                };
                let s: u8 = if p66 { C16 } else { C64 };
                i.opsize = s;
                i.c1 = s;
            }
            _ => return BAD,
        },
        _ => {}
    }
    i
}

/// two-byte opcode map 0F xx (SDM vol. 2 table A-3).  `w` = REX.W
fn lookup_0f(op: u8, vs: u8, p66: bool, rep: u8, w: u8) -> Info {
    let isz: u8 = if w == 1 { C64 } else { C32 };
    match op {
        // ---- SSE: the column is selected by the mandatory prefix (none/66/F3/F2) ----------
        0x10 | 0x11 => {
            if rep != 0 && p66 {
                return BAD;
            }
            let (mn, mc) = if rep == 3 {
                (MN_MOVSS, C32)
            } else if rep == 2 {
                (MN_MOVSD, C64)
            } else if p66 {
                (MN_MOVUPD, CX)
            } else {
                (MN_MOVUPS, CX)
            };
            let mut i = if op == 0x10 { info(mn, mc, F_V_W, CX, mc, I_NONE, true) } else { info(mn, mc, F_W_V, mc, CX, I_NONE, true) };
            i.used66 = true;
            i.usedrep = true;
            i
        }
        0x28 | 0x29 => {
            if rep != 0 {
                return BAD;
            }
            let mn = if p66 { MN_MOVAPD } else { MN_MOVAPS };
            let mut i = if op == 0x28 { info(mn, CX, F_V_W, CX, CX, I_NONE, true) } else { info(mn, CX, F_W_V, CX, CX, I_NONE, true) };
            i.used66 = true;
            i
        }
        0x2A => {
            // F3: cvtsi2ss, F2: cvtsi2sd; no prefix / 66 are the MMX forms (not offered)
            if p66 || rep == 0 {
                return BAD;
            }
            let mut i = info(if rep == 3 { MN_CVTSI2SS } else { MN_CVTSI2SD }, isz, F_V_E, CX, isz, I_NONE, true);
            i.usedrep = true;
            i
        }
        0x2C => {
            if p66 || rep == 0 {
                return BAD;
            }
            let mut i = if rep == 3 { info(MN_CVTTSS2SI, isz, F_G_W, isz, C32, I_NONE, true) } else { info(MN_CVTTSD2SI, isz, F_G_W, isz, C64, I_NONE, true) };
            i.usedrep = true;
            i
        }
        0x2E => {
            if rep != 0 {
                return BAD;
            }
            let mut i = if p66 { info(MN_UCOMISD, C64, F_V_W, CX, C64, I_NONE, true) } else { info(MN_UCOMISS, C32, F_V_W, CX, C32, I_NONE, true) };
            i.used66 = true;
            i
        }
        0x51 | 0x58 | 0x59 | 0x5A | 0x5C | 0x5E => {
            // scalar forms only (F3 = single, F2 = double); packed forms are not offered
            if p66 || rep == 0 {
                return BAD;
            }
            let single = rep == 3;
            let mn = match op {
                0x51 => if single { MN_SQRTSS } else { MN_SQRTSD },
                0x58 => if single { MN_ADDSS } else { MN_ADDSD },
                0x59 => if single { MN_MULSS } else { MN_MULSD },
                0x5A => if single { MN_CVTSS2SD } else { MN_CVTSD2SS },
                0x5C => if single { MN_SUBSS } else { MN_SUBSD },
                _ => if single { MN_DIVSS } else { MN_DIVSD },
            };
            let mc = if single { C32 } else { C64 };
            let mut i = info(mn, mc, F_V_W, CX, mc, I_NONE, true);
            i.usedrep = true;
            i
        }
        0x54 | 0x57 => {
            if rep != 0 {
                return BAD;
            }
            let mn = if op == 0x54 {
                if p66 { MN_ANDPD } else { MN_ANDPS }
            } else if p66 {
                MN_XORPD
            } else {
                MN_XORPS
            };
            let mut i = info(mn, CX, F_V_W, CX, CX, I_NONE, true);
            i.used66 = true;
            i
        }
        0x6E | 0x7E => {
            // 66 [REX.W] 0F 6E/7E: movd/movq between xmm and r/m32|64
            // (no prefix: MMX form; F3 0F 7E: movq xmm, xmm/m64 -- not offered)
            if !p66 || rep != 0 {
                return BAD;
            }
            let mn = if w == 1 { MN_MOVQ } else { MN_MOVD };
            let mut i = if op == 0x6E { info(mn, isz, F_V_E, CX, isz, I_NONE, true) } else { info(mn, isz, F_E_V, isz, CX, I_NONE, true) };
            i.used66 = true;
            i
        }
        0xEF => {
            if !p66 || rep != 0 {
                return BAD;
            }
            let mut i = info(MN_PXOR, CX, F_V_W, CX, CX, I_NONE, true);
            i.used66 = true;
            i
        }
        // ---- general purpose ------------------------------------------------------------
        0x40..=0x4F => {
            let mut i = info(MN_CMOVCC, vs, F_G_E, vs, vs, I_NONE, true);
            i.cc = op & 0xF;
            i
        }
        0x80..=0x8F => {
            let mut i = info(MN_JCC, C64, F_REL, 0, 0, I_REL32, false);
            i.cc = op & 0xF;
            i
        }
        0x90..=0x9F => {
            let mut i = info(MN_SETCC, C8, F_E, C8, 0, I_NONE, true);
            i.cc = op & 0xF;
            i
        }
        0xAF => info(MN_IMUL, vs, F_G_E, vs, vs, I_NONE, true),
        0xB0 | 0xB1 | 0xC0 | 0xC1 => {
            let sz = if op & 1 == 0 { C8 } else { vs };
            let mut i = info(if op < 0xC0 { MN_CMPXCHG } else { MN_XADD }, sz, F_E_G, sz, sz, I_NONE, true);
            i.lockable = true;
            i
        }
        0xB6 | 0xB7 | 0xBE | 0xBF => {
            let src = if op & 1 == 0 { C8 } else { C16 };
            info(if op < 0xBE { MN_MOVZX } else { MN_MOVSX }, vs, F_G_E, vs, src, I_NONE, true)
        }
        0xB8 | 0xBC | 0xBD => {
            // F3 0F B8 popcnt, F3 0F BC tzcnt, F3 0F BD lzcnt; without F3 these are
            // jmpe / bsf / bsr, which are not offered
            if rep != 3 {
                return BAD;
            }
            let mn = if op == 0xB8 {
                MN_POPCNT
            } else if op == 0xBC {
                MN_TZCNT
            } else {
                MN_LZCNT
            };
            let mut i = info(mn, vs, F_G_E, vs, vs, I_NONE, true);
            i.usedrep = true;
            i
        }
        _ => BAD,
    }
}

/// three-byte map 0F 3A xx (table A-5)
fn lookup_0f3a(op: u8, p66: bool, rep: u8) -> Info {
    match op {
        0x0A | 0x0B => {
            if !p66 || rep != 0 {
                return BAD;
            }
            let mc = if op == 0x0A { C32 } else { C64 };
            let mut i = info(if op == 0x0A { MN_ROUNDSS } else { MN_ROUNDSD }, mc, F_V_W_I, CX, mc, I_B_U, true);
            i.used66 = true;
            i
        }
        _ => BAD,
    }
}

/// VEX encoded instructions (SDM vol. 2 ch. 2.3, the per-instruction VEX.* notation).
/// pp: 0 none, 1 = 66, 2 = F3, 3 = F2.  LIG / WIG instructions accept any L / W.
fn lookup_vex(map: u8, op: u8, pp: u8, w: u8, l: u8) -> Info {
    let isz: u8 = if w == 1 { C64 } else { C32 };
    let pc: u8 = if l == 1 { CY } else { CX };
    if map == 1 {
        match op {
            0x10 | 0x11 => {
                if pp < 2 {
                    return BAD; // vmovups / vmovupd are not offered
                }
                let (mn, mc) = if pp == 2 { (MN_MOVSS, C32) } else { (MN_MOVSD, C64) };
                info(mn, mc, if op == 0x10 { F_VMOVS_LD } else { F_VMOVS_ST }, CX, mc, I_NONE, true)
            }
            0x28 | 0x29 => {
                if pp > 1 {
                    return BAD;
                }
                let mn = if pp == 0 { MN_MOVAPS } else { MN_MOVAPD };
                let mut i = info(mn, pc, if op == 0x28 { F_V_W } else { F_W_V }, pc, pc, I_NONE, true);
                i.novvvv = true;
                i
            }
            0x2A => {
                if pp < 2 {
                    return BAD;
                }
                let mut i = info(if pp == 2 { MN_CVTSI2SS } else { MN_CVTSI2SD }, isz, F_V_H_E, CX, CX, I_NONE, true);
                i.c3 = isz;
                i
            }
            0x2C => {
                if pp < 2 {
                    return BAD;
                }
                let mut i = if pp == 2 { info(MN_CVTTSS2SI, isz, F_G_W, isz, C32, I_NONE, true) } else { info(MN_CVTTSD2SI, isz, F_G_W, isz, C64, I_NONE, true) };
                i.novvvv = true;
                i
            }
            0x2E => {
                if pp > 1 {
                    return BAD;
                }
                let mut i = if pp == 0 { info(MN_UCOMISS, C32, F_V_W, CX, C32, I_NONE, true) } else { info(MN_UCOMISD, C64, F_V_W, CX, C64, I_NONE, true) };
                i.novvvv = true;
                i
            }
            0x51 | 0x58 | 0x59 | 0x5A | 0x5C | 0x5E => {
                if pp < 2 {
                    return BAD;
                }
                let single = pp == 2;
                let mn = match op {
                    0x51 => if single { MN_SQRTSS } else { MN_SQRTSD },
                    0x58 => if single { MN_ADDSS } else { MN_ADDSD },
                    0x59 => if single { MN_MULSS } else { MN_MULSD },
                    0x5A => if single { MN_CVTSS2SD } else { MN_CVTSD2SS },
                    0x5C => if single { MN_SUBSS } else { MN_SUBSD },
                    _ => if single { MN_DIVSS } else { MN_DIVSD },
                };
                let mc = if single { C32 } else { C64 };
                let mut i = info(mn, mc, F_V_H_W, CX, CX, I_NONE, true);
                i.c3 = mc;
                i
            }
            0x54 | 0x57 => {
                if pp > 1 {
                    return BAD;
                }
                let mn = if op == 0x54 {
                    if pp == 1 { MN_ANDPD } else { MN_ANDPS }
                } else if pp == 1 {
                    MN_XORPD
                } else {
                    MN_XORPS
                };
                let mut i = info(mn, pc, F_V_H_W, pc, pc, I_NONE, true);
                i.c3 = pc;
                i
            }
            0x6E | 0x7E => {
                // VEX.128.66.0F.W0/W1 6E/7E: L must be 0
                if pp != 1 || l != 0 {
                    return BAD;
                }
                let mn = if w == 1 { MN_MOVQ } else { MN_MOVD };
                let mut i = if op == 0x6E { info(mn, isz, F_V_E, CX, isz, I_NONE, true) } else { info(mn, isz, F_E_V, isz, CX, I_NONE, true) };
                i.novvvv = true;
                i
            }
            _ => BAD,
        }
    } else if map == 3 {
        match op {
            0x0A | 0x0B => {
                if pp != 1 {
                    return BAD;
                }
                let mc = if op == 0x0A { C32 } else { C64 };
                let mut i = info(if op == 0x0A { MN_ROUNDSS } else { MN_ROUNDSD }, mc, F_V_H_W_I, CX, CX, I_B_U, true);
                i.c3 = mc;
                i
            }
            _ => BAD,
        }
    } else {
        BAD
    }
}

fn gpr(class: u8, num: u8, has_rex: bool) -> Opnd {
    if class == C8 && !has_rex && num >= 4 && num <= 7 {
        Opnd::reg(C8, num + 16)
    } else {
        Opnd::reg(class, num)
    }
}

/// Decode one instruction starting at `code[at]`.
pub fn decode(code: &[u8], at: usize) -> Option<Insn> {
    let mut c = Cur { code, pos: at, bad: false };
    let mut i = Insn::blank();

    // ---- legacy prefixes and REX (SDM 2.1.1, 2.2.1) --------------------------------------
    let mut p66 = false;
    let mut rep: u8 = 0; // 2 = F2, 3 = F3 (the last one wins)
    let mut lock = false;
    let mut rex: u8 = 0;
    let mut has_rex = false;
    let mut b = c.u8();
    let mut rounds = 0u8;
    loop {
        match b {
            0x66 => {
                p66 = true;
                has_rex = false;
                rex = 0;
            }
            0xF2 => {
                rep = 2;
                has_rex = false;
                rex = 0;
            }
            0xF3 => {
                rep = 3;
                has_rex = false;
                rex = 0;
            }
            0xF0 => {
                lock = true;
                has_rex = false;
                rex = 0;
            }
            0x40..=0x4F => {
                // a REX that is not immediately in front of the opcode is ignored
                rex = b;
                has_rex = true;
            }
            // segment overrides and address-size override: not offered
            0x26 | 0x2E | 0x36 | 0x3E | 0x64 | 0x65 | 0x67 => return None,
            _ => break,
        }
        rounds += 1;
        // at most 4 prefix bytes (e.g. LOCK, 66, F2/F3, REX); longer runs are not offered
        if rounds > 3 {
            return None;
        }
        b = c.u8();
    }

    // ---- opcode ----------------------------------------------------------------------------
    let mut w = (rex >> 3) & 1;
    let mut r = (rex >> 2) & 1;
    let mut x = (rex >> 1) & 1;
    let mut bb = rex & 1;
    let mut vvvv: u8 = 0;
    let mut is_vex = false;
    let mut opbyte = b;
    let mut inf: Info;
    if b == 0xC5 || b == 0xC4 {
        // VEX (SDM 2.3.5); any of 66/F2/F3/LOCK/REX in front of it is #UD (2.3.2, 2.3.3)
        if p66 || rep != 0 || lock || has_rex {
            return None;
        }
        let b1 = c.u8();
        r = ((!b1) >> 7) & 1;
        let map: u8;
        let l: u8;
        let pp: u8;
        if b == 0xC5 {
            x = 0;
            bb = 0;
            map = 1;
            w = 0;
            vvvv = ((!b1) >> 3) & 0xF;
            l = (b1 >> 2) & 1;
            pp = b1 & 3;
        } else {
            let b2 = c.u8();
            x = ((!b1) >> 6) & 1;
            bb = ((!b1) >> 5) & 1;
            map = b1 & 0x1F;
            w = b2 >> 7;
            vvvv = ((!b2) >> 3) & 0xF;
            l = (b2 >> 2) & 1;
            pp = b2 & 3;
        }
        opbyte = c.u8();
        inf = lookup_vex(map, opbyte, pp, w, l);
        is_vex = true;
        has_rex = true; // byte registers cannot occur; irrelevant
        if inf.novvvv && vvvv != 0 {
            return None;
        }
    } else {
        let vs: u8 = if w == 1 {
            C64
        } else if p66 {
            C16
        } else {
            C32
        };
        if b == 0x0F {
            opbyte = c.u8();
            if opbyte == 0x3A {
                opbyte = c.u8();
                inf = lookup_0f3a(opbyte, p66, rep);
            } else if opbyte == 0xAE {
                // NP 0F AE F0: mfence (the other /digits and prefixes of 0F AE are not offered)
                let m = c.u8();
                if m != 0xF0 || p66 || rep != 0 {
                    return None;
                }
                inf = info(MN_MFENCE, 0, F_NONE, 0, 0, I_NONE, false);
            } else {
                inf = lookup_0f(opbyte, vs, p66, rep, w);
            }
        } else {
            inf = lookup_1b(b, vs, p66, rep, bb);
        }
    }
    if !inf.ok {
        return None;
    }

    // ---- ModRM / SIB / displacement (SDM 2.1.5 tables 2-2, 2-3; 64-bit addressing) ---------
    let mut mode: u8 = 3;
    let mut reg: u8 = 0;
    let mut rm: u8 = 0;
    let mut mem = Mem::NONE;
    if inf.modrm {
        let m = c.u8();
        mode = m >> 6;
        let digit = (m >> 3) & 7;
        let rm3 = m & 7;
        reg = digit | (r << 3);
        rm = rm3 | (bb << 3);
        if inf.group != 0 {
            inf = refine_group(inf, opbyte, digit, p66);
            if !inf.ok {
                return None;
            }
        }
        // 0 = none, 1 = disp8, 4 = disp32
        let mut dispk: u8 = if mode == 1 {
            1
        } else if mode == 2 {
            4
        } else {
            0
        };
        if mode != 3 {
            if rm3 == 4 {
                let sib = c.u8();
                let idx = ((sib >> 3) & 7) | (x << 3);
                let bas3 = sib & 7;
                if idx != 4 {
                    mem.index = idx;
                    mem.scale = 1u8 << (sib >> 6);
                }
                if bas3 == 5 && mode == 0 {
                    dispk = 4; // no base, disp32
                } else {
                    mem.base = bas3 | (bb << 3);
                }
            } else if rm3 == 5 && mode == 0 {
                mem.rip = true;
                dispk = 4;
            } else {
                mem.base = rm;
            }
            if dispk != 0 {
                let d0 = c.u8();
                if dispk == 1 {
                    mem.disp = d0 as i8 as i32;
                } else {
                    let d1 = c.u8();
                    let d2 = c.u8();
                    let d3 = c.u8();
                    mem.disp = ((d0 as u32) | ((d1 as u32) << 8) | ((d2 as u32) << 16) | ((d3 as u32) << 24)) as i32;
                }
            }
        }
    }
    let is_mem = mode != 3;

    // ---- immediate -------------------------------------------------------------------------
    let nimm: u8 = match inf.immk {
        I_B_S | I_B_U | I_REL8 => 1,
        I_Z => {
            if inf.opsize == C16 {
                2
            } else {
                4
            }
        }
        I_REL32 => 4,
        I_Q => 8,
        _ => 0,
    };
    let mut raw: u64 = 0;
    if nimm >= 1 {
        raw = c.u8() as u64;
    }
    if nimm >= 2 {
        raw |= (c.u8() as u64) << 8;
    }
    if nimm >= 4 {
        raw |= (c.u8() as u64) << 16;
        raw |= (c.u8() as u64) << 24;
    }
    if nimm >= 8 {
        raw |= (c.u8() as u64) << 32;
        raw |= (c.u8() as u64) << 40;
        raw |= (c.u8() as u64) << 48;
        raw |= (c.u8() as u64) << 56;
    }
    let sval: i64 = if nimm == 1 {
        raw as u8 as i8 as i64
    } else if nimm == 2 {
        raw as u16 as i16 as i64
    } else if nimm == 4 {
        raw as u32 as i32 as i64
    } else {
        raw as i64
    };
    match inf.immk {
        I_B_S | I_Z | I_Q => i.imm = sval,
        I_B_U => i.imm = (raw & 0xFF) as i64,
        I_ONE => i.imm = 1,
        I_REL8 | I_REL32 => i.rel = sval,
        _ => {}
    }

    // ---- operands --------------------------------------------------------------------------
    i.mn = inf.mn;
    i.opsize = inf.opsize;
    i.cc = inf.cc;
    i.mem = mem;
    i.vex = is_vex;
    let (c1, c2, c3) = (inf.c1, inf.c2, inf.c3);
    // r/m as general purpose register or memory / as xmm register or memory; reg field
    let e = |cl: u8| -> Opnd { if is_mem { Opnd::mem(cl) } else { gpr(cl, rm, has_rex) } };
    let wx = |memcl: u8, regcl: u8| -> Opnd { if is_mem { Opnd::mem(memcl) } else { Opnd::reg(regcl, rm) } };
    // register class of an xmm/ymm "W" operand whose memory width is `cl`
    let xc = |cl: u8| -> u8 { if cl == CY { CY } else { CX } };
    match inf.form {
        F_E_G => {
            i.o1 = e(c1);
            i.o2 = gpr(c2, reg, has_rex);
        }
        F_G_E => {
            i.o1 = gpr(c1, reg, has_rex);
            i.o2 = e(c2);
        }
        F_A_I => {
            i.o1 = Opnd::reg(c1, 0);
            i.o2 = Opnd::imm();
        }
        F_E_I => {
            i.o1 = e(c1);
            i.o2 = Opnd::imm();
        }
        F_E => {
            i.o1 = e(c1);
        }
        F_E_CL => {
            i.o1 = e(c1);
            i.o2 = Opnd::reg(C8, 1);
            i.by_cl = true;
        }
        F_O => {
            i.o1 = Opnd::reg(c1, (opbyte & 7) | (bb << 3));
        }
        F_O_I => {
            i.o1 = gpr(c1, (opbyte & 7) | (bb << 3), has_rex);
            i.o2 = Opnd::imm();
        }
        F_REL => {
            i.o1 = Opnd::rel();
        }
        F_G_M => {
            if !is_mem {
                return None;
            }
            i.o1 = gpr(c1, reg, has_rex);
            i.o2 = Opnd::mem(0);
        }
        F_V_W => {
            i.o1 = Opnd::reg(c1, reg);
            i.o2 = wx(c2, xc(c2));
        }
        F_W_V => {
            i.o1 = wx(c1, xc(c1));
            i.o2 = Opnd::reg(c2, reg);
        }
        F_V_E => {
            i.o1 = Opnd::reg(c1, reg);
            i.o2 = e(c2);
        }
        F_E_V => {
            i.o1 = e(c1);
            i.o2 = Opnd::reg(c2, reg);
        }
        F_G_W => {
            i.o1 = Opnd::reg(c1, reg);
            i.o2 = wx(c2, CX);
        }
        F_V_W_I => {
            i.o1 = Opnd::reg(c1, reg);
            i.o2 = wx(c2, CX);
            i.o3 = Opnd::imm();
        }
        F_V_H_W => {
            i.o1 = Opnd::reg(c1, reg);
            i.o2 = Opnd::reg(c2, vvvv);
            i.o3 = wx(c3, xc(c3));
        }
        F_V_H_E => {
            i.o1 = Opnd::reg(c1, reg);
            i.o2 = Opnd::reg(c2, vvvv);
            i.o3 = e(c3);
        }
        F_V_H_W_I => {
            i.o1 = Opnd::reg(c1, reg);
            i.o2 = Opnd::reg(c2, vvvv);
            i.o3 = wx(c3, CX);
            i.o4 = Opnd::imm();
        }
        F_VMOVS_LD | F_VMOVS_ST => {
            // c2 = memory width
            if is_mem {
                if vvvv != 0 {
                    return None;
                }
                if inf.form == F_VMOVS_LD {
                    i.o1 = Opnd::reg(CX, reg);
                    i.o2 = Opnd::mem(c2);
                } else {
                    i.o1 = Opnd::mem(c2);
                    i.o2 = Opnd::reg(CX, reg);
                }
            } else if inf.form == F_VMOVS_LD {
                i.o1 = Opnd::reg(CX, reg);
                i.o2 = Opnd::reg(CX, vvvv);
                i.o3 = Opnd::reg(CX, rm);
            } else {
                i.o1 = Opnd::reg(CX, rm);
                i.o2 = Opnd::reg(CX, vvvv);
                i.o3 = Opnd::reg(CX, reg);
            }
        }
        _ => {}
    }

    // ---- prefixes that were not part of the opcode -------------------------------------------
    i.lock = lock;
    // LOCK is #UD unless the destination is memory and the instruction is lockable
    if lock && !(inf.lockable && i.o1.kind == K_MEM) {
        return None;
    }
    i.p66 = p66 && !inf.used66;
    i.rep = rep == 3 && !inf.usedrep;
    i.repne = rep == 2 && !inf.usedrep;

    if c.bad {
        return None;
    }
    i.len = c.pos - at;
    if i.len > 15 {
        return None;
    }
    Some(i)
}
