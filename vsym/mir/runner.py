"""Parallel driver for seq-mode harnesses: frontier expansion in the parent, sub-trees in a
fork()ed pool.  A harness is a function body(ctx, out) executed once per feasible path."""
import multiprocessing as mp
import os
import time

import z3

from ..common import Inconclusive, log
from .interp import Ctx, Explorer, PathAbort


class FrontierReached(Exception):
    pass


class Out:
    """per-process collector"""

    def __init__(self):
        self.paths = 0
        self.checks = 0            # verdict queries asked (negated assertions)
        self.violations = []       # dicts
        self.witness = {}          # vacuity: name -> True when seen reachable
        self.samples = []
        self.outcomes = {}

    def seen(self, name):
        self.witness[name] = True

    def outcome(self, name):
        self.outcomes[name] = self.outcomes.get(name, 0) + 1

    def require(self, ctx, cond, what, inputs, **extra):
        """assert `cond` on this path: asks the solver for pc ∧ ¬cond; a model is a counterexample.
        inputs: dict name -> z3 term to evaluate in the model"""
        self.checks += 1
        neg = z3.simplify(z3.Not(cond))
        if z3.is_false(neg):
            return True
        if not ctx.can(neg):
            return True
        m = ctx.model(neg)
        w = {}
        for k, t in inputs.items():
            v = m.eval(t, model_completion=True)
            w[k] = v.as_long() if z3.is_bv_value(v) else str(v)
        v = {"what": what, "witness": w}
        v.update(extra)
        self.violations.append(v)
        return False

    def merge(self, o):
        self.paths += o.paths
        self.checks += o.checks
        self.violations += o.violations
        self.witness.update(o.witness)
        for k, v in o.outcomes.items():
            self.outcomes[k] = self.outcomes.get(k, 0) + v
        for s in o.samples:
            if len(self.samples) < 12:
                self.samples.append(s)
        for attr in ("fns", "models"):
            if attr in o.__dict__:
                self.__dict__.setdefault(attr, set()).update(o.__dict__[attr])


class DepthCtx(Ctx):
    def __init__(self, explorer, prefix, depth):
        Ctx.__init__(self, explorer, prefix)
        self.depth = depth

    def branch(self, cond):
        c = z3.simplify(cond)
        if not (z3.is_true(c) or z3.is_false(c)) and self.pos >= len(self.prefix) and len(self.trace) >= self.depth:
            raise FrontierReached()
        return Ctx.branch(self, cond)


_G = {}


def _stats(ex):
    return {"queries": ex.queries, "verdict_queries": ex.verdict_queries, "forks": ex.forks, "pruned": ex.pruned,
            "solver_time": ex.solver_time, "paths": ex.paths, "aborted": ex.aborted}


def _worker(job):
    name, prefix = job
    body, qt, deadline = _G["bodies"][name], _G["qt"], _G["deadline"]
    ex = Explorer(query_timeout_ms=qt, deadline=deadline)
    out = Out()

    def run_one(ctx):
        body(ctx, out)
        out.paths += 1
    try:
        ex.run(run_one, prefixes=[prefix])
    except Inconclusive as e:
        return name, out, _stats(ex), str(e)
    return name, out, _stats(ex), None


def run_harnesses(bodies, jobs=None, depth=6, query_timeout_ms=60000, deadline=None):
    """bodies: dict name -> body(ctx, out).  Returns dict name -> (Out, stats).  Raises Inconclusive."""
    jobs = jobs or int(os.environ.get("VERIF_JOBS", "16"))
    results = {}
    frontier = []
    agg = {}
    for name, body in bodies.items():
        ex = Explorer(query_timeout_ms=query_timeout_ms, deadline=deadline)
        out = Out()
        work = [()]
        while work:
            prefix = work.pop()
            ctx = DepthCtx(ex, prefix, depth)
            ex.work = []
            try:
                body(ctx, out)
                out.paths += 1
                ex.paths += 1
            except PathAbort:
                ex.aborted += 1
            except FrontierReached:
                frontier.append((name, tuple(ctx.trace)))
                # alternatives pushed before reaching the frontier still need exploring
            work.extend(ex.work)
        results[name] = out
        agg[name] = _stats(ex)
    if frontier:
        _G["bodies"], _G["qt"], _G["deadline"] = bodies, query_timeout_ms, deadline
        if jobs > 1 and len(frontier) > 1:
            ctxm = mp.get_context("fork")
            with ctxm.Pool(min(jobs, len(frontier))) as pool:
                res = pool.map(_worker, frontier, chunksize=1)
        else:
            res = [_worker(j) for j in frontier]
        for name, out, st, err in res:
            if err:
                raise Inconclusive("%s: %s" % (name, err))
            results[name].merge(out)
            for k, v in st.items():
                agg[name][k] += v
    return {n: (results[n], agg[n]) for n in bodies}
