#!/bin/bash
# offline setup: nothing heavy — tool presence + scratch dirs. Everything else is rebuilt by the checks.
set -e
cd "$(dirname "$0")"
mkdir -p .work evidence replay
python3-vt -c "import z3, jsonschema; print('z3', z3.get_version_string())"
cargo kani --version
which llvm-objdump-14 llvm-objdump 2>/dev/null | head -1
echo setup ok
