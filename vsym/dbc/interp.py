"""Path-exploring interpreter of Dora register bytecode over z3 terms.

One engine, two uses:
  * symbolic: arguments are z3 constants; every conditional whose condition does not simplify to a
    literal forks; the result is the complete list of syntactic paths, each with its path condition
    (a list of z3 Bools) and its outcome.  No solver call happens during exploration — feasibility
    is decided by the verdict queries of the check (so a wrong "infeasible" can not drop a path).
  * concrete: arguments are z3 numerals; `simplify` folds every condition to true/false, exactly
    one path results.  Used to validate the interpreter against the real executables.

Semantics sources (read on 2026-09-23, see NOTES.md): dora-cannon-compiler/src/codegen.rs
(emit_switch, emit_test_generic, emit_jump_if, emit_sub/emit_checked_*, emit_load_enum_variant,
emit_int64_to_int, emit_extend_uint8), dora-cannon-compiler/src/masm/x64.rs (div_common, shifts)
and pkgs/boots/codegen/x64.dora (emit_switch).
"""
import sys

import z3

from .parser import INVOKES, Unsupported

sys.setrecursionlimit(20000)

INT_BITS = {"Int32": 32, "Int64": 64, "UInt8": 8, "Char": 32}


class EncodingError(Exception):
    """The interpreter met a state it must never be in (sort mismatch, fork in concrete mode)."""


class TupleVal:
    def __init__(self, items):
        self.items = list(items)

    def __repr__(self):
        return "(" + ", ".join(map(repr, self.items)) + ")"


class EnumVal:
    """Value of an enum with payloads: symbolic tag + one field vector per variant (a sum encoded as
    a product; only the vector of the variant named by the tag is meaningful)."""

    def __init__(self, name, tag, fields):
        self.name, self.tag, self.fields = name, tag, fields

    def __repr__(self):
        return "%s{tag=%r %r}" % (self.name, self.tag, self.fields)


class Outcome:
    def __init__(self, kind, value=None, info=None):
        self.kind, self.value, self.info = kind, value, info   # ret | unreachable | fatal | trap | wrong_variant

    def __repr__(self):
        return "%s(%r%s)" % (self.kind, self.value, (", " + str(self.info)) if self.info else "")


class Path:
    def __init__(self, conds, outcome, trace):
        self.conds, self.outcome, self.trace = conds, outcome, trace


# ---------------------------------------------------------------------------------------
# types

def split_top(s, sep=","):
    out, depth, cur = [], 0, ""
    for ch in s:
        if ch in "([":
            depth += 1
        elif ch in ")]":
            depth -= 1
        if ch == sep and depth == 0:
            out.append(cur.strip())
            cur = ""
        else:
            cur += ch
    if cur.strip():
        out.append(cur.strip())
    return out


def norm_type(t):
    """Register type as printed by the dumper -> the source spelling used as key ('enum E' -> 'E')."""
    t = t.strip()
    if t.startswith("enum "):
        t = t[5:].strip()
    return t


def is_simple_enum(decl):
    return all(len(fs) == 0 for _, fs in decl)


class Types:
    def __init__(self, enums):
        self.enums = enums   # name -> [(variant, [field types])]

    def fresh(self, t, name, valid):
        """Fresh symbolic value of type t; appends the validity constraints (what values of that
        type can exist at run time) to `valid`."""
        t = norm_type(t)
        if t == "Bool":
            return z3.Bool(name)
        if t in INT_BITS:
            v = z3.BitVec(name, INT_BITS[t])
            if t == "Char":   # Unicode scalar values only
                valid.append(z3.And(z3.ULE(v, 0x10FFFF), z3.Or(z3.ULT(v, 0xD800), z3.UGT(v, 0xDFFF))))
            return v
        if t == "()":
            return None
        if t.startswith("(") and t.endswith(")"):
            return TupleVal([self.fresh(s, "%s.%d" % (name, i), valid) for i, s in enumerate(split_top(t[1:-1]))])
        if t in self.enums:
            decl = self.enums[t]
            tag = z3.BitVec(name + ".tag", 32)
            valid.append(z3.ULT(tag, len(decl)))
            if is_simple_enum(decl):
                return tag
            fields = {}
            for vi, (vn, fts) in enumerate(decl):
                fields[vi] = [self.fresh(ft, "%s.%s.%d" % (name, vn, i), valid) for i, ft in enumerate(fts)]
            return EnumVal(t, tag, fields)
        raise Unsupported("type %s" % t)

    def check(self, t, v, where):
        t = norm_type(t)
        ok = True
        if t == "Bool":
            ok = z3.is_bool(v)
        elif t in INT_BITS:
            ok = z3.is_bv(v) and v.size() == INT_BITS[t]
        elif t == "()":
            ok = v is None
        elif t.startswith("("):
            ok = isinstance(v, TupleVal)
        elif t in self.enums:
            ok = isinstance(v, EnumVal) if not is_simple_enum(self.enums[t]) else (z3.is_bv(v) and v.size() == 32)
        else:
            raise Unsupported("register type %s (%s)" % (t, where))
        if not ok:
            raise EncodingError("value %r does not have type %s (%s)" % (v, t, where))


def _bv(v):
    return z3.is_bv(v)


def _simp(e):
    return z3.simplify(e)


# ---------------------------------------------------------------------------------------

class Interp:
    def __init__(self, prog, enums=None, consts=None, ufs=None, max_paths=20000, fuel=20000, concrete=False):
        """prog: parser.Program.  enums: declarations from the generated source.  consts: values of
        `const` items (path -> (type, int)) read from the generated source.  ufs: function name ->
        z3 function: calls to these are *not* interpreted but become applications (opaque guards)."""
        self.prog = prog
        self.types = Types(enums or {})
        self.consts = consts or {}
        self.ufs = ufs or {}
        self.max_paths = max_paths
        self.fuel = fuel
        self.concrete = concrete
        self.npaths = 0
        self.steps = 0
        self.ops_seen = set()
        self.forks = 0
        self.pruned = 0
        self.undef_reads = 0

    # -- public -------------------------------------------------------------------------
    def run(self, fname, args):
        f = self.prog.function(fname)
        self.npaths = 0
        paths = []
        for conds, out, trace in self._call_body(f, list(args), [], 0):
            paths.append(Path(conds, out, trace))
        if self.concrete and len(paths) != 1:
            raise EncodingError("concrete run of %s produced %d paths" % (fname, len(paths)))
        return paths

    # -- calls --------------------------------------------------------------------------
    def _call_body(self, f, args, conds, depth):
        if depth > 40:
            raise Unsupported("call depth")
        regs = {}
        for i, a in enumerate(args):
            self.types.check(f.regs[i], a, "%s argument %d" % (f.name, i))
            regs[i] = a
        yield from self._run(f, regs, 0, conds, (), depth, self.fuel)

    def _invoke(self, f, ins, regs, conds, depth):
        """yields (conds, Outcome) — Outcome.kind == 'ret' carries the returned value."""
        name = ins.a["name"]
        args = [regs[r] for r in ins.a["args"]]
        if name == "std::unreachable":
            yield conds, Outcome("unreachable", info="%s@%d" % (f.name, ins.off))
            return
        if name == "std::fatal_error":
            yield conds, Outcome("fatal", info="%s@%d" % (f.name, ins.off))
            return
        if name in self.ufs:
            uf = self.ufs[name]
            flat = []
            for a in args:
                if isinstance(a, (TupleVal, EnumVal)) or a is None:
                    raise Unsupported("opaque call %s with a compound argument" % name)
                flat.append(a)
            yield conds, Outcome("ret", uf(*flat))
            return
        m = INTRINSICS.get(name)
        if m is not None:
            yield conds, Outcome("ret", m(*args))
            return
        if self.prog.has(name) and not name.startswith("std::"):
            callee = self.prog.function(name)
            for c2, out, _tr in self._call_body(callee, args, conds, depth + 1):
                yield c2, out
            return
        raise Unsupported("call to %s (no model, not a kernel function)" % name)

    # -- one function -------------------------------------------------------------------
    def _set(self, f, regs, d, v, ins):
        self.types.check(f.regs[d], v, "%s: %s" % (f.name, ins.raw))
        regs[d] = v

    def _get(self, f, regs, r, ins):
        if r not in regs:
            # a register read before any write on this path: the real frame slot holds whatever was
            # there.  Symbolic mode: an unconstrained fresh value (counted; a verdict that depends on
            # it can only be reported after a reproducing run).  Concrete mode: no prediction possible.
            if self.concrete:
                raise EncodingError("read of unwritten register r%d in %s: %s" % (r, f.name, ins.raw))
            self.undef_reads += 1
            junk = []
            regs[r] = self.types.fresh(f.regs[r], "undef_%s_r%d_%d" % (f.name, r, self.undef_reads), junk)
        return regs[r]

    def _branch(self, cond, conds=()):
        """-> list of (extra condition or None, taken?) for a Bool term.  A condition that is
        *syntactically* one of the literals already on the path (or its negation) does not fork:
        that is propositional identity, no solver is involved."""
        c = _simp(cond)
        if z3.is_true(c):
            return [(None, True)]
        if z3.is_false(c):
            return [(None, False)]
        if self.concrete:
            raise EncodingError("condition did not fold in a concrete run: %s" % c)
        base, pol = (c.arg(0), False) if z3.is_not(c) else (c, True)
        for k in conds:
            kb, kp = (k.arg(0), False) if z3.is_not(k) else (k, True)
            if kb.eq(base):
                self.pruned += 1
                return [(None, kp == pol)]
        self.forks += 1
        return [(c, True), (z3.Not(base) if pol else base, False)]

    def _run(self, f, regs, idx, conds, trace, depth, fuel):
        while True:
            if idx >= len(f.instrs):
                raise EncodingError("fell off the end of %s" % f.name)
            fuel -= 1
            self.steps += 1
            if fuel <= 0:
                raise Unsupported("fuel exhausted in %s (loop?)" % f.name)
            ins = f.instrs[idx]
            op, a = ins.op, ins.a
            self.ops_seen.add(op)
            trace = trace + (ins.off,)
            G = lambda r: self._get(f, regs, r, ins)

            if op == "Mov":
                self._set(f, regs, a["d"], G(a["s"]), ins)
            elif op == "ConstTrue":
                self._set(f, regs, a["d"], z3.BoolVal(True), ins)
            elif op == "ConstFalse":
                self._set(f, regs, a["d"], z3.BoolVal(False), ins)
            elif op in ("ConstInt32", "ConstInt64", "ConstChar", "ConstUInt8"):
                bits = INT_BITS[op[5:]]
                self._set(f, regs, a["d"], z3.BitVecVal(a["v"], bits), ins)
            elif op in ("ConstZeroUInt8", "ConstZeroChar", "ConstZeroInt32", "ConstZeroInt64"):
                self._set(f, regs, a["d"], z3.BitVecVal(0, INT_BITS[op[9:]]), ins)
            elif op == "LoadConst":
                if a["path"] not in self.consts:
                    raise Unsupported("value of constant %s unknown" % a["path"])
                ty, val = self.consts[a["path"]]
                if ty == "Bool":
                    self._set(f, regs, a["d"], z3.BoolVal(bool(val)), ins)
                else:
                    self._set(f, regs, a["d"], z3.BitVecVal(val, INT_BITS[ty]), ins)
            elif op in ("Sub", "And", "Or", "Xor", "Shl", "Shr", "Sar"):
                l, r = G(a["l"]), G(a["r"])
                ty = norm_type(f.regs[a["d"]])
                if ty not in ("Int32", "Int64") or not _bv(l) or not _bv(r):
                    # `Sub` on floats, And/Or on Bool: not needed by matches, no reading given
                    raise Unsupported("%s on %s" % (op, ty))
                if op == "Sub":
                    v = l - r            # wrapping: codegen.rs emit_sub -> int_sub, no overflow check
                elif op == "And":
                    v = l & r
                elif op == "Or":
                    v = l | r
                elif op == "Xor":
                    v = l ^ r
                else:
                    # count is an Int32 register; x86 shl/shr/sar by cl mask the count to 5 / 6 bits
                    bits = l.size()
                    cnt = r
                    if cnt.size() < bits:
                        cnt = z3.ZeroExt(bits - cnt.size(), cnt)
                    elif cnt.size() > bits:
                        cnt = z3.Extract(bits - 1, 0, cnt)
                    cnt = cnt & (bits - 1)
                    v = (l << cnt) if op == "Shl" else (z3.LShR(l, cnt) if op == "Shr" else (l >> cnt))
                self._set(f, regs, a["d"], _simp(v), ins)
            elif op == "Not":
                s = G(a["s"])
                self._set(f, regs, a["d"], _simp(z3.Not(s) if z3.is_bool(s) else ~s), ins)
            elif op in ("CheckedAdd", "CheckedSub", "CheckedMul", "CheckedDiv", "CheckedMod", "CheckedNeg"):
                ty = norm_type(f.regs[a["d"]])
                if ty not in ("Int32", "Int64"):
                    raise Unsupported("%s on %s" % (op, ty))
                bits = INT_BITS[ty]
                mn = z3.BitVecVal(1 << (bits - 1), bits)
                traps = []     # (condition, kind) tried in order
                if op == "CheckedNeg":
                    s = G(a["s"])
                    traps.append((s == mn, "overflow"))
                    v = -s
                else:
                    l, r = G(a["l"]), G(a["r"])
                    if op == "CheckedAdd":
                        traps.append((z3.Not(z3.And(z3.BVAddNoOverflow(l, r, True), z3.BVAddNoUnderflow(l, r))), "overflow"))
                        v = l + r
                    elif op == "CheckedSub":
                        traps.append((z3.Not(z3.And(z3.BVSubNoOverflow(l, r), z3.BVSubNoUnderflow(l, r, True))), "overflow"))
                        v = l - r
                    elif op == "CheckedMul":
                        traps.append((z3.Not(z3.And(z3.BVMulNoOverflow(l, r, True), z3.BVMulNoUnderflow(l, r))), "overflow"))
                        v = l * r
                    else:
                        # masm/x64.rs div_common: test rhs,rhs; jz DIV0 — lhs == MIN && rhs == -1 -> OVERFLOW — cdq/cqo; idiv
                        traps.append((r == 0, "div0"))
                        traps.append((z3.And(l == mn, r == z3.BitVecVal(-1, bits)), "overflow"))
                        v = (l / r) if op == "CheckedDiv" else z3.SRem(l, r)
                cur = conds
                dead = False
                for tc, kind in traps:
                    nxt = None
                    for extra, taken in self._branch(tc, cur):
                        c2 = cur if extra is None else cur + [extra]
                        if taken:
                            yield from self._emit(c2, Outcome("trap", kind, "%s@%d" % (f.name, ins.off)), trace)
                        else:
                            nxt = c2
                    if nxt is None:
                        dead = True
                        break
                    cur = nxt
                if dead:
                    return
                conds = cur
                self._set(f, regs, a["d"], _simp(v), ins)
            elif op in ("TestEq", "TestNe", "TestGt", "TestGe", "TestLt", "TestLe"):
                l, r = G(a["l"]), G(a["r"])
                lt, rt = norm_type(f.regs[a["l"]]), norm_type(f.regs[a["r"]])
                if lt != rt:
                    raise EncodingError("Test* on different types in %s: %s" % (f.name, ins.raw))
                if lt == "Bool" or (lt in self.types.enums and is_simple_enum(self.types.enums[lt])):
                    if op not in ("TestEq", "TestNe"):
                        raise Unsupported("%s on %s" % (op, lt))
                    v = (l == r) if op == "TestEq" else (l != r)
                elif lt in INT_BITS:
                    # codegen.rs emit_test_generic: cmp in the operand's machine mode; unsigned
                    # condition codes for UInt8 only, signed for Int32/Int64/Char
                    uns = lt == "UInt8"
                    v = {"TestEq": lambda: l == r, "TestNe": lambda: l != r,
                         "TestGt": lambda: z3.UGT(l, r) if uns else l > r,
                         "TestGe": lambda: z3.UGE(l, r) if uns else l >= r,
                         "TestLt": lambda: z3.ULT(l, r) if uns else l < r,
                         "TestLe": lambda: z3.ULE(l, r) if uns else l <= r}[op]()
                else:
                    raise Unsupported("%s on %s" % (op, lt))
                self._set(f, regs, a["d"], _simp(v), ins)
            elif op == "Jump":
                idx = f.at[a["t"]]
                continue
            elif op == "JumpLoop":
                idx = f.at[a["t"]]
                continue
            elif op == "LoopStart":
                pass
            elif op in ("JumpIfTrue", "JumpIfFalse"):
                c = G(a["s"])
                if not z3.is_bool(c):
                    raise EncodingError("JumpIf on a non-Bool in %s: %s" % (f.name, ins.raw))
                want = op == "JumpIfTrue"
                alts = self._branch(c, conds)
                if len(alts) == 1:
                    idx = f.at[a["t"]] if alts[0][1] == want else idx + 1
                    continue
                for extra, taken in alts:
                    nidx = f.at[a["t"]] if taken == want else idx + 1
                    yield from self._run(f, dict(regs), nidx, conds + [extra], trace, depth, fuel)
                return
            elif op == "Switch":
                # codegen.rs emit_switch / boots x64 emit_switch: cmp r32, #len ; jae default ;
                # jmp table[r] — i.e. the operand is an *unsigned 32-bit* index
                s = G(a["s"])
                if not _bv(s) or s.size() != 32:
                    raise EncodingError("Switch operand is not a 32-bit integer in %s" % f.name)
                tg, dflt = a["targets"], a["default"]
                s1 = _simp(s)
                if z3.is_bv_value(s1):
                    n = s1.as_long()
                    idx = f.at[tg[n]] if n < len(tg) else f.at[dflt]
                    continue
                if self.concrete:
                    raise EncodingError("Switch operand did not fold in a concrete run")
                groups = {}     # target -> list of (lo, hi) index ranges
                for i, t in enumerate(tg):
                    rs = groups.setdefault(t, [])
                    if rs and rs[-1][1] == i - 1:
                        rs[-1] = (rs[-1][0], i)
                    else:
                        rs.append((i, i))
                order = sorted(groups, key=lambda t: groups[t][0][0])
                if dflt not in groups:
                    order.append(dflt)
                self.forks += 1
                for t in order:
                    ds = []
                    for lo, hi in groups.get(t, []):
                        ds.append(s == lo if lo == hi else z3.And(z3.UGE(s, lo), z3.ULE(s, hi)))
                    if t == dflt:
                        ds.append(z3.UGE(s, len(tg)))
                    c = _simp(z3.Or(ds) if len(ds) > 1 else ds[0])
                    yield from self._run(f, dict(regs), f.at[t], conds + [c], trace, depth, fuel)
                return
            elif op == "Ret":
                v = G(a["d"])
                yield from self._emit(conds, Outcome("ret", v), trace)
                return
            elif op == "LoadEnumVariant":
                s = G(a["s"])
                en = norm_type(f.regs[a["s"]])
                if en not in self.types.enums:
                    raise Unsupported("enum %s has no declaration" % en)
                # codegen.rs emit_load_enum_variant: Int layout -> the value itself; Ptr/Tagged -> variant index
                self._set(f, regs, a["d"], s.tag if isinstance(s, EnumVal) else s, ins)
            elif op == "LoadEnumElement":
                s = G(a["s"])
                en = norm_type(f.regs[a["s"]])
                if not isinstance(s, EnumVal) or en not in self.types.enums:
                    raise Unsupported("LoadEnumElement on %s" % en)
                decl = self.types.enums[en]
                vis = [i for i, (vn, _) in enumerate(decl) if vn == a["variant"]]
                if len(vis) != 1:
                    raise Unsupported("variant %s of %s" % (a["variant"], en))
                vi = vis[0]
                alive = None
                for extra, taken in self._branch(s.tag == vi, conds):
                    c2 = conds if extra is None else conds + [extra]
                    if taken:
                        alive = c2
                    else:
                        yield from self._emit(c2, Outcome("wrong_variant", info="%s@%d" % (f.name, ins.off)), trace)
                if alive is None:
                    return
                conds = alive
                self._set(f, regs, a["d"], s.fields[vi][a["elem"]], ins)
            elif op == "LoadField":
                s = G(a["s"])
                if not isinstance(s, TupleVal) or a["field"] is None or not a["field"].isdigit():
                    raise Unsupported("LoadField on %s" % f.regs[a["s"]])
                self._set(f, regs, a["d"], s.items[int(a["field"])], ins)
            elif op in INVOKES:
                if op not in ("InvokeDirect", "InvokeStatic"):
                    raise Unsupported(op)
                nxt = []
                for c2, out in self._invoke(f, ins, regs, conds, depth):
                    if out.kind == "ret":
                        nxt.append((c2, out.value))
                    else:
                        yield from self._emit(c2, out, trace)
                if not nxt:
                    return
                if len(nxt) == 1:
                    conds = nxt[0][0]
                    self._set(f, regs, a["d"], nxt[0][1], ins)
                else:
                    for c2, v in nxt:
                        r2 = dict(regs)
                        self._set(f, r2, a["d"], v, ins)
                        yield from self._run(f, r2, idx + 1, c2, trace, depth, fuel)
                    return
            else:
                raise Unsupported("opcode %s (%s: %s)" % (op, f.name, ins.raw))
            idx += 1

    def _emit(self, conds, out, trace):
        self.npaths += 1
        if self.npaths > self.max_paths:
            raise Unsupported("more than %d paths" % self.max_paths)
        yield conds, out, trace


# intrinsics reached from match lowering (int_dispatch.rs emit_jump_table_selector) and from guards
INTRINSICS = {
    # codegen.rs Intrinsic::UInt8ToInt32 -> emit_extend_uint8 (movzx)
    "std::primitives::<impl UInt8>::to_int32": lambda x: z3.ZeroExt(24, x),
    "std::primitives::<impl UInt8>::to_int64": lambda x: z3.ZeroExt(56, x),
    # codegen.rs Intrinsic::Int64ToInt32 -> emit_int64_to_int: 64-bit load, 32-bit store (truncation)
    "std::primitives::<impl Int64>::to_int32": lambda x: z3.Extract(31, 0, x),
    # codegen.rs Intrinsic::Int32ToInt64 -> emit_int_to_int64 (movsxd)
    "std::primitives::<impl Int32>::to_int64": lambda x: z3.SignExt(32, x),
    # CharToInt32 -> emit_shrink 32->32 (identity)
    "std::primitives::<impl Char>::to_int32": lambda x: x,
}


def concrete_value(v):
    """z3 numeral / nested value -> Python data (for comparison with program output)."""
    if v is None:
        return None
    if isinstance(v, TupleVal):
        return tuple(concrete_value(x) for x in v.items)
    v = z3.simplify(v)
    if z3.is_true(v):
        return True
    if z3.is_false(v):
        return False
    if z3.is_bv_value(v):
        return v.as_signed_long()
    raise EncodingError("not a concrete value: %r" % v)
