"""C17 — formatting never changes a program and is stable (dora-format), MIR-seq with a symbolic line length.

The only code of the formatter that depends on the line-length setting is the renderer (dora-format/src/render.rs):
`format_source_with_line_length(input, W)` = parse(input); `doc::format(root)` (no W); `render_doc_with_line_length(&doc, W)`;
re-parse + `assert!(no errors)`.  The check verifies this shape on the MIR of the working tree (the `line_length` parameter
flows into the call of `render_doc_with_line_length` and nowhere else) and then

  A. kernel/…   symbolically executes the rustc MIR of `render_doc_with_line_length` -> `Render::{new, render_node, fits,
                emit_text, emit_newline, ensure_indent, finish}` on EVERY `Doc` tree of a family of skeletons (all trees up to a
                size bound over Concat / Nest / Group / Text / SoftLine / SoftBreak / IfBreak / HardLine, concrete short texts,
                concrete small indents) with a fully symbolic `line_length: u32`.  Every branch on W is decided by z3; each
                explored path has a concrete output string and a path condition over W.  Obligations per tree: (K1) no panic /
                arithmetic overflow is reachable for any W; (K2) for every W the output, with blanks and line breaks removed, is
                the concatenation of the Text atoms in order, the contents of IfBreak nodes being optional (nothing else is
                added, dropped or reordered); (K3) no output line ends in a blank before its line break (`emit_newline` trims);
                (K4) the path conditions together cover all 2^32 values of W (z3: the negated disjunction is unsat).
  B. corpus/…   the whole pipeline on concrete source texts with W symbolic: the W-independent prefix (parser + `doc::format`)
                is executed concretely by the natively compiled real code (engines/fmtdrv) and its `Doc` is imported; the real
                renderer MIR is executed on it with W symbolic.  Per text: (B1) no panic for any W (renderer: MIR level;
                prefix: native), (B2) every path's output parses without errors (the function's own final assertion; real parser,
                natively — the output is concrete on a path), (B3) code tokens of the output == code tokens of the input in
                order, modulo a trailing comma in front of a closing bracket, and every comment of the input occurs in the
                output (real lexer, natively, on both concrete strings), (B4) idempotence: the formatter is run again on the
                path's output with W constrained by the path condition — on every sub-path the output must be the same string,
                (B5) coverage of all 2^32 widths as in K4, (B6) on one model of every path condition the natively compiled
                `format_source_with_line_length(text, W)` returns exactly the path's output (validates interpreter + import).

Counterexamples are replayed against the natively compiled real code before being reported (engines/fmtdrv: `render`, `fmt`);
a counterexample that does not reproduce is inconclusive.  Violation keys: `panic/<function>/<message class>`,
`kernel/<obligation>/<skeleton>`, `reparse/<x>`, `tokens/<x>`, `comments/<x>`, `idempotence/<x>` where <x> is the id of the unit test (module::test_name) for
its own input and the mutation context for a mutant: `<block-comment|line-comment|blank-lines>@<PREV>-<NEXT>` (kinds of the code
tokens around the insertion point) or `respace-<n|t>/<unit test id>`.
"""
import hashlib
import json
import os
import re
import shutil
import subprocess
import time

import z3

from .. import common
from ..common import Inconclusive, log
from ..mir import models as M
from ..mir import parse as P
from ..mir import structs
from ..mir.interp import Adt, Cell, Ctx, Explorer, Int, Opaque, Panic, PathAbort, Ref, Tup, VecV
from ..mir.models_fmt import MODELS_FMT, FmtInterp
from ..mir.models_lex import MODELS_LEX
from ..mir.models_parse import MODELS_PARSE
from ..mir.models_text import MODELS_TEXT

PID = "C17"
MODELS = MODELS_FMT + MODELS_PARSE + MODELS_LEX + MODELS_TEXT + M.MODELS
RENDER_RS = "dora-format/src/render.rs"
DOC_RS = "dora-format/src/doc.rs"
ENTRY = "render::render_doc_with_line_length"
NEEDED = ["format_source_with_line_length", "render::render_doc_with_line_length", "Render::render_node", "Render::fits",
          "Render::emit_text", "Render::emit_newline", "Render::ensure_indent", "doc::format"]


# ------------------------------------------------------------------------------------------
# native side (engines/fmtdrv): real code on concrete inputs

def build_fmtdrv():
    """instantiates /verif/engines/fmtdrv against the working tree and builds it (debug: overflow checks on, like the MIR dump)"""
    src = os.path.join(common.VERIF, "engines", "fmtdrv")
    dst = os.path.join(common.WORK, "fmtdrv-src")
    tdir = os.path.join(common.WORK, "fmtdrv-target")
    with common.Lock("fmtdrv-build"):
        os.makedirs(os.path.join(dst, "src"), exist_ok=True)
        toml = open(os.path.join(src, "Cargo.toml")).read().replace("@REPO@", common.REPO)
        common._write_if_changed(os.path.join(dst, "Cargo.toml"), toml)
        for f in os.listdir(os.path.join(src, "src")):
            common._write_if_changed(os.path.join(dst, "src", f), open(os.path.join(src, "src", f)).read())
        shutil.copy(os.path.join(common.REPO, "Cargo.lock"), os.path.join(dst, "Cargo.lock"))
        t = time.time()
        common.run(["cargo", "build", "--offline", "-q", "-j", os.environ.get("VERIF_CARGO_JOBS", "6")], cwd=dst,
                   env={"CARGO_TARGET_DIR": tdir}, timeout=3600)
        built = os.path.join(tdir, "debug", "verif-fmt")
        d = os.path.join(common.WORK, "tmp")
        os.makedirs(d, exist_ok=True)
        # private copy: another run may rebuild the shared one while this check runs
        nat = os.path.join(d, "c17-verif-fmt-%d" % os.getpid())
        shutil.copy2(built, nat)
        log("[C17] verif-fmt built in %.1fs" % (time.time() - t))
    return nat


def hx(b):
    return b.hex() if b else "-"


def unhx(s):
    return b"" if s == "-" else bytes.fromhex(s)


class Native:
    """a verif-fmt process: one request line -> one `@@ ` answer line (other stdout lines are diagnostics of the real code)"""

    def __init__(self, path):
        self.path = path
        self.p = None
        self.calls = 0

    def _start(self):
        self.p = subprocess.Popen([self.path], stdin=subprocess.PIPE, stdout=subprocess.PIPE, stderr=subprocess.DEVNULL)

    def ask(self, line):
        if self.p is None or self.p.poll() is not None:
            self._start()
        self.calls += 1
        try:
            self.p.stdin.write(line.encode() + b"\n")
            self.p.stdin.flush()
            while True:
                ln = self.p.stdout.readline()
                if not ln:
                    rc = self.p.wait()
                    self.p = None
                    return ["DIED", str(rc)]
                if ln.startswith(b"@@ "):
                    return ln[3:].decode("utf-8", "replace").split()
        except BrokenPipeError:
            self.p = None
            return ["DIED", "pipe"]

    def close(self):
        if self.p is not None:
            try:
                self.p.stdin.close()
                self.p.wait(timeout=5)
            except Exception:
                self.p.kill()
            self.p = None

    # -- typed requests
    def doc(self, text):
        r = self.ask("doc " + hx(text))
        if r[0] == "DOC":
            d, rest = doc_from_wire(r[1:])
            if rest:
                raise Inconclusive("trailing tokens in a DOC answer")
            return ("doc", d)
        if r[0] == "PARSEERR":
            return ("parseerr", int(r[1]))
        return ("panic", " ".join(r[1:])) if r[0] == "PANIC" else ("died", " ".join(r))

    def fmt(self, width, text):
        r = self.ask("fmt %d %s" % (width, hx(text)))
        if r[0] == "OK":
            return ("ok", unhx(r[1]))
        if r[0] == "PARSEERR":
            return ("parseerr", int(r[1]))
        return ("panic", " ".join(r[1:])) if r[0] == "PANIC" else ("died", " ".join(r))

    def render(self, width, doc):
        r = self.ask("render %d %s" % (width, doc_to_wire(doc)))
        if r[0] == "OK":
            return ("ok", unhx(r[1]))
        return ("panic", " ".join(r[1:])) if r[0] == "PANIC" else ("died", " ".join(r))

    def parse_errors(self, text):
        r = self.ask("parse " + hx(text))
        if r[0] == "ERRORS":
            return int(r[1])
        raise Inconclusive("native parse of %r: %s" % (text, " ".join(r)))

    def tokens(self, text):
        """-> [(KIND, bytes)] of the real lexer (no EOF), number of lexer errors"""
        r = self.ask("tokens " + hx(text))
        if r[0] != "TOKENS":
            raise Inconclusive("native lex of %r: %s" % (text, " ".join(r)))
        nerr = int(r[1])
        items = [x.split(":") for x in r[2].split(",")] if len(r) > 2 else []
        out = []
        for i, (k, st) in enumerate(items):
            a = int(st)
            b = int(items[i + 1][1]) if i + 1 < len(items) else len(text)
            out.append((k, text[a:b]))
        return out, nerr


# ------------------------------------------------------------------------------------------
# Doc trees: python form ("C", [d…]) ("N", indent, d) ("G", d) ("T", bytes) ("L",) ("B",) ("I", d) ("H",)

def doc_to_wire(d):
    k = d[0]
    if k == "C":
        return "C %d %s" % (len(d[1]), " ".join(doc_to_wire(c) for c in d[1])) if d[1] else "C 0"
    if k == "N":
        return "N %d %s" % (d[1], doc_to_wire(d[2]))
    if k in ("G", "I"):
        return "%s %s" % (k, doc_to_wire(d[1]))
    if k == "T":
        return "T " + hx(d[1])
    return k


def doc_from_wire(toks):
    """-> (doc, remaining tokens); iterative-friendly recursion on a list"""
    pos = [0]

    def rd():
        k = toks[pos[0]]
        pos[0] += 1
        if k == "C":
            n = int(toks[pos[0]])
            pos[0] += 1
            return ("C", [rd() for _ in range(n)])
        if k == "N":
            i = int(toks[pos[0]])
            pos[0] += 1
            return ("N", i, rd())
        if k in ("G", "I"):
            return (k, rd())
        if k == "T":
            b = unhx(toks[pos[0]])
            pos[0] += 1
            return ("T", b)
        if k in ("L", "B", "H"):
            return (k,)
        raise Inconclusive("bad doc token " + k)
    import sys
    sys.setrecursionlimit(max(sys.getrecursionlimit(), 20000))
    d = rd()
    return d, toks[pos[0]:]


def doc_show(d):
    k = d[0]
    if k == "C":
        return "[" + " ".join(doc_show(c) for c in d[1]) + "]"
    if k == "N":
        return "nest%d(%s)" % (d[1], doc_show(d[2]))
    if k == "G":
        return "group(%s)" % doc_show(d[1])
    if k == "I":
        return "ifbreak(%s)" % doc_show(d[1])
    if k == "T":
        return json.dumps(d[1].decode("utf-8", "replace"))
    return {"L": "line", "B": "softbreak", "H": "hardline"}[k]


def doc_stats(d):
    n = g = 0
    work = [d]
    while work:
        x = work.pop()
        n += 1
        if x[0] == "C":
            work.extend(x[1])
        elif x[0] == "N":
            work.append(x[2])
        elif x[0] in ("G", "I"):
            g += x[0] == "G"
            work.append(x[1])
    return n, g


def box(v):
    return Opaque("box", Ref(Cell(v, "box")))


def doc_value(d):
    """the interpreter value of a `Doc` (fields positional, in declaration order — checked against doc.rs by Layout)"""
    k = d[0]
    if k == "C":
        return Adt("Doc", "Concat", [VecV([doc_value(c) for c in d[1]], "vec")])
    if k == "N":
        return Adt("Doc", "Nest", [Int(d[1], "u32"), box(doc_value(d[2]))])
    if k == "G":
        return Adt("Doc", "Group", [box(doc_value(d[1]))])
    if k == "I":
        return Adt("Doc", "IfBreak", [box(doc_value(d[1]))])
    if k == "T":
        return Adt("Doc", "Text", [VecV([Int(b, "u8") for b in d[1]], "smolstr")])
    return Adt("Doc", {"L": "SoftLine", "B": "SoftBreak", "H": "HardLine"}[k])


# ------------------------------------------------------------------------------------------
# loading: MIR of the working tree, layout of `Doc`, shape of the entry function

class Setup:
    def __init__(self):
        self.prog = P.parse_file(common.mir_dump("dora-format"), common.REPO)
        for need in NEEDED:
            if self.prog.find(need) is None:
                raise Inconclusive("function %s not found in the MIR dump of dora-format" % need)
        self.doc_discr = structs.enum_discriminants(os.path.join(common.REPO, DOC_RS), "Doc")
        self.mode_discr = structs.enum_discriminants(os.path.join(common.REPO, RENDER_RS), "Mode")
        want = ["Concat", "Nest", "Group", "Text", "SoftLine", "SoftBreak", "IfBreak", "HardLine"]
        if sorted(self.doc_discr) != sorted(want):
            raise Inconclusive("enum Doc has the variants %s, the check knows %s" % (sorted(self.doc_discr), sorted(want)))
        src = structs._strip_comments(open(os.path.join(common.REPO, DOC_RS)).read())
        m = re.search(r"\benum\s+Doc\s*\{(.*?)\n\}", src, re.S)
        body = re.sub(r"\s+", " ", m.group(1)) if m else ""
        for pat in (r"Concat \{ children: Vec<Doc>,? \}", r"Nest \{ indent: u32, doc: Box<Doc>,? \}", r"Group \{ doc: Box<Doc>,? \}",
                    r"Text \{ text: SmolStr,? \}", r"IfBreak \{ doc: Box<Doc>,? \}"):
            if not re.search(pat, body):
                raise Inconclusive("variant of enum Doc changed shape (expected %s): %s" % (pat, body[:300]))
        self.pipeline = self.check_pipeline()

    def check_pipeline(self):
        """`format_source_with_line_length(_1: &str, _2: u32)`: _2 is used exactly once, as the 2nd argument of
        render_doc_with_line_length; doc::format is called on the way.  Makes the native prefix W-independent by construction."""
        fn = self.prog.find("format_source_with_line_length")
        if len(fn.params) != 2 or fn.params[1][1].strip() != "u32":
            raise Inconclusive("format_source_with_line_length no longer takes (&str, u32): %r" % (fn.params,))
        w = fn.params[1][0]
        calls, uses = [], 0
        for b in (fn.blocks.values() if isinstance(fn.blocks, dict) else fn.blocks):
            if b is None:
                continue
            txt = [s.text for s in b.stmts] + [b.term.text]
            for t in txt:
                uses += len(re.findall(r"\b_%d\b" % w, t))
            if b.term.kind == "call":
                calls.append((P.strip_generics(b.term.f["callee"].strip()), [str(a) for a in b.term.f["args"]], b.term.text))
        names = [c for c, _, _ in calls]
        rd = [c for c in calls if c[0].endswith("render_doc_with_line_length")]
        if len(rd) != 1 or not any(n.endswith("doc::format") or n == "format" for n in names):
            raise Inconclusive("format_source_with_line_length no longer calls doc::format and render_doc_with_line_length once: %s" % names)
        if uses != 1 or not re.search(r"render_doc_with_line_length\(.*, (copy |move )?_%d\)" % w, rd[0][2]):
            raise Inconclusive("the line_length parameter of format_source_with_line_length is used %d times / not only as the "
                               "argument of render_doc_with_line_length: %s" % (uses, rd[0][2]))
        return {"callees": sorted(set(names)), "line_length_uses": uses}

    def interp(self):
        it = FmtInterp(self.prog, MODELS)
        it.enum_discr["Doc"] = self.doc_discr
        it.enum_discr["Mode"] = self.mode_discr
        if not os.environ.get("VERIF_C17_NO_SUMMARY"):
            it.hooks[self.prog.find("Render::fits").name] = fits_summary
        return it


def fits_summary(it, ctx, fn, args):
    """`Render::fits` by exhaustive symbolic execution of its MIR at the call (a nested exploration under the caller's path
    condition), summarised as ONE symbolic bool: the disjunction over the sub-paths of (sub-path condition ∧ returned value).
    The caller then forks once per Group (flat / broken) instead of once per atom that `fits` looks at, and all the ways of
    "does not fit" continue as a single path.  `fits` takes `&mut self` but must not change the renderer — checked on every
    sub-path.  A panic inside `fits` is re-raised in the caller under the disjunction of the panicking sub-paths."""
    base = list(ctx.pc)
    snap = args[0].cell.v if isinstance(args[0], Ref) else None
    outcomes = []
    ex2 = Explorer(query_timeout_ms=ctx.ex.query_timeout_ms, max_steps=ctx.ex.max_steps, deadline=ctx.ex.deadline)
    seed = ctx.last_model

    def body2(c2):
        for c in base:
            c2.add(c)
        c2.last_model = seed
        n0 = len(c2.pc)
        try:
            r = it.exec(c2, [it.new_frame(fn, list(args))])
            outcomes.append((list(c2.pc[n0:]), "ret", r, c2.steps))
        except Panic as e:
            outcomes.append((list(c2.pc[n0:]), "panic", (e.msg, e.where), c2.steps))
        if snap is not None and args[0].cell.v is not snap:
            raise Inconclusive("Render::fits changed the renderer state (the summary assumes it is read-only)")
    ex2.run(body2)
    ctx.ex.queries += ex2.queries + ex2.verdict_queries
    ctx.ex.solver_time += ex2.solver_time
    ctx.ex.forks += ex2.forks
    ctx.steps += sum(o[3] for o in outcomes)
    ctx.notes.append(("fits-sub-paths", len(outcomes)))
    if not outcomes:
        raise PathAbort()
    panics = {}
    for pc, kind, val, _ in outcomes:
        if kind == "panic":
            panics.setdefault(val, []).append(z3.And(*pc) if pc else z3.BoolVal(True))
    for (msg, where), conds in panics.items():
        if ctx.branch(z3.Or(*conds)):
            raise Panic(msg, where)
    terms = []
    for pc, kind, val, _ in outcomes:
        if kind != "ret":
            continue
        if not (z3.is_expr(val) and z3.is_bool(val)):
            raise Inconclusive("Render::fits returned %r" % (val,))
        terms.append(z3.And(*(pc + [val])))
    return z3.simplify(z3.Or(*terms)) if terms else z3.BoolVal(False)


# ------------------------------------------------------------------------------------------
# symbolic rendering

WSYM = z3.BitVec("W", 32)


class Rendered:
    """result of the exploration of one Doc: paths = [(kind, payload, pc)], kind 'ok' (payload = output bytes) or 'panic'
    (payload = (message, where))"""

    def __init__(self):
        self.paths = []
        self.stats = {"paths": 0, "queries": 0, "solver_time": 0.0, "forks": 0, "steps": 0}
        self.fns, self.models = set(), set()


def panic_key(msg, where):
    fn = re.sub(r"\s+bb\d+$", "", where or "?").strip() or "?"
    fn = fn.split("::")[-2] + "::" + fn.split("::")[-1] if fn.count("::") >= 1 else fn
    m = msg.replace("`{} - {}`", "sub").replace("`{} + {}`", "add").replace("`{} * {}`", "mul")
    slug = re.sub(r"[^a-z0-9]+", "-", m.lower()).strip("-")[:60]
    return "panic/%s/%s" % (fn, slug)


def symbolic_render(it, docv, assume=None, max_steps=400000, deadline=None):
    """executes the real renderer MIR on the Doc value with W symbolic (optionally constrained by `assume`)"""
    res = Rendered()
    ex = Explorer(query_timeout_ms=60000, max_steps=max_steps, deadline=deadline)

    def body(ctx):
        if assume is not None:
            ctx.assume(assume)
        try:
            r = it.call(ctx, ENTRY, [Ref(Cell(docv, "root")), Int(WSYM, "u32")])
        except Panic as e:
            res.paths.append(("panic", (e.msg, e.where), list(ctx.pc), path_width(ctx)))
            res.stats["steps"] += ctx.steps
            return
        if not (isinstance(r, VecV) and all(isinstance(e, Int) for e in r.elems)):
            raise Inconclusive("render_doc_with_line_length returned %r" % (r,))
        bs = []
        for e in r.elems:
            c = e.conc()
            if c is None:
                raise Inconclusive("the rendered string has a symbolic byte (the output must be concrete on a path)")
            bs.append(c)
        res.paths.append(("ok", bytes(bs), list(ctx.pc), path_width(ctx)))
        res.stats["steps"] += ctx.steps
    ex.run(body)
    res.stats.update({"paths": ex.paths, "queries": ex.queries + ex.verdict_queries, "solver_time": ex.solver_time, "forks": ex.forks})
    res.fns |= set(it.called)
    res.models |= set(it.models_used)
    return res


def path_width(ctx):
    """a width on this path: from the model the explorer already holds, else None (asked later)"""
    m = ctx.last_model
    if m is None:
        return None
    try:
        v = m.eval(WSYM, model_completion=True)
        return v.as_long() if z3.is_bv_value(v) else None
    except z3.Z3Exception:
        return None


def pc_term(pc):
    return z3.And(*pc) if pc else z3.BoolVal(True)


def covers_all_widths(paths, assume=None):
    """z3: no W (satisfying `assume`) lies outside every path condition"""
    s = z3.Solver()
    s.set("timeout", 60000)
    if assume is not None:
        s.add(assume)
    s.add(z3.Not(z3.Or(*[pc_term(p[2]) for p in paths])) if paths else z3.BoolVal(True))
    r = s.check()
    if r == z3.unknown:
        raise Inconclusive("solver unknown on a width-coverage query")
    if r == z3.sat:
        return s.model().eval(WSYM, model_completion=True).as_long()
    return None


def width_model(cond):
    s = z3.Solver()
    s.set("timeout", 60000)
    s.add(cond)
    r = s.check()
    if r != z3.sat:
        raise Inconclusive("no model for a path condition that the exploration found feasible (%s)" % r)
    return s.model().eval(WSYM, model_completion=True).as_long()


def width_range(cond):
    """(min, max) of W under cond, by two Optimize calls — for the evidence samples only"""
    out = []
    for f in ("minimize", "maximize"):
        o = z3.Optimize()
        o.set("timeout", 20000)
        o.add(cond)
        getattr(o, f)(z3.ZeroExt(1, WSYM))
        if o.check() != z3.sat:
            return None
        out.append(o.model().eval(WSYM, model_completion=True).as_long())
    return out


# ------------------------------------------------------------------------------------------
# A. renderer kernel: all Doc skeletons up to a size bound

LEAVES = ("T1", "T3", "L", "B", "H")
NEST_INDENT = 2


def skeletons(size, leaves=LEAVES, _memo={}):
    """all skeleton trees with exactly `size` nodes; texts are filled in afterwards (distinct letters in reading order)"""
    key = (size, leaves)
    if key in _memo:
        return _memo[key]
    out = []
    if size == 1:
        out = [(k,) for k in leaves]
    elif size > 1:
        for sub in skeletons(size - 1, leaves):
            out += [("G", sub), ("I", sub), ("N", NEST_INDENT, sub)]
        rest = size - 1
        for i in range(1, rest):
            for a in skeletons(i, leaves):
                for b in skeletons(rest - i, leaves):
                    out.append(("C", [a, b]))
        for i in range(1, rest - 1):
            for j in range(1, rest - i):
                k = rest - i - j
                for a in skeletons(i, leaves):
                    for b in skeletons(j, leaves):
                        for c in skeletons(k, leaves):
                            out.append(("C", [a, b, c]))
    _memo[key] = out
    return out


def fill_texts(sk, counter=None):
    """T1 -> one letter, T3 -> the letter three times, T0 -> empty; the i-th text atom (reading order) uses the i-th letter"""
    if counter is None:
        counter = [0]
    k = sk[0]
    if k in ("T1", "T3", "T0"):
        ch = bytes([ord("a") + counter[0] % 26])
        counter[0] += 1
        return ("T", ch * {"T1": 1, "T3": 3, "T0": 0}[k])
    if k == "C":
        return ("C", [fill_texts(c, counter) for c in sk[1]])
    if k == "N":
        return ("N", sk[1], fill_texts(sk[2], counter))
    if k in ("G", "I"):
        return (k, fill_texts(sk[1], counter))
    return sk


def atoms_regex(d):
    """regular expression for the output with blanks and line breaks removed: Text atoms in order, IfBreak contents optional"""
    k = d[0]
    if k == "T":
        return re.escape(re.sub(rb"[ \n]", b"", d[1]))
    if k == "C":
        return b"".join(atoms_regex(c) for c in d[1])
    if k == "N":
        return atoms_regex(d[2])
    if k == "G":
        return atoms_regex(d[1])
    if k == "I":
        inner = atoms_regex(d[1])
        return b"(?:" + inner + b")?" if inner else b""
    return b""


def squeeze(b):
    return re.sub(rb"[ \n]", b"", b)


def has_kind(d, kind):
    if d[0] == kind:
        return True
    if d[0] == "C":
        return any(has_kind(c, kind) for c in d[1])
    if d[0] == "N":
        return has_kind(d[2], kind)
    if d[0] in ("G", "I"):
        return has_kind(d[1], kind)
    return False


def kernel_eval(d, out):
    """obligations K2, K3 on a concrete output; -> list of (kind, description)"""
    bad = []
    if re.fullmatch(atoms_regex(d), squeeze(out), re.S) is None:
        bad.append(("atoms", "the output %r is not the Text atoms of the document in order (IfBreak contents optional)" % out))
    if b" \n" in out:
        bad.append(("trailing-blank", "the output %r has a line that ends in a blank" % out))
    return bad


def kernel_chunk(job):
    """worker: explores a list of documents; returns picklable aggregate"""
    setup, natpath, docs, deadline = job
    it = setup.interp()
    nat = Native(natpath)
    agg = {"docs": 0, "paths": 0, "queries": 0, "solver_time": 0.0, "steps": 0, "obligations": 0, "discharged": 0, "violations": [],
           "witness": {}, "fns": set(), "models": set(), "native_runs": 0, "with_group": 0, "max_paths": 0, "samples": []}
    try:
        for d in docs:
            if deadline and time.time() > deadline:
                raise Inconclusive("kernel exploration deadline exceeded")
            r = symbolic_render(it, doc_value(d))
            agg["docs"] += 1
            agg["with_group"] += has_kind(d, "G")
            agg["paths"] += len(r.paths)
            agg["max_paths"] = max(agg["max_paths"], len(r.paths))
            for k in ("queries", "solver_time", "steps"):
                agg[k] += r.stats[k]
            agg["fns"] |= r.fns
            agg["models"] |= r.models
            agg["obligations"] += 4
            failed = set()
            gap = covers_all_widths(r.paths)
            if gap is not None:
                raise Inconclusive("exploration of %s does not cover W = %d" % (doc_show(d), gap))
            outs = set()
            for kind, payload, pc, w in r.paths:
                cond = pc_term(pc)
                if w is None:
                    w = width_model(cond)
                real = nat.render(w, d)
                agg["native_runs"] += 1
                if kind == "panic":
                    failed.add("K1")
                    if real[0] != "panic":
                        raise Inconclusive("the panic %s of the renderer on %s at W = %d does not reproduce natively (%r)" %
                                           (payload, doc_show(d), w, real))
                    agg["violations"].append({"key": panic_key(*payload), "layer": "kernel", "what": "render_doc_with_line_length panics: %s (%s); natively: %s" %
                                              (payload[0], payload[1], real[1]), "doc": doc_to_wire(d), "show": doc_show(d), "width": w,
                                              "cmd": "render %d %s" % (w, doc_to_wire(d)), "eval": "panic"})
                    agg["witness"]["panic-path"] = True
                    continue
                if real != ("ok", payload):
                    raise Inconclusive("encoding wrong: render(%s, W = %d): executor %r, real renderer %r" % (doc_show(d), w, payload, real))
                outs.add(payload)
                for vk, desc in kernel_eval(d, payload):
                    failed.add({"atoms": "K2", "trailing-blank": "K3"}[vk])
                    agg["violations"].append({"key": "kernel/%s/%s" % (vk, hashlib.sha1(doc_to_wire(d).encode()).hexdigest()[:10]), "layer": "kernel",
                                              "what": "%s: %s at W = %d" % (doc_show(d), desc, w), "doc": doc_to_wire(d), "show": doc_show(d),
                                              "width": w, "cmd": "render %d %s" % (w, doc_to_wire(d)), "eval": vk})
                if w >= 1 << 31:
                    agg["witness"]["width>=2^31"] = True
                if b" \n" not in payload and has_kind(d, "L") and b"\n" in payload:
                    agg["witness"]["line-break-emitted"] = True
            agg["discharged"] += 4 - len(failed)
            if len(outs) > 1:
                agg["witness"]["layout-depends-on-width"] = True
                if len(agg["samples"]) < 2:
                    agg["samples"].append({"doc": doc_show(d), "outputs": [{"output": p.decode(), "widths": width_range(pc_term(pc))}
                                                                            for k_, p, pc, _w in r.paths if k_ == "ok"][:6]})
            if has_kind(d, "I"):
                inner_seen = [squeeze(o) for o in outs]
                if len(set(len(x) for x in inner_seen)) > 1:
                    agg["witness"]["ifbreak-emitted-and-omitted"] = True
    finally:
        nat.close()
    return agg


# ------------------------------------------------------------------------------------------
# B. corpus: the unit-test inputs of the working tree + layout mutants derived at run time

def rust_string_literal(src, i):
    """src[i] starts a Rust string literal ("…" with escapes / r"…" / r#"…"#) -> (bytes, index after it) or None"""
    m = re.match(r'r(#*)"', src[i:])
    if m:
        end = src.find('"' + m.group(1), i + len(m.group(0)))
        if end < 0:
            return None
        return src[i + len(m.group(0)):end].encode("utf-8"), end + 1 + len(m.group(1))
    if src[i] != '"':
        return None
    out, j = [], i + 1
    while j < len(src):
        c = src[j]
        if c == '"':
            return "".join(out).encode("utf-8"), j + 1
        if c != "\\":
            out.append(c)
            j += 1
            continue
        n = src[j + 1]
        if n == "\n":
            j += 2
            while j < len(src) and src[j] in " \t\r\n":
                j += 1
        elif n == "x":
            out.append(chr(int(src[j + 2:j + 4], 16)))
            j += 4
        elif n == "u":
            e = src.index("}", j)
            out.append(chr(int(src[j + 3:e].replace("_", ""), 16)))
            j = e + 1
        elif n in 'nrt0\\\'"':
            out.append({"n": "\n", "r": "\r", "t": "\t", "0": "\0", "\\": "\\", "'": "'", '"': '"'}[n])
            j += 2
        else:
            return None
    return None


def extract_corpus():
    """[(id, text bytes)] — the first argument of every `assert_source(…)` call in the unit tests of dora-format/src of the
    working tree (a literal, or a `let <name> = <literal>;` of the same test)"""
    root = os.path.join(common.REPO, "dora-format", "src")
    files = []
    for dp, _, fs in os.walk(root):
        for f in sorted(fs):
            if f.endswith(".rs"):
                files.append(os.path.join(dp, f))
    corpus, skipped = [], []
    for path in sorted(files):
        src = open(path).read()
        mod = os.path.relpath(path, root)[:-3].replace(os.sep, "::")
        tests = [(m.start(), m.group(1)) for m in re.finditer(r"#\[test\]\s*(?:#\[[^\]]*\]\s*)*fn\s+(\w+)\s*\(", src)]
        for k, (pos, name) in enumerate(tests):
            body = src[pos:tests[k + 1][0] if k + 1 < len(tests) else len(src)]
            n = 0
            for m in re.finditer(r"\b(assert_source|check_source)\s*\(\s*", body):
                j = m.end()
                lit = None
                if body[j] in 'r"':
                    lit = rust_string_literal(body, j)
                if lit is None:
                    mi = re.match(r"(\w+)\s*,", body[j:])
                    if mi:
                        ml = None
                        for ml in re.finditer(r"\blet\s+%s\s*(?::[^=]+)?=\s*" % re.escape(mi.group(1)), body[:m.start()]):
                            pass
                        if ml is not None:
                            lit = rust_string_literal(body, ml.end())
                cid = "%s::%s" % (mod, name) + ("" if n == 0 else "#%d" % n)
                n += 1
                if lit is None:
                    skipped.append(cid)
                else:
                    corpus.append((cid, lit[0]))
    return corpus, skipped


COMMENT_KINDS = ("LINE_COMMENT", "MULTILINE_COMMENT")
TRIVIA = ("WHITESPACE", "NEWLINE") + COMMENT_KINDS
CLOSERS = ("R_PAREN", "R_BRACKET", "R_BRACE")


def mutants(cid, text, toks):
    """layout mutants of a text, from the real lexer's tokens.  Single-site: a block comment / a line comment / two blank
    lines inserted at one token boundary; whole-text: every blank token replaced (line break / blanks + tab).
    -> [(id, bytes, context)]; the context names the mutation and the kinds of the neighbouring code tokens and is the stable
    part of the violation keys of mutants (one root cause = one key, whatever unit test the text came from)."""
    out = []
    offs = [0]
    for _, t in toks:
        offs.append(offs[-1] + len(t))
    code_before, code_after = [], []
    last = "START"
    for k, _ in toks:
        code_before.append(last)
        if k not in TRIVIA:
            last = k
    code_before.append(last)
    nxt = "END"
    for k, _ in reversed(toks):
        if k not in TRIVIA:
            nxt = k
        code_after.append(nxt)
    code_after = list(reversed(code_after)) + ["END"]
    for bi, o in enumerate(offs):
        where = "%s-%s" % (code_before[bi], code_after[bi])
        out.append(("%s~b%d" % (cid, bi), text[:o] + b"/* c */" + text[o:], "block-comment@" + where))
        out.append(("%s~l%d" % (cid, bi), text[:o] + b"// c\n" + text[o:], "line-comment@" + where))
        if 0 < bi < len(offs) - 1 and (toks[bi - 1][0] in ("WHITESPACE", "NEWLINE") or toks[bi][0] in ("WHITESPACE", "NEWLINE")):
            out.append(("%s~n%d" % (cid, bi), text[:o] + b"\n\n\n" + text[o:], "blank-lines@" + where))
    if any(k in ("WHITESPACE", "NEWLINE") for k, _ in toks):
        for tag, rep in (("n", b"\n"), ("t", b"  \t ")):
            out.append(("%s~s%s" % (cid, tag), b"".join(rep if k in ("WHITESPACE", "NEWLINE") else t for k, t in toks), "respace-%s/%s" % (tag, cid)))
    return out


def base_id(cid):
    return cid.split("~")[0]


def code_tokens(toks):
    return [(k, t) for k, t in toks if k not in TRIVIA]


def drop_optional_separators(code):
    """optional separators: a COMMA directly in front of a closing bracket or of the closing `|` of a lambda parameter list
    (trailing separator of a list), and a COMMA directly behind a `}` (separator after a block-bodied match arm).  A comma
    that is NOT optional in such a position (`f({ … }, x)`) cannot be dropped without a parse error, which B2 reports."""
    out = []
    for i, (k, t) in enumerate(code):
        if k == "COMMA" and i + 1 < len(code) and code[i + 1][0] in CLOSERS + ("OR",):
            continue
        if k == "COMMA" and i > 0 and code[i - 1][0] == "R_BRACE":
            continue
        out.append((k, t))
    return out


def comment_norm(t):
    return t.rstrip()


def token_verdict(tin, tout):
    """-> list of (kind, description): 'tokens' (code tokens differ), 'comments' (a comment of the input is missing)"""
    bad = []
    a, b = drop_optional_separators(code_tokens(tin)), drop_optional_separators(code_tokens(tout))
    if a != b:
        i = 0
        while i < min(len(a), len(b)) and a[i] == b[i]:
            i += 1
        cls = "reordered" if sorted(a) == sorted(b) else ("dropped" if len(b) < len(a) else "changed")
        bad.append(("tokens", "code tokens %s: first difference at code token %d: input %s, output %s (%d vs %d code tokens)" %
                    (cls, i, [t.decode("utf-8", "replace") for _, t in a[i:i + 4]], [t.decode("utf-8", "replace") for _, t in b[i:i + 4]], len(a), len(b))))
    cin = sorted(comment_norm(t) for k, t in tin if k in COMMENT_KINDS)
    cout = sorted(comment_norm(t) for k, t in tout if k in COMMENT_KINDS)
    missing = list(cin)
    for c in cout:
        if c in missing:
            missing.remove(c)
    if missing:
        bad.append(("comments", "comment(s) of the input missing in the output: %s" % [m.decode("utf-8", "replace") for m in missing[:3]]))
    return bad


def corpus_item(job):
    """worker: one source text through the pipeline"""
    setup, natpath, cid, text, (soft, deadline), mctx, base_text = job
    if "~" in cid and soft and time.time() > soft:
        return {"id": cid, "bytes": len(text), "status": "left-out-budget", "paths": 0, "outputs": 0, "sub_paths": 0, "queries": 0, "solver_time": 0.0,
                "steps": 0, "obligations": 0, "discharged": 0, "violations": [], "witness": {}, "fns": set(), "models": set(), "native_runs": 0,
                "doc_nodes": 0, "groups": 0, "sample": None}
    it = setup.interp()
    nat = Native(natpath)
    res = {"id": cid, "bytes": len(text), "status": "ok", "paths": 0, "outputs": 0, "sub_paths": 0, "queries": 0, "solver_time": 0.0,
           "steps": 0, "obligations": 0, "discharged": 0, "violations": [], "witness": {}, "fns": set(), "models": set(), "native_runs": 0,
           "doc_nodes": 0, "groups": 0, "sample": None}
    # key suffix: the unit test for its own input, the mutation context for a mutant — unless the unit test's own input
    # already violates the same obligation at that width (then the mutant only inherits it: keyed by the unit test)
    bid = mctx or base_id(cid)
    inherited = {}

    def suffix(kind, w):
        if not mctx or base_text is None:
            return bid
        if w not in inherited:
            kinds = set()
            ob = nat.fmt(w, base_text)
            if ob[0] == "ok":
                kinds |= set(k for k, _ in token_verdict(nat.tokens(base_text)[0], nat.tokens(ob[1])[0]))
                if nat.fmt(w, ob[1]) != ob:
                    kinds.add("idempotence")
            inherited[w] = kinds
        return base_id(cid) if kind in inherited[w] else bid

    def viol(key, what, width, cmd, **extra):
        v = {"key": key, "layer": "corpus", "id": cid, "what": what, "text": text.decode("utf-8", "replace"), "text_hex": text.hex(), "width": width, "cmd": cmd}
        v.update(extra)
        res["violations"].append(v)

    def add_stats(r):
        res["queries"] += r.stats["queries"]
        res["solver_time"] += r.stats["solver_time"]
        res["steps"] += r.stats["steps"]
        res["fns"] |= r.fns
        res["models"] |= r.models

    try:
        kind, d = nat.doc(text)
        res["native_runs"] += 1
        if kind == "parseerr":
            res["status"] = "not-a-valid-source"
            return res
        if kind != "doc":
            # parser / doc::format panic on a syntactically valid text: natively observed, independent of W
            real = nat.fmt(90, text)
            if real[0] not in ("panic", "died"):
                raise Inconclusive("doc::format failed natively (%s) but format_source_with_line_length does not: %r" % (d, real))
            res["obligations"] += 1
            viol("panic/doc-format/" + bid, "parse + doc::format panics on a syntactically valid text: %s" % d, 90, "fmt 90 " + hx(text), eval="panic")
            res["status"] = "prefix-panic"
            return res
        res["doc_nodes"], res["groups"] = doc_stats(d)
        tin, nerr = nat.tokens(text)
        r = symbolic_render(it, doc_value(d), deadline=deadline)
        add_stats(r)
        res["paths"] = len(r.paths)
        gap = covers_all_widths(r.paths)
        if gap is not None:
            raise Inconclusive("exploration of %s does not cover W = %d" % (cid, gap))
        # B1 no panic, B2 output parses, B3 tokens+comments, B4 idempotent, B5 coverage (checked above)
        res["obligations"] += 5
        failed = set()
        by_out = {}
        for kind, payload, pc, w in r.paths:
            cond = pc_term(pc)
            if kind == "panic":
                failed.add("B1")
                if w is None:
                    w = width_model(cond)
                real = nat.fmt(w, text)
                res["native_runs"] += 1
                if real[0] != "panic":
                    raise Inconclusive("the renderer panic %s on %s at W = %d does not reproduce natively (%r)" % (payload, cid, w, real))
                viol(panic_key(*payload), "format_source_with_line_length panics: %s (%s); natively: %s" % (payload[0], payload[1], real[1]), w,
                     "fmt %d %s" % (w, hx(text)), eval="panic")
                res["witness"]["panic-path"] = True
                continue
            by_out.setdefault(payload, []).append(cond)
        res["outputs"] = len(by_out)
        sample = []
        for out, conds in by_out.items():
            cond = z3.Or(*conds) if len(conds) > 1 else conds[0]
            w = width_model(cond)
            # B6: the natively compiled whole function on a model of the path condition
            real = nat.fmt(w, text)
            res["native_runs"] += 1
            if real[0] == "panic":
                # the function's own final assertion (or anything else outside the renderer) fails natively
                nerrs = nat.parse_errors(out)
                if nerrs == 0:
                    raise Inconclusive("format_source_with_line_length(%s, %d) panics natively (%s) but the path's output %r parses" % (cid, w, real[1], out))
                failed.add("B2")
                viol("reparse/" + bid, "the formatted output does not parse (%d errors): %r; natively: %s" % (nerrs, out, real[1]), w,
                     "fmt %d %s" % (w, hx(text)), eval="panic")
                continue
            if real != ("ok", out):
                raise Inconclusive("encoding wrong: format(%s, W = %d): executor %r, real function %r" % (cid, w, out, real))
            if nat.parse_errors(out) != 0:
                raise Inconclusive("the output %r has parse errors but the real function returned it" % out)
            tout, _ = nat.tokens(out)
            res["native_runs"] += 2
            for vk, desc in token_verdict(tin, tout):
                failed.add("B3")
                viol("%s/%s" % (vk, suffix(vk, w)), "%s at W = %d: %s (input %r, output %r)" % (cid, w, desc, text, out), w, "fmt %d %s" % (w, hx(text)), eval=vk)
            # B4: format the output again, W restricted to the widths that produced it
            kind2, d2 = nat.doc(out)
            res["native_runs"] += 1
            if kind2 != "doc":
                raise Inconclusive("the output %r of %s cannot be formatted again natively: %s %s" % (out, cid, kind2, d2))
            r2 = symbolic_render(it, doc_value(d2), assume=cond, deadline=deadline)
            add_stats(r2)
            res["sub_paths"] += len(r2.paths)
            gap = covers_all_widths(r2.paths, assume=cond)
            if gap is not None:
                raise Inconclusive("second formatting of %s does not cover W = %d" % (cid, gap))
            for kind3, payload3, pc3, _w3 in r2.paths:
                if kind3 == "ok" and payload3 == out:
                    continue
                w3 = width_model(z3.And(cond, pc_term(pc3)))
                o1 = nat.fmt(w3, text)
                o2 = nat.fmt(w3, o1[1]) if o1[0] == "ok" else ("-", None)
                res["native_runs"] += 2
                if kind3 == "panic":
                    failed.add("B1")
                    if o2[0] != "panic":
                        raise Inconclusive("the panic %s when formatting the output of %s again at W = %d does not reproduce natively (%r)" % (payload3, cid, w3, o2))
                    viol(panic_key(*payload3), "formatting the output again panics: %s (%s)" % payload3, w3, "fmt %d %s" % (w3, hx(out)), eval="panic")
                    continue
                failed.add("B4")
                if not (o1 == ("ok", out) and o2 == ("ok", payload3)):
                    raise Inconclusive("the idempotence counterexample of %s at W = %d does not reproduce natively: %r then %r" % (cid, w3, o1, o2))
                viol("idempotence/" + suffix("idempotence", w3), "%s at W = %d: formatting the output again changes it: %r -> %r" % (cid, w3, out, payload3), w3,
                     "fmt %d %s" % (w3, hx(text)), eval="idempotence")
            if len(sample) < 2:
                sample.append({"output": out.decode("utf-8", "replace"), "widths": width_range(cond), "paths": len(conds)})
            if w >= 1 << 31:
                res["witness"]["width>=2^31"] = True
        res["discharged"] += 5 - len(failed)
        if by_out and "width>=2^31" not in res["witness"]:
            sv = z3.Solver()
            sv.add(z3.Or(*[c for cs in by_out.values() for c in cs]), z3.UGE(WSYM, z3.BitVecVal(1 << 31, 32)))
            if sv.check() == z3.sat:
                res["witness"]["width>=2^31"] = True
        if len(by_out) > 1:
            res["witness"]["layout-depends-on-width"] = True
        if any(k in COMMENT_KINDS for k, _ in tin):
            res["witness"]["text-with-comment"] = True
        if any(k == "COMMA" and i + 1 < len(c) and c[i + 1][0] in CLOSERS for c in [code_tokens(tin)] for i, (k, _) in enumerate(c)):
            res["witness"]["input-with-trailing-comma"] = True
        res["sample"] = {"id": cid, "text": text.decode("utf-8", "replace"), "outputs": sample}
        return res
    finally:
        nat.close()


# ------------------------------------------------------------------------------------------
# driver

TIERS = {
    # The corpus of a tier is a deterministic function of the working tree (unit-test inputs, their tokens, these constants);
    # the quick corpus is a subset of the thorough one (same boundary selection rule, smaller inputs), the quick kernel family
    # a subset of the thorough family.  The budget can only OMIT mutants (counted in the evidence), never add texts;
    # VERIF_C17_BUDGET=0 disables it.
    # kernel_size: all skeletons with <= this many nodes; kernel_t0: also with empty Text atoms (one size smaller)
    # mutant_bytes: texts of at most this many bytes get layout mutants; mutant_stride: every n-th token boundary
    "quick": {"kernel_size": 5, "kernel_t0": 4, "mutant_bytes": 32, "mutant_stride": 4, "budget_s": 420},
    "thorough": {"kernel_size": 6, "kernel_t0": 5, "mutant_bytes": 40, "mutant_stride": 4, "budget_s": 3000},
}


def jobs():
    return max(1, min(int(os.environ.get("VERIF_JOBS", "16")), os.cpu_count() or 1))


def chunks(xs, n):
    return [xs[i:i + n] for i in range(0, len(xs), n)]


def main(tier):
    t0 = time.time()
    cfg = dict(TIERS[tier])
    for k, env in (("kernel_size", "VERIF_C17_KERNEL"), ("mutant_bytes", "VERIF_C17_MUTANT_BYTES"), ("mutant_stride", "VERIF_C17_STRIDE"),
                   ("budget_s", "VERIF_C17_BUDGET")):
        if os.environ.get(env):
            cfg[k] = int(os.environ[env])
    setup = Setup()
    natpath = build_fmtdrv()
    try:
        return main2(tier, cfg, t0, setup, natpath)
    finally:
        try:
            os.unlink(natpath)
        except OSError:
            pass


def main2(tier, cfg, t0, setup, natpath):
    # budgets count from after the builds / MIR dump.  `budget_s`: mutants not started by then are left out (and counted in the
    # evidence as not covered); unit-test inputs and kernel documents are never left out: past 2x the budget the run is inconclusive
    t1 = time.time()
    soft = t1 + cfg["budget_s"] if cfg["budget_s"] > 0 else None
    deadline = t1 + 2 * cfg["budget_s"] if cfg["budget_s"] > 0 else None
    rep = common.Reporter(PID)
    only = os.environ.get("VERIF_C17_ONLY", "")

    # ---- A. kernel
    docs = []
    if only in ("", "kernel"):
        for n in range(1, cfg["kernel_size"] + 1):
            docs += [fill_texts(sk) for sk in skeletons(n)]
        with_t0 = LEAVES + ("T0",)
        for n in range(1, cfg["kernel_t0"] + 1):
            docs += [fill_texts(sk) for sk in skeletons(n, with_t0) if has_kind_sk(sk, "T0")]
    tk = time.time()
    J = jobs()
    kres = common.fork_map(kernel_chunk, [(setup, natpath, c, deadline) for c in chunks(docs, max(20, len(docs) // (J * 8) + 1))], J)
    K = {"docs": 0, "paths": 0, "queries": 0, "solver_time": 0.0, "steps": 0, "obligations": 0, "discharged": 0, "native_runs": 0, "with_group": 0,
         "max_paths": 0}
    kviol, kwit, fns, models_used, ksamples = [], {}, set(), set(), []
    for a in kres:
        for k in K:
            K[k] = max(K[k], a[k]) if k == "max_paths" else K[k] + a[k]
        kviol += a["violations"]
        kwit.update(a["witness"])
        fns |= a["fns"]
        models_used |= a["models"]
        ksamples += a["samples"]
    log("[C17] kernel: %d documents (%d with a Group), %d paths, %d solver queries, %d native runs, %.1fs" %
        (K["docs"], K["with_group"], K["paths"], K["queries"], K["native_runs"], time.time() - tk))

    # ---- B. corpus
    nat = Native(natpath)
    corpus, skipped = extract_corpus()
    if not corpus and only in ("", "corpus"):
        raise Inconclusive("no unit-test input found under dora-format/src (assert_source calls)")
    items, n_mut, ctx_of, base_of = [], 0, {}, {}
    if only in ("", "corpus"):
        for cid, text in corpus:
            items.append((cid, text))
        for cid, text in corpus:
            if len(text) > cfg["mutant_bytes"]:
                continue
            toks, _ = nat.tokens(text)
            ms = mutants(cid, text, toks)
            if cfg["mutant_stride"] > 1:
                ms = [m for m in ms if "~s" in m[0] or int(re.search(r"~[bln](\d+)$", m[0]).group(1)) % cfg["mutant_stride"] == (len(text) % cfg["mutant_stride"])]
            for mid, mtext, mc in ms:
                items.append((mid, mtext))
                ctx_of[mid] = mc
                base_of[mid] = text
            n_mut += len(ms)
    nat.close()
    seen_texts, uniq = set(), []
    for cid, text in items:
        if text in seen_texts:
            continue
        seen_texts.add(text)
        uniq.append((cid, text))
    if os.environ.get("VERIF_C17_FILTER"):
        # development aid: only the corpus texts whose id matches the regular expression
        uniq = [x for x in uniq if re.search(os.environ["VERIF_C17_FILTER"], x[0])]
    tc = time.time()
    # unit-test inputs first, then the mutants round-robin over the inputs (a budget cut leaves an even coverage)
    base = [x for x in uniq if "~" not in x[0]]
    per = {}
    for x in uniq:
        if "~" in x[0]:
            per.setdefault(base_id(x[0]), []).append(x)
    rr = []
    while any(per.values()):
        for k in list(per):
            if per[k]:
                rr.append(per[k].pop(0))
    uniq = base + rr
    cres = common.fork_map(corpus_item, [(setup, natpath, cid, text, (soft, deadline), ctx_of.get(cid), base_of.get(cid)) for cid, text in uniq], J)
    C = {"paths": 0, "outputs": 0, "sub_paths": 0, "queries": 0, "solver_time": 0.0, "steps": 0, "obligations": 0, "discharged": 0, "native_runs": 0}
    cviol, cwit, csamples, status = [], {}, [], {}
    invalid = [r["id"] for r in cres if r["status"] == "not-a-valid-source"]
    max_bytes = max_nodes = max_groups = max_paths = 0
    for r in cres:
        status[r["status"]] = status.get(r["status"], 0) + 1
        for k in C:
            C[k] += r[k]
        cviol += r["violations"]
        cwit.update(r["witness"])
        fns |= r["fns"]
        models_used |= r["models"]
        if r["status"] == "ok":
            max_bytes, max_nodes, max_groups, max_paths = max(max_bytes, r["bytes"]), max(max_nodes, r["doc_nodes"]), max(max_groups, r["groups"]), max(max_paths, r["paths"])
        if r["sample"] and r["outputs"] > 1 and len(csamples) < 6:
            csamples.append(r["sample"])
    base_ok = sum(1 for r in cres if "~" not in r["id"] and r["status"] == "ok")
    log("[C17] corpus: %d texts (%d unit-test inputs, %d mutants, %s), %d paths, %d distinct outputs, %d second-formatting paths, %d native runs, %.1fs" %
        (len(uniq), len(corpus), len(uniq) - len([1 for c, _ in uniq if "~" not in c]), status, C["paths"], C["outputs"], C["sub_paths"], C["native_runs"], time.time() - tc))

    # ---- violations (all were reproduced natively in the workers)
    q = TIERS["quick"]
    quick_base = set(cid for cid, text in corpus if len(text) <= q["mutant_bytes"])
    for v in kviol + cviol:
        if v["layer"] == "kernel":
            dd, _ = doc_from_wire(v["doc"].split())
            nodes = doc_stats(dd)[0]
            v["in_quick"] = nodes <= (q["kernel_t0"] if has_empty_text(dd) else q["kernel_size"])
        else:
            v["in_quick"] = "~" not in v["id"] or base_id(v["id"]) in quick_base
    os.makedirs(os.path.join(common.WORK, "c17"), exist_ok=True)
    with open(os.path.join(common.WORK, "c17", "violations-%s.json" % tier), "w") as f:
        json.dump(kviol + cviol, f, indent=1, default=str)
    known_keys = set(f_.get("key") for f_ in rep.known)
    for v in kviol + cviol:
        rep.violation(v["key"], v["what"], v)
    # an obligation of a unit (kernel document / corpus text) that fails ONLY by open known findings is excluded from the
    # proof count and listed; one that fails by anything else stays in `obligations` and is not discharged
    per_unit = {}
    for v in kviol + cviol:
        unit = v["doc"] if v["layer"] == "kernel" else v["id"]
        per_unit.setdefault((v["layer"], unit, obligation_of(v)), set()).add(v["key"])
    excluded, excluded_by_key, failed_new = 0, {}, 0
    for (_, _, _), keys in per_unit.items():
        if keys <= known_keys:
            excluded += 1
            for k in keys:
                excluded_by_key[k] = excluded_by_key.get(k, 0) + 1
        else:
            failed_new += 1

    # ---- vacuity
    need_k = ["layout-depends-on-width", "ifbreak-emitted-and-omitted", "line-break-emitted", "width>=2^31"] if docs else []
    need_c = ["layout-depends-on-width", "text-with-comment", "input-with-trailing-comma", "width>=2^31"] if uniq else []
    if not rep.new:
        for k in need_k:
            if not kwit.get(k):
                raise Inconclusive("vacuity witness missing (kernel): " + k)
        for k in need_c:
            if not cwit.get(k):
                raise Inconclusive("vacuity witness missing (corpus): " + k)
    if uniq and base_ok < 0.8 * len(corpus) and not os.environ.get("VERIF_C17_FILTER"):
        raise Inconclusive("only %d of the %d unit-test inputs went through the pipeline (%s)" % (base_ok, len(corpus), status))

    total = K["obligations"] + C["obligations"]
    obligations = total - excluded
    discharged = total - excluded - failed_new
    cov = {
        "obligations": obligations, "discharged": discharged,
        "obligations_excluded_as_open_known_findings": {"count": excluded, "by_key": excluded_by_key,
                                                        "note": "obligation instances (one per kernel document / corpus text and obligation) that fail exactly by findings "
                                                                "listed as open in known_findings.json; they are NOT claimed"},
        "obligations_failed_by_new_violations": failed_new,
        "obligation_kinds": {
            "kernel (per document)": ["K1 no panic / overflow for any W", "K2 output = Text atoms in order, IfBreak contents optional, modulo blanks and line breaks, for every W",
                                      "K3 no line ends in a blank", "K4 path conditions cover all 2^32 widths"],
            "corpus (per text)": ["B1 no panic for any W (renderer at MIR level, prefix natively)", "B2 every output parses without errors (real parser, natively)",
                                  "B3 code tokens equal in order modulo optional commas (before a closing bracket / lambda `|`, after a `}`); every comment kept (real lexer, natively)",
                                  "B4 formatting the output again under the path condition gives the same string on every sub-path",
                                  "B5 path conditions cover all 2^32 widths"]},
        "checker_cmd": "./check C17 --tier " + tier,
        "trusted_base": ["rustc -Zunpretty=mir dump reflects the compiled renderer",
                         "vsym MIR interpreter + std models; validated in this run on %d concrete calls: on one model of EVERY explored path condition the natively compiled real "
                         "function (render_doc_with_line_length for the kernel, format_source_with_line_length for the corpus) returned exactly the path's output" % (K["native_runs"] + C["native_runs"]),
                         "z3 %s" % z3.get_version_string(),
                         "the W-independent prefix of the pipeline (Parser::parse, doc::format) and the oracles on concrete strings (real parser: parse errors; real lexer: tokens) "
                         "run natively (engines/fmtdrv, debug build of the working tree); the Doc is imported through a textual encoding (round trip checked by the agreement above)",
                         "W-independence of the prefix: in the MIR of format_source_with_line_length the line_length parameter occurs once, as the argument of render_doc_with_line_length"],
        "functions_encoded": sorted(fns),
        "std_models_used": sorted(models_used),
        "pipeline_shape": setup.pipeline,
        "bounds": {
            "line_length": "every u32 value (fully symbolic, 2^32 widths; coverage of the path conditions proved per document / text)",
            "kernel_documents": "every Doc tree with <= %d nodes over Concat(2..3 children) / Nest(%d) / Group / IfBreak / Text(1 letter) / Text(3 letters) / SoftLine / SoftBreak / HardLine, "
                                "plus every such tree with <= %d nodes that contains an empty Text; distinct letters per atom" % (cfg["kernel_size"], NEST_INDENT, cfg["kernel_t0"]),
            "kernel_document_count": K["docs"], "kernel_documents_with_group": K["with_group"], "kernel_max_paths_per_document": K["max_paths"],
            "corpus_unit_test_inputs": len(corpus), "corpus_inputs_not_extracted": skipped,
            "corpus_mutants": "of every unit-test input of <= %d bytes: `/* c */`, `// c\\n`, two blank lines inserted at %s token boundary (blank lines only next to existing blanks); every blank/newline token replaced by a line break, by blanks+tab"
                              % (cfg["mutant_bytes"], "every" if cfg["mutant_stride"] == 1 else "every %d-th" % cfg["mutant_stride"]),
            "corpus_texts_total": len(uniq), "corpus_texts_checked": status.get("ok", 0) + status.get("prefix-panic", 0), "corpus_status": status, "corpus_texts_with_parse_errors_skipped": invalid[:40], "corpus_max_text_bytes": max_bytes, "corpus_max_doc_nodes": max_nodes,
            "corpus_max_groups": max_groups, "corpus_max_paths_per_text": max_paths},
        "paths": K["paths"] + C["paths"] + C["sub_paths"], "queries": K["queries"] + C["queries"],
        "solver_time_s": round(K["solver_time"] + C["solver_time"], 2), "mir_blocks_executed": K["steps"] + C["steps"],
        "kernel": {("obligation_instances_incl_excluded" if k == "obligations" else k): x for k, x in K.items() if k != "discharged"},
        "corpus": {("obligation_instances_incl_excluded" if k == "obligations" else k): x for k, x in C.items() if k != "discharged"},
        "native_validation_runs": K["native_runs"] + C["native_runs"],
        "vacuity_witnesses": sorted(["kernel:" + k for k in kwit] + ["corpus:" + k for k in cwit]),
        "known_findings_hit": [k for k, _ in rep.known_hit],
        "samples": ksamples[:3] + csamples[:5],
        "outside_the_claim": ["source texts other than the listed corpus (unit-test inputs of the working tree and their layout mutants): the claim is per text, for all widths",
                              "Doc trees larger than the kernel bound, Nest indents other than %d, Text atoms containing blanks or line breaks (kernel layer)" % NEST_INDENT,
                              "parser and doc::format are executed natively on the concrete text, not symbolically (they do not depend on the line length)",
                              "the CLI (main.rs), file I/O, --check / --in-place handling", "release builds (no overflow checks): wrapping arithmetic instead of the panics of K1/B1",
                              "semantic equivalence beyond the token sequence (the property is stated on tokens and comments)"],
    }
    assumptions = ["source texts are well-formed UTF-8 (&str)", "usize is 64 bit",
                   "String / Vec / SmolStr / Box modelled as concrete-length sequences / cells (models.py, models_parse.py, models_fmt.py); allocation never fails",
                   "overflow checks and debug assertions on (MIR dump and native replay build alike)",
                   "optional separators = a COMMA directly in front of `)`, `]`, `}` or the closing `|` of lambda parameters, or directly behind a `}` (block-bodied match arm); comments are compared modulo trailing blanks"]
    nviol = len(rep.new)
    level = "proof"
    if not discharged:
        level = "other"
        cov["explanation"] = "no obligation discharged in this run"
    common.write_evidence(PID, tier, level, cov, assumptions, time.time() - t0, nviol)
    log("[C17] %d obligations (%d discharged), %d paths, %d solver queries (%.1fs solver), %.1fs; new violations %d, known findings hit %d" %
        (obligations, discharged, cov["paths"], cov["queries"], cov["solver_time_s"], time.time() - t0, nviol, len(rep.known_hit)))
    return rep.exit_code()


def obligation_of(v):
    k = v["key"].split("/")
    if v["layer"] == "kernel":
        return "K1" if k[0] == "panic" else {"atoms": "K2", "trailing-blank": "K3"}.get(k[1] if len(k) > 1 else "", "K?")
    return {"panic": "B1", "reparse": "B2", "tokens": "B3", "comments": "B3", "idempotence": "B4"}.get(k[0], "B?")


def has_empty_text(d):
    if d[0] == "T":
        return len(d[1]) == 0
    if d[0] == "C":
        return any(has_empty_text(c) for c in d[1])
    if d[0] == "N":
        return has_empty_text(d[2])
    if d[0] in ("G", "I"):
        return has_empty_text(d[1])
    return False


def has_kind_sk(sk, kind):
    if sk[0] == kind:
        return True
    if sk[0] == "C":
        return any(has_kind_sk(c, kind) for c in sk[1])
    if sk[0] == "N":
        return has_kind_sk(sk[2], kind)
    if sk[0] in ("G", "I"):
        return has_kind_sk(sk[1], kind)
    return False


# ------------------------------------------------------------------------------------------
# replay

def replay(path):
    d = json.load(open(path))
    r = d["replay"]
    natpath = build_fmtdrv()
    nat = Native(natpath)
    try:
        cmd = r["cmd"]
        ans = nat.ask(cmd)
        print("verif-fmt %s\n  -> %s" % (cmd[:200], " ".join(ans)[:400]))
        ev = r.get("eval")
        bad = None
        if ev == "panic":
            bad = ("the real code panics: " + " ".join(ans[1:])) if ans[0] in ("PANIC", "DIED") else None
        elif r.get("layer") == "kernel" and ans[0] == "OK":
            dd, _ = doc_from_wire(r["doc"].split())
            hits = [desc for vk, desc in kernel_eval(dd, unhx(ans[1])) if vk == ev]
            bad = hits[0] if hits else None
        elif ev in ("tokens", "comments") and ans[0] == "OK":
            text, out = bytes.fromhex(r["text_hex"]), unhx(ans[1])
            hits = [desc for vk, desc in token_verdict(nat.tokens(text)[0], nat.tokens(out)[0]) if vk == ev]
            bad = hits[0] if hits else None
        elif ev == "idempotence" and ans[0] == "OK":
            out = unhx(ans[1])
            again = nat.fmt(r["width"], out)
            bad = "formatting the output again changes it: %r -> %r" % (out, again[1]) if again != ("ok", out) else None
        print("replay: %s" % (bad or "the real code satisfies the assertion on this input"))
        if bad:
            print("VIOLATION property=%s replay=%s" % (PID, path))
            return 1
        return 0
    finally:
        nat.close()
        try:
            os.unlink(natpath)
        except OSError:
            pass
