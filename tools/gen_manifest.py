#!/usr/bin/env python3
"""Regenerates /verif/MANIFEST.json from the table below (edit the table, not the JSON)."""
import json, os, sys
HERE = os.path.dirname(os.path.dirname(os.path.abspath(__file__)))

BASELINE = ("cd /repo && cargo nextest run --workspace --no-fail-fast --tool-config-file pb:/w/lib/nextest.toml "
            "--profile pb --test-threads 8 --offline || cargo test --workspace --no-fail-fast --offline")

# id -> dict(category, text, note, technique, engine, design_ref)   (only built checks)
CHECKS = {}

NOT_APPLICABLE = {
 "C05": "type checker acceptance/rejection is a whole-program analysis over arenas, hash maps and trait resolution; no bounded symbolic program can be pushed through it by Kani (OOM on far simpler container code) or by the custom MIR executor; generator/mutant oracles are testing, a different technique (DESIGN §4 C05)",
 "C10": "stack-map census = concrete table lookups per emitted call site (enumeration, nothing for a solver to quantify over); the code producing the maps needs the whole program model (DESIGN §4 C10)",
 "C15": "build reproducibility / bootstrap fixed point is not a function of any symbolic input of an encodable unit; decided only by building repeatedly and comparing bytes (differential testing) (DESIGN §4 C15)",
 "C17": "formatter token preservation / idempotence quantifies over syntax trees x comments x widths; symbolic trees cannot be carried through parser + document builder by either engine (DESIGN §4 C17)",
}
NOT_YET = "check planned in DESIGN.md but not built yet in this tree; not claimed until it passes on the unchanged tree"
ALL = ["C%02d" % i for i in range(1, 21)]

def main():
    sys.path.insert(0, HERE)
    try:
        from tools.manifest_table import CHECKS as C, NOT_APPLICABLE as NA
        CHECKS.update(C); NOT_APPLICABLE.update(NA)
    except ImportError:
        pass
    checks = []
    for pid in ALL:
        if pid not in CHECKS: continue
        c = CHECKS[pid]
        checks.append({
            "property_id": pid,
            "quick_cmd": "./check %s --tier quick" % pid,
            "thorough_cmd": "./check %s --tier thorough" % pid,
            "evidence_file": "/verif/evidence/%s.json" % pid,
            "replay_cmd_template": "./check %s --replay {path}" % pid,
            "engine": c["engine"],
            "level_claimed": {"category": c["category"], "text": c["text"], "design_ref": c.get("design_ref", "DESIGN.md §4 " + pid)},
            "level_note": c["note"],
            "technique": c["technique"],
        })
    na = []
    for pid in ALL:
        if pid in CHECKS: continue
        na.append({"property_id": pid, "reason": NOT_APPLICABLE.get(pid, NOT_YET)})
    m = {
        "version": 1,
        "setup_cmd": "./setup.sh",
        "hooks": {"guard": "dinfuehr_dora_verif", "enable": "no source hooks are needed: harness crates depend on /repo crates by path; MIR, bytecode and assembly are dumped by the stock toolchain from the working tree",
                  "baseline_off_cmd": BASELINE, "source_commits": [], "add_only": True},
        "engines": [
            {"name": "kani_asm", "path": "/verif/engines/kani_asm", "serves_properties": [p for p in CHECKS if CHECKS[p]["engine"] == "kani_asm"],
             "kind_free_text": "Kani 0.68 / CBMC harness crates (path dependency on /repo/dora-asm), harness list generated from the pub fn signatures on every run"},
            {"name": "vsym", "path": "/verif/vsym", "serves_properties": [p for p in CHECKS if CHECKS[p]["engine"] == "vsym"],
             "kind_free_text": "custom symbolic executor (python + z3, cvc5 second opinion) with front ends for rustc MIR dumps, Dora bytecode dumps and emitted x86-64 (llvm-objdump), modes: path-exploring seq and schedule-symbolic BMC"},
        ],
        "checks": checks,
        "not_applicable": na,
        "notes": "Technique family: solver-based checking of the real code. Every encoding is regenerated from /repo's working tree on each run. exit 2 = inconclusive. Known findings: /verif/known_findings.json.",
    }
    json.dump(m, open(os.path.join(HERE, "MANIFEST.json"), "w"), indent=1)
    import subprocess
    print("checks:", [c["property_id"] for c in checks])

if __name__ == "__main__":
    main()
