"""MIR dump of the *lib target of the native replay crate* (/verif/engines/native).

The language server is a binary crate, so `common.mir_dump` (which dumps `-p <crate> --lib` inside
/repo) cannot reach `dora-language-server/src/position.rs`.  The native crate's `[lib]` target has
that very file as its crate root (`path = "@REPO@/dora-language-server/src/position.rs"`), so dumping
the lib of the instantiated template (/verif/.work/native-src) gives the MIR of the real functions
of the working tree.  Regenerated on every call (the lib's cargo fingerprint is removed first, so
nothing in /repo has to be touched)."""
import glob
import os
import shutil
import time

from . import common
from .common import Inconclusive, log


def native_lib_mir_dump(name="verif-native"):
    common.ensure_dirs()
    src = os.path.join(common.VERIF, "engines", "native")
    dst = os.path.join(common.WORK, "native-src")
    out = os.path.join(common.WORK, "mir", name + "-lib.mir")
    tdir = os.path.join(common.WORK, "native-mir-target")
    os.makedirs(os.path.dirname(out), exist_ok=True)
    with common.Lock("native-build"):
        # same instantiation of the template as common.build_native()
        os.makedirs(os.path.join(dst, "src"), exist_ok=True)
        toml = open(os.path.join(src, "Cargo.toml")).read().replace("@REPO@", common.REPO)
        common._write_if_changed(os.path.join(dst, "Cargo.toml"), toml)
        for f in os.listdir(os.path.join(src, "src")):
            common._write_if_changed(os.path.join(dst, "src", f), open(os.path.join(src, "src", f)).read())
        shutil.copy(os.path.join(common.REPO, "Cargo.lock"), os.path.join(dst, "Cargo.lock"))
        # force re-emission: the dump is a by-product of compiling the lib target
        for fp in glob.glob(os.path.join(tdir, "debug", ".fingerprint", "verif-native-*")):
            shutil.rmtree(fp, ignore_errors=True)
        t = time.time()
        p = common.run(["cargo", "+nightly", "rustc", "--offline", "-q", "--lib", "--", "-Zunpretty=mir",
                        "-C", "debug-assertions=on", "-C", "overflow-checks=on"], cwd=dst,
                       env={"CARGO_TARGET_DIR": tdir}, timeout=3600)
        if len(p.stdout) < 500:
            raise Inconclusive("empty MIR dump for the lib target of the native crate: " + p.stderr[-2000:])
        with open(out, "w") as f:
            f.write(p.stdout)
        log("[mir] %s lib (%s): %d lines in %.1fs" % (name, os.path.join(common.REPO, "dora-language-server/src/position.rs"),
                                                       p.stdout.count("\n"), time.time() - t))
    return out
