#!/usr/bin/env python3
"""Generator of the C08 Kani harness crate.

Every run: parse the `pub fn name(&mut self, ...)` signatures of AssemblerArm64 out of the
CURRENT <dora-asm>/src/arm64.rs (VERIF_ASM_SRC overrides the dora-asm directory, default
/repo/dora-asm), join them with /verif/spec/arm64.toml, and write the harness crate
(template copy + generated calls.rs / harnesses.rs / dispatch.rs + /repo/Cargo.lock) into
/verif/.work/kani_arm64/.

A method without a spec entry -> `unspecified` (never a violation).  A spec entry whose method
vanished is skipped.  A method whose signature differs from the spec's -> `signature_changed`
(reported like unspecified: the spec no longer describes it).
"""
import json
import os
import re
import shutil
import sys
import tomllib

HERE = os.path.dirname(os.path.abspath(__file__))
VERIF = os.path.dirname(os.path.dirname(HERE))
TEMPLATE = os.path.join(HERE, "arm64")
SPEC = os.path.join(VERIF, "spec", "arm64.toml")
OUT = os.path.join(VERIF, ".work", "kani_arm64")
REPO = os.environ.get("VERIF_REPO", "/repo")


def asm_dir():
    return os.environ.get("VERIF_ASM_SRC", os.path.join(REPO, "dora-asm"))


SIG_RE = re.compile(r'^\s*pub fn (\w+)\s*\(\s*&mut self\s*,?([^)]*)\)', re.M | re.S)


def parse_signatures(path):
    src = open(path).read()
    cut = src.find("#[cfg(test)]")
    if cut >= 0:
        src = src[:cut]
    # only the impl blocks of AssemblerArm64
    out = []
    for m in re.finditer(r'^impl AssemblerArm64 \{', src, re.M):
        start = m.end()
        nxt = re.search(r'^\}', src[start:], re.M)
        body = src[start:start + nxt.start()] if nxt else src[start:]
        for name, args in SIG_RE.findall(body):
            ps = []
            for p in args.replace("\n", " ").split(","):
                p = p.strip()
                if not p:
                    continue
                pn, pt = p.split(":")
                ps.append((pn.strip().lstrip("_"), pt.strip()))
            out.append((name, ps))
    return out


# operand code types -----------------------------------------------------------------------
#   rust type of the code, domain assumption (format with name), conversion expression
CODES = {
    "Register": ("u8", "{n} <= 32", "gpr({n})"),
    "NeonRegister": ("u8", "{n} <= 31", "neon({n})"),
    "Cond": ("u8", "{n} <= 15", "mk_cond({n})"),
    "Shift": ("u8", "{n} <= 3", "mk_shift({n})"),
    "Extend": ("u8", "{n} <= 8", "mk_extend({n})"),
    "u32": ("u32", None, "{n}"),
    "u64": ("u64", None, "{n}"),
    "i32": ("i32", None, "{n}"),
    "i64": ("i64", None, "{n}"),
}


def expand(template, env):
    def rep(m):
        k = m.group(1)
        if k not in env:
            raise KeyError("spec template variable {%s} undefined" % k)
        return str(env[k])
    return re.sub(r'\{([A-Z][A-Z0-9_]*)\}', rep, template)


class Method:
    def __init__(self, name, params, fam, env):
        self.name = name
        self.params = params          # [(name, type)] as in the source
        self.fam = fam
        self.env = env
        self.kind = fam.get("kind", "simple")
        # flattened code parameters
        self.codes = []               # [(name, rust type, domain or None)]
        self.call_args = []           # expressions for the real call
        for pn, pt in params:
            if pt == "MemOperand":
                self.codes.append(("base", "u8", "base <= 32"))
                self.codes.append(("offset", "i64", None))
                self.call_args.append("MemOperand::offset(gpr(base), offset)")
            elif pt == "Label":
                self.call_args.append("LABEL")
            else:
                ty, dom, conv = CODES[pt]
                self.codes.append((pn, ty, dom.format(n=pn) if dom else None))
                self.call_args.append(conv.format(n=pn))

    def sig(self):
        return ", ".join("%s: %s" % (n, t) for n, t, _ in self.codes)

    def args(self):
        return ", ".join(n for n, _, _ in self.codes)

    def text(self, key, default="true"):
        return expand(self.fam.get(key, default), self.env)


def load_spec():
    with open(SPEC, "rb") as f:
        return tomllib.load(f)


def join(sigs, spec):
    by_method = {}
    for fam in spec.get("family", []):
        for ent in fam["methods"]:
            env = dict(ent)
            by_method[ent["m"]] = (fam, env)
    skip = {e["m"]: e["why"] for e in spec.get("not_instruction", [])}
    methods, unspecified, infra, changed = [], [], [], []
    seen = set()
    for name, params in sigs:
        seen.add(name)
        if name in skip:
            infra.append({"method": name, "why": skip[name]})
            continue
        if name not in by_method:
            unspecified.append({"method": name, "why": "no entry in spec/arm64.toml"})
            continue
        fam, env = by_method[name]
        want = [expand(x, env) for x in fam["params"]]
        have = [t for _, t in params]
        if want != have:
            changed.append({"method": name, "why": "signature %s differs from the spec's %s" % (have, want)})
            continue
        # the spec refers to parameters by position names given in fam["names"] (defaults to source names)
        names = fam.get("names")
        if names:
            params = list(zip(names, have))
        methods.append(Method(name, params, fam, env))
    vanished = sorted(set(by_method) - seen)
    return methods, unspecified, infra, changed, vanished


# ---------------------------------------------------------------------------------------------
# code emission

HEADER = "// GENERATED by /verif/engines/kani_asm/gen_arm64.py -- do not edit\n#![allow(unused_variables, unused_mut, unused_imports, unused_parens, clippy::all)]\nuse crate::support::*;\n"


def emit_calls(methods):
    o = [HEADER]
    for m in methods:
        if m.kind in ("simple", "movimm", "mem"):
            # composite helpers emit a symbolic number of words: overwrite mode (see support.rs)
            if m.kind == "simple":
                o.append("pub fn call_%s(%s) -> Words {\n    let mut a = AssemblerArm64::new();\n    a.%s(%s);\n    words(a)\n}\n"
                         % (m.name, m.sig(), m.name, ", ".join(m.call_args)))
            else:
                o.append("pub fn call_%s(%s) -> Words {\n    let mut a = prefilled();\n    a.%s(%s);\n    words_written(a)\n}\n"
                         % (m.name, m.sig(), m.name, ", ".join(m.call_args)))
        o.append("pub fn legal_%s(%s) -> bool {\n    %s\n}\n" % (m.name, m.sig(), m.text("legal")))
        o.append("pub fn contract_%s(%s) -> bool {\n    %s\n}\n" % (m.name, m.sig(), m.text("contract")))
        if m.kind == "simple":
            o.append("pub fn expect_%s(%s) -> Insn {\n    %s\n}\n" % (m.name, m.sig(), m.text("expect")))
            if "expect2" in m.fam:
                o.append("pub fn expect2_%s(%s) -> Insn {\n    %s\n}\n" % (m.name, m.sig(), m.text("expect2")))
                o.append("pub fn post_%s(w: &Words, %s) -> bool {\n    one(w, expect_%s(%s)) || one(w, expect2_%s(%s))\n}\n"
                         % (m.name, m.sig(), m.name, m.args(), m.name, m.args()))
            else:
                o.append("pub fn post_%s(w: &Words, %s) -> bool {\n    one(w, expect_%s(%s))\n}\n"
                         % (m.name, m.sig(), m.name, m.args()))
        elif m.kind in ("movimm", "mem"):
            o.append("pub fn post_%s(w: &Words, %s) -> bool {\n    %s\n}\n" % (m.name, m.sig(), m.text("post")))
        else:
            o.append(emit_label_calls(m))
    return "\n".join(o)


def decl_symbolic(m, indent="    "):
    o = []
    for n, t, dom in m.codes:
        o.append("%slet %s: %s = kani::any();" % (indent, n, t))
        if dom:
            o.append("%skani::assume(%s);" % (indent, dom))
    return "\n".join(o)


UNWIND = {"simple": 8, "movimm": 66, "mem": 66, "label": 12}


def emit_harnesses(methods):
    o = [HEADER, "use crate::calls::*;\n"]
    names = []
    any_reps = set()
    legal_seen = []
    for m in methods:
        if m.kind in ("simple", "movimm", "mem"):
            uw = int(m.fam.get("unwind", UNWIND[m.kind]))
            pre = m.text("assume")  # aliasing preconditions that are neither legality nor refusal
            stub = "" if m.kind == "simple" else "#[kani::stub(std::vec::Vec::reserve, crate::support::reserve_once_small)]\n"
            o.append(("""#[kani::proof]
#[kani::unwind(%d)]
""" + stub + """fn legal__%s() {
%s
    kani::assume(%s);
    kani::assume(legal_%s(%s) && contract_%s(%s));
    let w = call_%s(%s);
    kani::cover!(true, "VACUITY call returned");
    let ok = post_%s(&w, %s);
    kani::cover!(!ok, "CEX post-condition violated");
    assert!(ok, "POST decode(word) == requested instruction");
}
""") % (uw, m.name, decl_symbolic(m), pre, m.name, m.args(), m.name, m.args(), m.name, m.args(), m.name, m.args()))
            legal_idx = len(names)
            names.append(("legal__" + m.name, m.name, "legal", "quick"))
            legal_seen.append(legal_idx)
            o.append(("""#[kani::proof]
#[kani::unwind(%d)]
""" + stub + """fn any__%s() {
%s
    kani::assume(%s);
    let w = call_%s(%s);
    kani::cover!(true, "VACUITY call returned");
    let lg = legal_%s(%s);
    let ok = lg && post_%s(&w, %s);
    kani::cover!(!ok, "CEX post-condition violated");
    assert!(lg, "POST accepted operands are encodable");
    assert!(ok, "POST decode(word) == requested instruction");
}
""") % (uw, m.name, decl_symbolic(m), pre, m.name, m.args(), m.name, m.args(), m.name, m.args()))
            # refusal clause ("accepted operands are encodable"): every method in the thorough tier; in the quick tier
            # one representative per family and per distinct setting of the spec's template variables other than the
            # method name / opcode (methods of a family share their cls:: encoder, where operand ranges are checked)
            rep_key = (m.fam.get("name"), tuple(sorted((k, str(v)) for k, v in m.env.items() if k not in ("m", "OP"))))
            any_tier = "thorough"
            if rep_key not in any_reps and m.kind == "simple":      # the composite helpers (unwind 66) stay in the thorough tier
                any_reps.add(rep_key)
                any_tier = "quick"
                # the quick tier has a time budget (~15 min for the whole check): for a representative the any__ harness
                # (decode == request for ALL accepted operands, and accepted => encodable) replaces the legal__ one there;
                # what only legal__ shows — legal operands are not refused — stays in the thorough tier for these methods
                # and is still covered in the quick tier by the family's other methods, which share the cls:: encoder
                n0 = names[legal_idx]
                names[legal_idx] = (n0[0], n0[1], n0[2], "thorough")
            names.append(("any__" + m.name, m.name, "any", any_tier))
        else:
            txt, ns = emit_label_harnesses(m)
            o.append(txt)
            names.extend(ns)
    # time budget of the quick tier (a fresh-copy run stops a quick command after 15 minutes; one harness costs ~40 s
    # of one core): of the methods that are not a family representative every third keeps its legal__ harness in the
    # quick tier (deterministic: position in source order); the thorough tier runs legal__ and any__ for every method
    k = 0
    for idx in legal_seen:
        n0 = names[idx]
        if n0[3] == "quick":
            if k % 3 != 0:
                names[idx] = (n0[0], n0[1], n0[2], "thorough")
            k += 1
    return "\n".join(o), names


# ---- label methods ------------------------------------------------------------------------
# Spec keys of a label family: OP (decoder Op of the direct form), FORM, rt ("none"|"x"|"w"),
# has `cond` / `bit` parameters as in the source signature.
NEAR = 8           # filler words of the near label harnesses (the far harness covers every forward distance)
FILL = "0xD503201Fu32"  # nop


def label_parts(m):
    """Rust snippets shared by the label templates."""
    regs = [n for n, t, _ in m.codes]
    call = "a.%s(%s);" % (m.name, ", ".join("l" if x == "LABEL" else x for x in m.call_args))
    return regs, call


def emit_label_calls(m):
    """run_<m>_fwd/bwd/far(codes..., k) -> (code bytes, byte position of the branch, byte position of label)
       fwd: forward reference over k real filler words; bwd: backward reference over k real filler words;
       far: forward reference, label bound at byte distance 4*k from the branch via set_position
            (no filler -- the distance is symbolic over the whole range; replayed natively with real filler).
       fwd/bwd end with finalize(1): the buffer length is symbolic there and align_to(4)'s padding loop
       (exercised with finalize(4) by every other harness) cannot be bounded by the model checker."""
    _, call = label_parts(m)
    sig = m.sig()
    sig = (sig + ", " if sig else "") + "k: u32"
    post = m.text("post")
    return """pub fn run_%(n)s_bwd(%(sig)s) -> (Vec<u8>, usize, usize) {
    // overwrite mode: the k filler words are the NOPs the buffer is pre-filled with
    let mut a = prefilled_label();
    a.set_position(4);
    let l = a.create_and_bind_label();
    let target = 4usize;
    a.set_position(4 + 4 * (k as usize));
    let pos = a.position();
    %(call)s
    a.set_position_end();
    (a.finalize(4).code(), pos, target)
}
pub fn run_%(n)s_fwd(%(sig)s) -> (Vec<u8>, usize, usize) {
    let mut a = prefilled_label();
    a.set_position(4);
    let l = a.create_label();
    let pos = a.position();
    %(call)s
    let after = a.position();
    a.set_position(after + 4 * (k as usize));
    let target = a.position();
    a.bind_label(l);
    a.set_position_end();
    (a.finalize(4).code(), pos, target)
}
pub fn run_%(n)s_far(%(sig)s) -> (Vec<u8>, usize, usize) {
    // the label is bound at byte distance 4*k, in general far beyond the end of the buffer
    let mut a = prefilled_label();
    a.set_position(4);
    let l = a.create_label();
    let pos = a.position();
    %(call)s
    let target = pos + 4 * (k as usize);
    a.set_position(target);
    a.bind_label(l);
    a.set_position_end();
    (a.finalize(4).code(), pos, target)
}
/// native only: forward reference over k REAL appended filler words (replay of far counterexamples)
pub fn run_%(n)s_real(%(sig)s) -> (Vec<u8>, usize, usize) {
    let mut a = AssemblerArm64::new();
    a.emit_u32(%(fill)s);
    let l = a.create_label();
    let pos = a.position();
    %(call)s
    let mut i = 0u32;
    while i < k { a.emit_u32(%(fill)s); i += 1; }
    let target = a.position();
    a.bind_label(l);
    a.emit_u32(%(fill)s);
    (a.finalize(4).code(), pos, target)
}
pub fn post_%(n)s(code: &[u8], pos: usize, target: usize, two_slots: bool, %(sig)s) -> bool {
    if pos %% 4 != 0 || code.len() %% 4 != 0 || pos + 4 > code.len() { return false; }
    let w0 = word_at(code, pos / 4);
    let w1 = if pos + 8 <= code.len() { Some(word_at(code, pos / 4 + 1)) } else { None };
    let (pos, target) = (pos as i64, target as i64);
    %(post)s
}
""" % {"n": m.name, "sig": sig, "fill": FILL, "call": call, "post": post}


def emit_label_harnesses(m):
    args = m.args()
    a2 = (args + ", " if args else "")
    o = []
    names = []
    for hk, two, kdom, uw, tier in (("fwd", "true", "k <= %d" % NEAR, 12, "thorough"),
                                    ("bwd", "false", "k <= %d" % NEAR, 12, "thorough"),
                                    ("far", "true", "k < (1u32 << 29)", 12, "quick")):
        o.append("""#[kani::proof]
#[kani::unwind(%(uw)d)]
%(stub)sfn %(hk)s__%(n)s() {
%(decl)s
    let k: u32 = kani::any();
    kani::assume(%(kdom)s);
    kani::assume(legal_%(n)s(%(args)s) && contract_%(n)s(%(args)s));
    let (code, pos, target) = run_%(n)s_%(hk)s(%(a2)sk);
    kani::cover!(true, "VACUITY call returned");
    let ok = post_%(n)s(&code, pos, target, %(two)s, %(a2)sk);
    kani::cover!(!ok, "CEX post-condition violated");
    assert!(ok, "POST branch reaches the bound label");
}
""" % {"uw": uw, "hk": hk, "n": m.name, "decl": decl_symbolic(m), "kdom": kdom, "args": args, "a2": a2, "two": two,
       "stub": "#[kani::stub(std::vec::Vec::reserve, crate::support::reserve_once_label)]\n"})
        names.append(("%s__%s" % (hk, m.name), m.name, hk, tier))
    return "\n".join(o), names


# ---- native dispatch ---------------------------------------------------------------------------

def conv_arg(t, i):
    return "a[%d] as %s" % (i, t)


def emit_dispatch(methods):
    o = [HEADER, "use crate::calls::*;\nuse crate::json::Report;\nuse std::panic::catch_unwind;\n",
         "fn msg(e: Box<dyn std::any::Any + Send>) -> String {\n    if let Some(s) = e.downcast_ref::<&str>() { s.to_string() } else if let Some(s) = e.downcast_ref::<String>() { s.clone() } else { \"panic\".to_string() }\n}\n",
         "pub fn dispatch(name: &str, kind: &str, a: &[i128]) -> Option<Report> {\n    match name {"]
    for m in methods:
        n = len(m.codes)
        lets = "\n            ".join("let %s = %s;" % (c[0], conv_arg(c[1], i)) for i, c in enumerate(m.codes))
        if m.kind in ("simple", "movimm", "mem"):
            exp = "Some(expect_%s(%s))" % (m.name, m.args()) if m.kind == "simple" else "None"
            o.append("""        "%(n)s" => {
            if a.len() != %(cnt)d { return None; }
            %(lets)s
            let mut r = Report { method: name.to_string(), kind: kind.to_string(), args: a.to_vec(), refused: false, panic_msg: String::new(),
                legal: legal_%(n)s(%(args)s), contract: contract_%(n)s(%(args)s), words: Vec::new(), ok: false, expected: None, focus: 0, note: String::new() };
            match catch_unwind(|| call_%(n)s(%(args)s)) {
                Ok(w) => {
                    if w.n <= MAXW { r.words = w.w[..w.n].to_vec(); }
                    r.ok = post_%(n)s(&w, %(args)s);
                    r.expected = %(exp)s;
                }
                Err(e) => { r.refused = true; r.panic_msg = msg(e); }
            }
            Some(r)
        }""" % {"n": m.name, "cnt": n, "lets": lets, "args": m.args(), "exp": exp})
        else:
            a2 = (m.args() + ", " if m.args() else "")
            o.append("""        "%(n)s" => {
            if a.len() != %(cnt)d { return None; }
            %(lets)s
            let dir = a[%(i0)d] as u8;
            let k = a[%(i1)d] as u32;
            // natively the far case is replayed with REAL filler words (dir 2 -> forward)
            let mut r = Report { method: name.to_string(), kind: kind.to_string(), args: a.to_vec(), refused: false, panic_msg: String::new(),
                legal: legal_%(n)s(%(args)s), contract: contract_%(n)s(%(args)s), words: Vec::new(), ok: false, expected: None, focus: 0, note: String::new() };
            let res = if dir == 1 { catch_unwind(|| run_%(n)s_bwd(%(a2)sk)) } else if dir == 3 { catch_unwind(|| run_%(n)s_far(%(a2)sk)) } else if dir == 2 { catch_unwind(|| run_%(n)s_real(%(a2)sk.saturating_sub(%(slots)d))) } else { catch_unwind(|| run_%(n)s_fwd(%(a2)sk)) };
            match res {
                Ok((code, pos, target)) => {
                    r.ok = post_%(n)s(&code, pos, target, dir != 1, %(a2)sk);
                    r.focus = pos;
                    r.words.push(word_at(&code, pos / 4));
                    if pos + 8 <= code.len() { r.words.push(word_at(&code, pos / 4 + 1)); }
                    r.note = format!("branch at byte {} label at byte {} code {} bytes", pos, target, code.len());
                }
                Err(e) => { r.refused = true; r.panic_msg = msg(e); }
            }
            Some(r)
        }""" % {"n": m.name, "cnt": n + 2, "lets": lets, "args": m.args(), "a2": a2, "i0": n, "i1": n + 1, "slots": int(m.fam.get("slots", 1))})
    o.append("        _ => None,\n    }\n}\n")
    # boundary tuples for the oracle validation
    o.append("pub fn tuples() -> Vec<(&'static str, Vec<i128>)> {\n    let mut v: Vec<(&'static str, Vec<i128>)> = Vec::new();")
    for m in methods:
        if m.kind not in ("simple", "movimm", "mem"):
            continue
        for t in m.fam.get("tuples", []):
            t = [expand(str(x), m.env) for x in t]
            if len(t) != len(m.codes):
                raise ValueError("tuple arity of %s: %s" % (m.name, t))
            o.append("    v.push((\"%s\", vec![%s]));" % (m.name, ", ".join("(%s) as i128" % x for x in t)))
    o.append("    v\n}\n")
    return "\n".join(o)


def generate(out=OUT):
    src = os.path.join(asm_dir(), "src", "arm64.rs")
    sigs = parse_signatures(src)
    spec = load_spec()
    methods, unspecified, infra, changed, vanished = join(sigs, spec)
    os.makedirs(os.path.join(out, "src"), exist_ok=True)

    def put(rel, text):
        p = os.path.join(out, rel)
        old = open(p).read() if os.path.exists(p) else None
        if old != text:
            with open(p, "w") as f:
                f.write(text)

    for f in ("decoder.rs", "support.rs", "lib.rs", "main.rs", "json.rs"):
        put(os.path.join("src", f), open(os.path.join(TEMPLATE, "src", f)).read())
    cargo = open(os.path.join(TEMPLATE, "Cargo.toml")).read()
    cargo = cargo.replace('path = "/repo/dora-asm"', 'path = "%s"' % asm_dir())
    put("Cargo.toml", cargo)
    lock = os.path.join(REPO, "Cargo.lock")
    if os.path.exists(lock) and not os.path.exists(os.path.join(out, "Cargo.lock")):
        shutil.copy(lock, os.path.join(out, "Cargo.lock"))
    put("src/calls.rs", emit_calls(methods))
    htxt, hnames = emit_harnesses(methods)
    put("src/harnesses.rs", htxt)
    put("src/dispatch.rs", emit_dispatch(methods))
    info = {
        "asm_src": src,
        "methods_in_source": len(sigs),
        "specified": [m.name for m in methods],
        "unspecified": unspecified,
        "signature_changed": changed,
        "not_instruction": infra,
        "spec_entries_without_method": vanished,
        "harnesses": [{"name": h, "method": mm, "kind": k, "tier": t} for h, mm, k, t in hnames],
        "contracts": {m.name: m.text("contract") for m in methods if m.text("contract") != "true"},
        "codes": {m.name: [[n, t] for n, t, _ in m.codes] for m in methods},
        "kinds": {m.name: m.kind for m in methods},
    }
    put("generated.json", json.dumps(info, indent=1))
    return info


if __name__ == "__main__":
    i = generate()
    print("specified %d, unspecified %d, changed %d, infra %d, harnesses %d" % (
        len(i["specified"]), len(i["unspecified"]), len(i["signature_changed"]), len(i["not_instruction"]), len(i["harnesses"])))
