# edited as checks get built; consumed by tools/gen_manifest.py
CHECKS = {}
NOT_APPLICABLE = {}
