"""C18 — bytecode survives being written and read back (dora-bytecode writer.rs / reader.rs), MIR-seq.

Symbolically executes the real `BytecodeWriter::emit_*`, `generate`, `resolve_forward_jumps`,
`emit_u32_variable` … and the real `reader::read` (→ `Iterator::next` → `read_instruction` →
`dispatch_instruction`) from the MIR dump of the working tree.  Claim is partial: the instruction-stream
codec; bincode / whole packages are outside (see evidence).

A *script* is a list of writer operations with operand slots; the same script is run
  * symbolically (slots = z3 terms) by the harnesses,
  * concretely in the executor and natively (`verif-native bc …`) for translator validation and replay.
"""
import hashlib
import json
import os
import random
import re
import subprocess
import time

import z3

from .. import common
from ..common import Inconclusive, log
from ..mir import parse as P
from ..mir.interp import Adt, Cell, Ctx, Explorer, Int, Interp, Opaque, Panic, Ref, Slice, Tup, VecV, set_path
from ..mir import models as M
from ..mir.models_bc import MODELS_BC, new_visitor
from ..mir.runner import run_harnesses

PID = "C18"
HAVE_CVC5 = subprocess.run(["which", "cvc5"], capture_output=True).returncode == 0
MODELS = MODELS_BC + M.MODELS
CRATE = "dora-bytecode"

# ------------------------------------------------------------------------------------------
# the working tree: signatures, enums, MIR

EMIT_KIND = {"Register": "reg", "ConstPoolIdx": "idx", "GlobalId": "gid", "ConstId": "cid", "&[Register]": "regs",
             "u8": "u8", "Label": "label", "char": "char", "i32": "i32", "i64": "i64", "f32": "f32", "f64": "f64",
             "String": "str"}
WIRE = {"reg": "R", "idx": "I", "gid": "G", "cid": "C", "regs": "A", "u8": "B", "label": "O",
        "char": "I", "i32": "I", "i64": "I", "f32": "I", "f64": "I", "str": "I", "idxref": "I"}
VISIT_WIRE = {"Register": "R", "ConstPoolIdx": "I", "GlobalId": "G", "ConstId": "C", "Vec<Register>": "A", "u8": "B",
              "u32": "O"}
CONST_KINDS = {"char": "Char", "i32": "Int32", "i64": "Int64", "f32": "Float32", "f64": "Float64", "str": "String"}
KIND_W = {"reg": 32, "idx": 32, "gid": 32, "cid": 32, "u8": 8, "strbyte": 8, "char": 32, "i32": 32, "i64": 64, "f32": 32, "f64": 64}


def _strip_comments(src):
    return re.sub(r"//[^\n]*", "", src)


def parse_sigs(src, prefix, need_pub):
    """[(name, [(param, type)])] of `fn <prefix>…(&mut self, …)`"""
    out = []
    for m in re.finditer(r"(pub\s+)?fn\s+(%s\w*)\s*\(" % prefix, src):
        if need_pub and not m.group(1):
            continue
        i = m.end()
        depth, j = 1, i
        while depth:
            c = src[j]
            if c in "([{":
                depth += 1
            elif c in ")]}":
                depth -= 1
            j += 1
        params = []
        parts = [p.strip() for p in P.split_top(src[i:j - 1]) if p.strip()]
        if not parts or not re.fullmatch(r"&\s*mut\s+self", parts[0]):
            continue
        for p in parts[1:]:
            n, t = p.split(":", 1)
            params.append((n.strip().lstrip("_").replace("mut ", ""), re.sub(r"\s+", " ", t.strip())))
        out.append((m.group(2), params))
    return out


def parse_enums(path):
    """declaration-order discriminants of the (fieldless-repr) enums of a source file"""
    src = _strip_comments(open(path).read())
    out = {}
    for m in re.finditer(r"\benum\s+(\w+)\s*(<[^{]*>)?\s*\{", src):
        i = m.end()
        depth, j = 1, i
        while depth:
            c = src[j]
            if c in "{([":
                depth += 1
            elif c in "})]":
                depth -= 1
            j += 1
        tbl, nxt = {}, 0
        for p in P.split_top(src[i:j - 1]):
            p = re.sub(r"#\[[^\]]*\]", "", p).strip()
            mm = re.match(r"(\w+)", p)
            if not mm:
                continue
            me = re.search(r"=\s*(-?\d+)\s*$", p)
            if me:
                nxt = int(me.group(1))
            tbl[mm.group(1)] = nxt
            nxt += 1
        out[m.group(1)] = tbl
    return out


class Tree:
    """everything read from the working tree at run time"""


def load():
    t = Tree()
    src_dir = os.path.join(common.REPO, CRATE, "src")
    # `-Zub-checks=no`: without it rustc inserts alignment/null checks on the raw Box pointer of `vec![…]`
    # (pointer-to-integer arithmetic the executor has no model for); overflow checks / debug assertions stay on.
    mir = common.mir_dump(CRATE, ["-Zub-checks=no"])
    prog = P.parse_file(mir, common.REPO)
    # impl headers with lifetime parameters: `BytecodeReader<'a>::next` -> `BytecodeReader::next`
    for f in prog.order:
        n2 = norm_fn_name(f.name)
        if n2 != f.name and n2 not in prog.fns:
            del prog.fns[f.name]
            f.name = n2
            prog.fns[n2] = f
    prog.by_last = {}
    for f in prog.order:
        prog.by_last.setdefault(P.last_segment(f.name), []).append(f)
    t.prog = prog
    t.enums = {}
    for fn in sorted(os.listdir(src_dir)):
        if fn.endswith(".rs") and fn not in ("opcode.rs",):
            try:
                for k, v in parse_enums(os.path.join(src_dir, fn)).items():
                    t.enums.setdefault(k, v)
            except (IndexError, ValueError):
                pass
    if "BytecodeOpcode" not in t.enums or "BytecodeInstruction" not in t.enums:
        raise Inconclusive("enum BytecodeOpcode / BytecodeInstruction not found in dora-bytecode/src")
    wsrc = _strip_comments(open(os.path.join(src_dir, "writer.rs")).read())
    rsrc = _strip_comments(open(os.path.join(src_dir, "reader.rs")).read())
    t.emitters = parse_sigs(wsrc, "emit_", True)
    m = re.search(r"pub\s+trait\s+BytecodeVisitor\s*\{", rsrc)
    if not m:
        raise Inconclusive("trait BytecodeVisitor not found in reader.rs")
    t.visitors = dict(parse_sigs(rsrc[m.end():], "visit_", False))
    if not t.emitters:
        raise Inconclusive("no `pub fn emit_*` found in writer.rs")

    def need(pat, what):
        c = [f for f in prog.order if re.fullmatch(pat, f.name)]
        if len(c) != 1:
            raise Inconclusive("%s: %d functions match %s in the MIR dump" % (what, len(c), pat))
        return c[0].name
    t.f_new = need(r"BytecodeWriter::new", "writer constructor")
    t.f_generate = need(r"BytecodeWriter::generate", "generate")
    t.f_set_location = need(r"BytecodeWriter::set_location", "set_location")
    t.f_create_label = need(r"BytecodeWriter::create_label", "create_label")
    t.f_define_label = need(r"BytecodeWriter::define_label", "define_label")
    t.f_bind_label = need(r"BytecodeWriter::bind_label", "bind_label")
    t.f_add_const = need(r"BytecodeWriter::add_const", "add_const")
    t.f_jump_table = need(r"BytecodeWriter::add_const_jump_table", "add_const_jump_table")
    t.f_emit_var = need(r"BytecodeWriter::emit_u32_var\w*", "variable-length u32 writer")
    t.f_emit_fixed = need(r"BytecodeWriter::emit_u32_fixed", "fixed u32 writer")
    t.f_patch = need(r"BytecodeWriter::patch_u32", "patch_u32")
    t.f_read = need(r"reader::read", "reader::read")
    t.f_rnew = need(r"BytecodeReader::new", "BytecodeReader::new")
    t.f_read_var = need(r"BytecodeReader::read_u32_var\w*", "variable-length u32 reader")
    t.f_read_fixed = need(r"BytecodeReader::read_u32_fixed", "fixed u32 reader")
    t.f_read_inst = need(r"BytecodeReader::read_instruction", "read_instruction")
    t.f_next = need(r"<BytecodeReader as Iterator>::next", "Iterator::next of the reader")
    t.f_op_to_u8 = need(r"<u8 as From<BytecodeOpcode>>::from", "From<BytecodeOpcode> for u8")
    t.f_loc_new = need(r"Location::new", "Location::new")
    t.specs, t.unspecified = {}, {}
    for name, params in t.emitters:
        s = plan(t, name, params)
        if isinstance(s, str):
            t.unspecified[name] = s
        else:
            t.specs[name] = s
    return t


def norm_fn_name(s):
    """`BytecodeReader<'a>::next` / `BytecodeFullIteration<'a, T>::new` -> without the impl's generic parameters"""
    s = re.sub(r"<'\w+>", "", s)
    s = re.sub(r"'\w+,\s*", "", s)
    if not s.startswith("<"):
        s = re.sub(r"^(\w+)<[^<>]*>::", r"\1::", s)
    return s


def norm_callee(s):
    """callee text -> the naming of norm_fn_name: no turbofish, no lifetimes, no module paths in front of types"""
    s = P.strip_generics(s.strip())
    s = re.sub(r"<'\w+>", "", s)
    s = re.sub(r"'\w+,\s*", "", s)
    s = re.sub(r"\b(?:[a-z_][a-z0-9_]*::)+(?=[A-Z])", "", s)
    return s


def camel_key(s):
    return s.replace("_", "").lower()


def plan(t, name, params):
    """harness shape of one emitter: operand kinds, the visitor callback it must come back as and the
    operand correspondence (same wire class, same order within the class).  str = reason for `unspecified`."""
    kinds = []
    for pn, ty in params:
        k = EMIT_KIND.get(ty)
        if k is None:
            return "parameter type `%s` has no harness shape" % ty
        kinds.append(k)
    vname = "visit_" + name[len("emit_"):]
    vp = t.visitors.get(vname)
    if vp is None:
        return "no BytecodeVisitor::%s to read it back through" % vname
    vw = []
    for pn, ty in vp:
        w = VISIT_WIRE.get(ty)
        if w is None:
            return "visitor parameter type `%s` has no harness shape" % ty
        vw.append(w)
    ew = [WIRE[k] for k in kinds]
    if sorted(ew) != sorted(vw):
        return "operand classes of %s%r and %s%r differ" % (name, ew, vname, vw)
    vmap, used = [], {}
    for w in vw:
        n = used.get(w, 0)
        idx = [i for i, e in enumerate(ew) if e == w][n]
        used[w] = n + 1
        vmap.append(idx)
    # name cross-check: an emitter parameter that has a namesake among the visitor parameters of its class
    # must be matched with it, otherwise the correspondence is ambiguous and no verdict is given
    for j, i in enumerate(vmap):
        for j2, (vn, _) in enumerate(vp):
            if j2 != j and vw[j2] == vw[j] and vn == params[i][0] and vp[j][0] != params[i][0]:
                return "ambiguous operand correspondence between %s and %s" % (name, vname)
    opc = [v for v in t.enums["BytecodeOpcode"] if camel_key(v) == camel_key(name[len("emit_"):])]
    return {"name": name, "params": [(pn, k) for (pn, _), k in zip(params, kinds)], "visit": vname, "vmap": vmap,
            "opcode": opc[0] if len(opc) == 1 else None}


# ------------------------------------------------------------------------------------------
# scripts
#
# op:  ("loc",) | ("label", k) | ("define", k) | ("bind", k) | ("prefill", n) | ("table", [k…], kdefault)
#      | ("emit", name, [(kind, slot | [slots] | label k | table t)])
# env: slot -> z3 bit-vector term (BitVecVal in concrete runs)

_MODEL_CACHE, _FIND_CACHE = {}, {}


def new_interp(t):
    it = Interp(t.prog, MODELS)
    it.enum_discr.update(t.enums)
    orig = it.find_fn
    it._model_cache = _MODEL_CACHE          # per process; the model table is the same for every path

    def find_fn(name, nargs):
        key = (name, nargs)
        if key not in _FIND_CACHE:
            f = orig(name, nargs)
            if f is None:
                f = orig(norm_callee(name), nargs)
            if f is None:
                # `<Id<ConstData> as From<usize>>::from` is the generic impl `<Id<T> as From<usize>>::from`
                m = re.fullmatch(r"<(\w+)<.*> as (.+)>::(\w+)", norm_callee(name))
                if m:
                    pat = re.compile(r"<%s<\w+> as %s>::%s" % (re.escape(m.group(1)), re.escape(m.group(2)), m.group(3)))
                    c = [g for g in t.prog.order if pat.fullmatch(g.name) and len(g.params) == nargs]
                    if len(c) == 1:
                        f = c[0]
            _FIND_CACHE[key] = f
        return _FIND_CACHE[key]
    it.find_fn = find_fn
    orig_agg = it.aggregate

    def aggregate(ctx, fr, rv, *more):
        # struct-like enum variants (`BytecodeInstruction::Add { dest, lhs, rhs }`) print as struct aggregates:
        # keep them enum values (fields positional = declaration order, as the MIR field projections use them)
        v = orig_agg(ctx, fr, rv, *more)
        if rv[1] == "struct" and isinstance(v, Tup) and v.name:
            parts = P.split_path(v.name)
            if len(parts) >= 2:
                base = parts[-2].split("::")[-1]
                base = re.sub(r"<.*$", "", base)
                if base in t.enums and parts[-1] in t.enums[base]:
                    return Adt(base, parts[-1], v.fields)
        return v
    it.aggregate = aggregate
    orig_cast = it.cast

    def cast(a, ty, kind):
        # `let values = []; f(&values)`: the zero-length array is a ZST that MIR never assigns; its unsizing gives `&[]`
        if (kind.startswith("PointerCoercion") and isinstance(a, Ref) and a.cell.v is None and not a.path
                and re.fullmatch(r"&\[[^;]*\]", ty.strip())):
            return Slice((), "slice")
        return orig_cast(a, ty, kind)
    it.cast = cast
    orig_switch = it.do_switch

    def do_switch(ctx, v, arms, otherwise):
        # fast path for a concrete integer scrutinee (opcode bytes, discriminants of concrete enum values): the
        # 70-arm matches of the reader/writer would otherwise build and simplify one z3 equality per arm
        if isinstance(v, Int) and z3.is_bv_value(v.t):
            c, mask = v.t.as_long(), (1 << v.w) - 1
            for i, (val, b) in enumerate(arms):
                if (otherwise is None and i == len(arms) - 1) or (val & mask) == c:
                    return b
            return otherwise
        return orig_switch(ctx, v, arms, otherwise)
    it.do_switch = do_switch
    return it


def field(v, name):
    if not isinstance(v, Tup) or not v.fnames or name not in v.fnames:
        raise Inconclusive("struct field `%s` not found in %r" % (name, getattr(v, "name", v)))
    return v.fields[list(v.fnames).index(name)]


def mk_value(kind, term):
    if kind == "reg":
        return Tup((Int(z3.ZeroExt(32, term), "usize"),), name="data::Register")
    if kind == "idx":
        return Tup((Int(term, "u32"),), name="data::ConstPoolIdx")
    if kind in ("gid", "cid"):
        return Tup((Int(term, "u32"), Opaque("phantom")), name="Id")
    if kind == "u8":
        return Int(term, "u8")
    if kind == "char":
        return Int(term, "char")
    if kind in ("i32", "i64"):
        return Int(term, kind)
    if kind == "f32":
        return Int(term, "u32")        # bit pattern; the writer only moves it into the constant pool
    if kind == "f64":
        return Int(term, "u64")
    raise Inconclusive("operand kind " + kind)


class Run:
    pass


def exec_writer(t, it, ctx, script, env):
    """runs the writer part of a script on the real (interpreted) BytecodeWriter; raises Panic"""
    r = Run()
    r.starts, r.label_pos, r.pool_before, r.tables = {}, {}, {}, {}
    w = it.call(ctx, t.f_new, [])
    wc = Cell(w, "writer")
    wr = Ref(wc)
    labels = {}
    ntab = 0

    def code_len():
        return len(field(wc.v, "code").elems)
    for i, op in enumerate(script):
        k = op[0]
        if k == "loc":
            loc = it.call(ctx, t.f_loc_new, [Int(1, "u32"), Int(1, "u32")])
            it.call(ctx, t.f_set_location, [wr, loc])
        elif k == "label":
            labels[op[1]] = it.call(ctx, t.f_create_label, [wr])
        elif k == "define":
            r.label_pos[op[1]] = code_len()
            labels[op[1]] = it.call(ctx, t.f_define_label, [wr])
        elif k == "bind":
            r.label_pos[op[1]] = code_len()
            it.call(ctx, t.f_bind_label, [wr, labels[op[1]]])
        elif k == "prefill":
            for _ in range(op[1]):
                it.call(ctx, t.f_add_const, [wr, Adt("ConstPoolEntry", "Int32", (Int(0, "i32"),))])
        elif k == "table":
            r.tables[ntab] = it.call(ctx, t.f_jump_table, [wr, VecV([labels[x] for x in op[1]], "vec"), labels[op[2]]])
            ntab += 1
        elif k == "emit":
            r.starts[i] = code_len()
            r.pool_before[i] = len(field(wc.v, "const_pool").elems)
            args = [wr]
            for kind, s in op[2]:
                if kind == "regs":
                    args.append(Slice([mk_value("reg", env[x]) for x in s], "slice"))
                elif kind == "label":
                    args.append(labels[s])
                elif kind == "idxref":
                    args.append(r.tables[s])
                elif kind == "str":
                    args.append(VecV([Int(env[x], "u8") for x in s], "string"))
                else:
                    args.append(mk_value(kind, env[s]))
            it.call(ctx, "BytecodeWriter::" + op[1], args)
        else:
            raise Inconclusive("script op " + k)
    r.end = code_len()
    body = it.call(ctx, t.f_generate, [wc.v])
    r.body = body
    r.code = field(body, "code").elems
    r.pool = field(body, "const_pool").elems
    return r


def exec_reader(t, it, ctx, code):
    """runs the real `reader::read` over `code` with a recording visitor; returns (visits, insts, offsets)"""
    insts, offsets = [], []
    fi, fn = t.prog.fns[t.f_read_inst], t.prog.fns[t.f_next]

    def h_inst(it2, cx, f, args):
        rv = it2.exec(cx, [it2.new_frame(f, args)])
        insts.append(rv)
        return rv

    def h_next(it2, cx, f, args):
        rv = it2.exec(cx, [it2.new_frame(f, args)])
        rd = args[0].cell.v
        for p in args[0].path:
            rd = rd.fields[p]
        off = field(rd, "offset")
        # `offset += 1` per byte builds a term as deep as the code is long: fold it after every instruction
        # (equivalence-preserving; keeps the cost of the later index computations linear)
        off = Int(z3.simplify(off.t), off.ty)
        args[0].cell.v = set_path(args[0].cell.v, tuple(args[0].path) + (list(rd.fnames).index("offset"),), off)
        offsets.append(off)
        return rv
    it.hooks[fi.name] = h_inst
    it.hooks[fn.name] = h_next
    vis = new_visitor()
    try:
        it.call(ctx, t.f_read, [Slice(code, "slice"), vis])
    finally:
        it.hooks.pop(fi.name, None)
        it.hooks.pop(fn.name, None)
    return vis.cell.v.payload, insts, offsets


def wire_of(arg, w):
    """the integer term(s) a visitor argument carries"""
    if w == "R":
        return arg.fields[0]
    if w in ("I", "G", "C"):
        return arg.fields[0]
    if w in ("B", "O"):
        return arg
    if w == "A":
        return [a.fields[0] for a in arg.elems]
    raise Inconclusive("wire class " + w)


def expectations(t, script, env, r):
    """the callbacks the reader must produce for this script: [(name, [(wire, expected term | int | [terms])])]"""
    exp = []
    for i, op in enumerate(script):
        if op[0] != "emit":
            continue
        spec = t.specs[op[1]]
        exp.append(("visit_instruction", [("O", r.starts[i])], i))
        vals = []
        for j, src in enumerate(spec["vmap"]):
            kind, s = op[2][src]
            if kind == "regs":
                vals.append(("A", [z3.ZeroExt(32, env[x]) for x in s]))
            elif kind == "reg":
                vals.append(("R", z3.ZeroExt(32, env[s])))
            elif kind == "label":
                lp = r.label_pos[s]
                bound_before = any(o[0] in ("define", "bind") and o[1] == s for o in script[:i])
                vals.append(("O", (r.starts[i] - lp) if bound_before else (lp - r.starts[i])))
            elif kind == "idxref":
                vals.append(("I", r.tables[s].fields[0].t))
            elif kind in CONST_KINDS:
                vals.append(("I", r.pool_before[i]))
            else:
                vals.append((WIRE[kind], env[s]))
        exp.append((spec["visit"], vals, i))
    return exp


def eq_term(got, want):
    if isinstance(want, int):
        want = z3.BitVecVal(want, got.w)
    if want.size() != got.w:
        return z3.BoolVal(False)
    return got.t == want


def judge(t, it, ctx, script, env, r, visits, insts, offsets):
    """-> (structural problem or None, [z3 conditions that must hold])"""
    conds = []
    exp = expectations(t, script, env, r)
    if len(visits) != len(exp):
        return "reader produced %d callbacks for %d written instructions (%s)" % (
            len(visits), len(exp) // 2, ",".join(v[0] for v in visits)), conds
    for (vn, vargs), (en, evals, i) in zip(visits, exp):
        if vn != en:
            return "instruction written by %s reads back as %s" % (script[i][1], vn), conds
        if len(vargs) != len(evals):
            return "%s called with %d operands, %d written" % (vn, len(vargs), len(evals)), conds
        for a, (w, want) in zip(vargs, evals):
            if vn == "visit_instruction":
                a = a.fields[0] if isinstance(a, Tup) else a
                conds.append(eq_term(a, want))
                continue
            got = wire_of(a, w)
            if w == "A":
                if len(got) != len(want):
                    return "%s: %d arguments read back, %d written" % (vn, len(got), len(want)), conds
                conds += [eq_term(g, x) for g, x in zip(got, want)]
            else:
                conds.append(eq_term(got, want))
    # the iterator level: start offsets, opcodes
    emits = [(i, op) for i, op in enumerate(script) if op[0] == "emit"]
    if len(insts) != len(emits):
        return "read_instruction returned %d instructions, %d written" % (len(insts), len(emits)), conds
    for rv, (i, op) in zip(insts, emits):
        start, opc, inst = rv.fields
        conds.append(eq_term(start, r.starts[i]))
        want = t.specs[op[1]]["opcode"]
        if want is not None and isinstance(opc, Adt) and opc.variant != want:
            return "opcode %s read back for %s" % (opc.variant, op[1]), conds
        iv = inst.variant if isinstance(inst, Adt) else (inst.name or "").split("::")[-1]
        if isinstance(opc, Adt) and iv != opc.variant:
            return "read_instruction: opcode %s with instruction %s" % (opc.variant, iv), conds
    # consumed exactly code.len()
    if not offsets:
        return "Iterator::next never called", conds
    conds.append(eq_term(offsets[-1], len(r.code)))
    # constants placed in the pool by the emitters / jump tables
    for i, op in emits:
        for kind, s in op[2]:
            if kind in CONST_KINDS:
                p = r.pool_before[i]
                if p >= len(r.pool):
                    return "constant of %s is not in the constant pool" % op[1], conds
                e = r.pool[p]
                if not (isinstance(e, Adt) and e.variant == CONST_KINDS[kind] and len(e.fields) == 1):
                    return "constant of %s stored as %r" % (op[1], e), conds
                if kind == "str":
                    got = e.fields[0].elems
                    if len(got) != len(s):
                        return "string constant changed length", conds
                    conds += [g.t == env[x] for g, x in zip(got, s)]
                else:
                    conds.append(e.fields[0].t == env[s])
    ntab = 0
    for op in script:
        if op[0] == "table":
            idx = r.tables[ntab].fields[0].conc()
            ntab += 1
            e = r.pool[idx] if idx is not None and idx < len(r.pool) else None
            if not (isinstance(e, (Adt, Tup)) and "JumpTable" in (getattr(e, "variant", None) or e.name or "")):
                return "jump table entry missing in the constant pool: %r" % (e,), conds
            tg, dflt = e.fields
            if len(tg.elems) != len(op[1]):
                return "jump table has %d targets, %d labels given" % (len(tg.elems), len(op[1])), conds
            conds += [eq_term(g, r.label_pos[k]) for g, k in zip(tg.elems, op[1])]
            conds.append(eq_term(dflt, r.label_pos[op[2]]))
    return None, conds


def slots_of(script):
    out = []
    for op in script:
        if op[0] == "emit":
            for kind, s in op[2]:
                if kind in ("regs", "str"):
                    out += [(x, "reg" if kind == "regs" else "strbyte") for x in s]
                elif kind not in ("label", "idxref"):
                    out.append((s, kind))
    return out


def sym_env(ctx, script, fixed=None):
    env = {}
    for s, kind in slots_of(script):
        if s in env:
            continue
        if fixed and s in fixed:
            env[s] = z3.BitVecVal(fixed[s], KIND_W[kind])
            continue
        env[s] = z3.BitVec(s, KIND_W[kind])
        if kind == "char":
            ctx.assume(z3.And(z3.ULE(env[s], 0x10FFFF), z3.Or(z3.ULT(env[s], 0xD800), z3.UGT(env[s], 0xDFFF))))
        if kind == "strbyte":
            ctx.assume(z3.ULT(env[s], 0x80))
    return env


def conc_env(script, values):
    env = {}
    for s, kind in slots_of(script):
        env[s] = z3.BitVecVal(int(values.get(s, 0)), KIND_W[kind])
    return env


def model_inputs(ctx, env, extra=None):
    m = ctx.model(extra)
    if m is None:
        return {}
    return {k: m.eval(v, model_completion=True).as_long() for k, v in env.items()}


def with_fixed(w, fixed):
    w = dict(w)
    w.update(fixed or {})
    return w


def width_class(v):
    n = 1
    while v >= 128:
        v >>= 7
        n += 1
    return n


def script_body(t, name, script, fam, fixed=None):
    """harness: one script, every operand slot symbolic (except the `fixed` ones of large concrete fillers)"""
    def body(ctx, out):
        it = new_interp(t)
        env = sym_env(ctx, script, fixed)
        # the executor's per-path step bound (loop guard) scales with the length of the script
        ctx.ex.max_steps = max(ctx.ex.max_steps, 200000 + 400 * len(script))
        stage = "writer"
        try:
            r = exec_writer(t, it, ctx, script, env)
            stage = "reader"
            visits, insts, offsets = exec_reader(t, it, ctx, r.code)
        except Panic as p:
            out.violations.append({"what": "%s panics: %s" % (stage, p.msg), "witness": model_inputs(ctx, env),
                                   "script": script, "harness": name})
            stats(out, it)
            return
        bad, conds = judge(t, it, ctx, script, env, r, visits, insts, offsets)
        if bad is not None:
            out.violations.append({"what": bad, "witness": model_inputs(ctx, env), "script": script, "harness": name})
        else:
            cond = z3.And(*conds) if conds else z3.BoolVal(True)
            out.require(ctx, cond, "operands / offsets read back differ from the written ones", env, script=script, harness=name)
            # second opinion (cvc5) on a seeded ~1 % sample of the verdict queries
            if HAVE_CVC5 and hashlib.sha1(("%d/%s/%r" % (common.seed(), name, tuple(ctx.trace))).encode()).digest()[0] < 3:
                second_opinion(ctx, z3.Not(cond), "unsat", "%s-%s" % (re.sub(r"\W", "_", name), hashlib.sha1(repr(ctx.trace).encode()).hexdigest()[:8]), out)
        # vacuity: which width class of which operand this path is (the writer forked on it)
        m = ctx.last_model if ctx.last_model is not None else ctx.model()
        if m is not None:
            for s, kind in slots_of(script):
                if KIND_W[kind] == 32 and kind in ("reg", "idx", "gid", "cid"):
                    out.seen("%s:%s:w%d" % (fam, s, width_class(m.eval(env[s], model_completion=True).as_long())))
        for i, op in enumerate(script):
            if op[0] == "emit":
                for kind, sl in op[2]:
                    if kind == "label":
                        d = abs(r.label_pos[sl] - r.starts[i])
                        out.seen("%s:distance:leb%d:bytes%d" % (fam, width_class(d), max(1, (d.bit_length() + 7) // 8)))
        out.seen("%s:len%d" % (fam, len(r.code)))
        out.seen(fam + ":roundtrip")
        if len(out.samples) < 2:
            out.samples.append({"harness": name, "code_len": len(r.code), "callbacks": [v[0] for v in visits]})
        stats(out, it)
    return body


def stats(out, it):
    out.outcome("ok")
    out.__dict__.setdefault("fns", set()).update(it.called)
    out.__dict__.setdefault("models", set()).update(it.models_used)


# ------------------------------------------------------------------------------------------
# LEB128 / fixed u32 codec harnesses (item 1)

BOUNDARY = [0, 1, 127, 128, 16383, 16384, (1 << 21) - 1, 1 << 21, (1 << 28) - 1, 1 << 28, 0xFFFFFFFF]


def leb_body(t, trailing, cvc5_dir=None):
    def body(ctx, out):
        it = new_interp(t)
        v = z3.BitVec("v", 32)
        env = {"v": v}
        wc = Cell(it.call(ctx, t.f_new, []), "writer")
        try:
            it.call(ctx, t.f_emit_var, [Ref(wc), Int(v, "u32")])
            code = list(field(wc.v, "code").elems)
            n = len(code)
            if trailing:
                tb = z3.BitVec("trail", 8)
                env["trail"] = tb
                code.append(Int(tb, "u8"))
            rc = Cell(it.call(ctx, t.f_rnew, [Slice(code, "slice")]), "reader")
            got = it.call(ctx, t.f_read_var, [Ref(rc)])
        except Panic as p:
            out.violations.append({"what": "u32 codec panics: %s" % p.msg, "witness": model_inputs(ctx, env), "leb": True,
                                   "harness": "leb"})
            return
        cond = z3.And(got.t == v, eq_term(field(rc.v, "offset"), n))
        out.require(ctx, cond, "read_u32_variable(emit_u32_variable(v)) != v or consumed length != written length", env,
                    leb=True, harness="leb")
        if cvc5_dir is not None:
            second_opinion(ctx, z3.Not(cond), "unsat", "leb-n%d-t%d" % (n, int(trailing)), out)
        out.seen("leb:w%d" % n)
        for b in BOUNDARY:
            if ("leb:v=%d" % b) not in out.witness and width_class(b) == n and ctx.can(v == b):
                out.seen("leb:v=%d" % b)
        # canonical form: no redundant continuation of zero groups (last byte non-zero unless the value is 0)
        if n > 1:
            out.require(ctx, code[n - 1].t != 0, "non-canonical encoding (trailing zero group)", env, leb=True, harness="leb")
        stats(out, it)
    return body


def fixed_body(t):
    def body(ctx, out):
        it = new_interp(t)
        v, p = z3.BitVec("v", 32), z3.BitVec("p", 32)
        env = {"v": v, "p": p}
        wc = Cell(it.call(ctx, t.f_new, []), "writer")
        try:
            it.call(ctx, t.f_emit_fixed, [Ref(wc), Int(v, "u32")])
            code = field(wc.v, "code").elems
            rc = Cell(it.call(ctx, t.f_rnew, [Slice(code, "slice")]), "reader")
            got = it.call(ctx, t.f_read_fixed, [Ref(rc)])
            ok1 = z3.And(got.t == v, eq_term(field(rc.v, "offset"), len(code)), z3.BoolVal(len(code) == 4))
            it.call(ctx, t.f_patch, [Ref(wc), Tup((Int(0, "u32"),), name="data::BytecodeOffset"), Int(p, "u32")])
            code2 = field(wc.v, "code").elems
            rc2 = Cell(it.call(ctx, t.f_rnew, [Slice(code2, "slice")]), "reader")
            got2 = it.call(ctx, t.f_read_fixed, [Ref(rc2)])
        except Panic as pn:
            out.violations.append({"what": "fixed u32 codec panics: %s" % pn.msg, "witness": model_inputs(ctx, env),
                                   "leb": True, "harness": "fixed"})
            return
        out.require(ctx, z3.And(ok1, got2.t == p, z3.BoolVal(len(code2) == 4)),
                    "read_u32_fixed(emit_u32_fixed(v)) != v, or patch_u32 not read back", env, leb=True, harness="fixed")
        out.seen("fixed:roundtrip")
        stats(out, it)
    return body


def second_opinion(ctx, neg, expect, name, out):
    """cvc5 on the SMT-LIB dump of a verdict query (path condition ∧ negated assertion)"""
    d = os.path.join(common.WORK, "smt")
    os.makedirs(d, exist_ok=True)
    s = z3.Solver()
    for c in ctx.pc:
        s.add(c)
    s.add(neg)
    path = os.path.join(d, "%s-%s.smt2" % (PID, name))
    with open(path, "w") as f:
        f.write("(set-logic ALL)\n" + s.to_smt2().replace("(set-logic", "; (set-logic"))
    try:
        p = subprocess.run(["cvc5", "--lang", "smt2", "--tlimit=60000", path], capture_output=True, text=True, timeout=90)
    except (subprocess.TimeoutExpired, FileNotFoundError):
        out.outcome("cvc5-unavailable")
        return
    o = p.stdout.strip().splitlines()
    if "(error" in p.stdout or "(error" in p.stderr:
        raise Inconclusive("cvc5 error on %s: %s" % (name, (p.stdout + p.stderr)[:300]))
    if o and o[0] in ("sat", "unsat"):
        out.outcome("cvc5-" + o[0])
        # z3 said: require() recorded a violation iff sat
        z3_sat = ctx.can(neg)
        if (o[0] == "sat") != z3_sat:
            raise Inconclusive("solver disagreement on %s: z3=%s cvc5=%s" % (name, "sat" if z3_sat else "unsat", o[0]))


# ------------------------------------------------------------------------------------------
# harness generation

def emit_op(spec, prefix, nargs=2, labels=None, strlen=2):
    """one `emit` op of a script with fresh slots `<prefix><i>`"""
    ops = []
    for i, (pn, kind) in enumerate(spec["params"]):
        s = "%s%d" % (prefix, i)
        if kind == "regs":
            ops.append((kind, ["%s_%d" % (s, j) for j in range(nargs)]))
        elif kind == "str":
            ops.append((kind, ["%s_%d" % (s, j) for j in range(strlen)]))
        elif kind == "label":
            ops.append((kind, labels if labels is not None else 0))
        else:
            ops.append((kind, s))
    return ("emit", spec["name"], ops)


def single_script(spec, nargs=2, prefill=0):
    """one instruction (item 2); a forward-jump emitter gets its label bound right behind it, a backward one
    (label must be bound already) right in front"""
    kinds = [k for _, k in spec["params"]]
    sc = []
    if prefill:
        sc.append(("prefill", prefill))
    if "label" in kinds:
        if spec["name"] in BACKWARD:
            sc += [("define", 0), ("loc",), emit_op(spec, "a", nargs)]
        else:
            sc += [("label", 0), ("loc",), emit_op(spec, "a", nargs), ("bind", 0)]
    else:
        sc += [("loc",), emit_op(spec, "a", nargs)]
    return sc


BACKWARD = set()      # emitters that need an already bound label (found by a probe run, see classify_jumps)


def classify_jumps(t):
    """forward or backward?  decided by probing the real emitter: a backward jump refuses an unbound label and
    accepts a bound one (an emitter that refuses both is treated as forward, so that its refusal is reported)"""
    BACKWARD.clear()
    for name, spec in t.specs.items():
        if "label" not in [k for _, k in spec["params"]]:
            continue

        def runs(sc):
            try:
                exec_writer(t, new_interp(t), Ctx(Explorer(), ()), sc, conc_env(sc, {}))
                return True
            except Panic:
                return False
        if not runs([("label", 0), ("loc",), emit_op(spec, "a", 0), ("bind", 0)]) and \
                runs([("define", 0), ("loc",), emit_op(spec, "a", 0)]):
            BACKWARD.add(name)


def filler_specs(t):
    """one-register instruction used as symbolic filler (2..6 bytes each), and a concrete 6-byte one"""
    c = [s for s in t.specs.values() if [k for _, k in s["params"]] == ["reg"]]
    if not c:
        raise Inconclusive("no one-register emitter to use as filler")
    pref = [s for s in c if s["name"] == "emit_ret"]
    return (pref or c)[0]


def make_harnesses(t, tier):
    H = {}      # name -> (family, script)
    thorough = tier == "thorough"
    for name, spec in sorted(t.specs.items()):
        kinds = [k for _, k in spec["params"]]
        fam = name
        if "regs" in kinds:
            counts = [0, 1, 2, 3] if thorough else [2]
            for n in counts:
                H["%s/args=%d" % (name, n)] = (fam, single_script(spec, n))
        elif any(k in CONST_KINDS for k in kinds):
            # constant-pool index on both sides of the 1-byte/2-byte boundary
            fills = [0, 127, 128] + ([16383, 16384] if thorough and name == sorted(
                n2 for n2, s2 in t.specs.items() if any(k in CONST_KINDS for _, k in s2["params"]))[0] else [])
            for f in fills:
                H["%s/pool=%d" % (name, f)] = (fam, single_script(spec, 0, f))
        else:
            H[name] = (fam, single_script(spec))
    # sequences with jumps (item 3).  A source location is set in front of every instruction (the writer
    # asserts it for the opcodes that need one); the instruction behind the label has a concrete operand.
    fill = filler_specs(t)
    fwd = sorted(n for n, s in t.specs.items() if "label" in [k for _, k in s["params"]] and n not in BACKWARD)
    bwd = sorted(n for n in BACKWARD if n in t.specs)
    maxf = 3 if thorough else 2
    BIG = 0x10000000                    # 5-byte LEB128 operand: a concrete filler instruction is 6 bytes

    def em(op):
        return [("loc",), op]

    def big():
        return em(("emit", fill["name"], [("reg", "big")]))
    tail = em(("emit", fill["name"], [("reg", "tail")]))
    for name in fwd:
        for nf in range(1, maxf + 1):
            sc = [("label", 0)] + em(emit_op(t.specs[name], "j"))
            for i in range(nf):
                sc += em(emit_op(fill, "f%d_" % i))
            sc += [("bind", 0)] + tail
            H["seq/%s/filler=%d" % (name, nf)] = ("seq-forward", sc, {"tail": 7})
        # large concrete filler: the distance needs 2 (3 in thorough) bytes of the fixed 32-bit offset field
        for dist in ([300, 66000] if thorough else [300]):
            sc = [("label", 0)] + em(emit_op(t.specs[name], "j")) + em(emit_op(fill, "f"))
            for _ in range(dist // 6):
                sc += big()
            sc += [("bind", 0)] + tail
            fx = {"big": BIG, "tail": 7}
            if dist > 1000:
                # the long run only has to reach the third byte of the offset field: jump operands concrete as well
                fx.update({sl: 300 for sl, _ in slots_of([emit_op(t.specs[name], "j")])})
            H["seq/%s/far=%d" % (name, dist)] = ("seq-forward-far", sc, fx)
    for name in bwd:
        for nf in range(0, maxf + 1):
            sc = em(emit_op(fill, "h")) + [("define", 0)]
            for i in range(nf):
                sc += em(emit_op(fill, "f%d_" % i))
            sc += em(emit_op(t.specs[name], "j")) + tail
            H["seq/%s/filler=%d" % (name, nf)] = ("seq-loop", sc, {"tail": 7})
        # distance on both sides of the 1-byte/2-byte (thorough: also 2/3-byte) boundary of the LEB128 offset:
        # concrete filler of dist-4 bytes + one symbolic filler of 2..6 bytes
        for dist in ([128, 16384] if thorough else [128]):
            nfill = (dist - 4) // 6
            pad = dist - 4 - 6 * nfill
            sc = [("define", 0)] + em(emit_op(fill, "f"))
            for _ in range(nfill):
                sc += big()
            if pad >= 2:
                sc += em(("emit", fill["name"], [("reg", "pad")]))
            sc += em(emit_op(t.specs[name], "j")) + tail
            padv = {2: 0, 3: 128, 4: 16384, 5: 1 << 21}.get(pad, 0)
            H["seq/%s/wide=%d" % (name, dist)] = ("seq-loop-wide", sc, {"big": BIG, "pad": padv, "tail": 7})
    # switch + jump table resolved into the constant pool by generate()
    if "emit_switch" in t.specs and [k for _, k in t.specs["emit_switch"]["params"]] == ["reg", "idx"]:
        sc = [("label", 0), ("label", 1), ("label", 2), ("table", [0, 1], 2)]
        sc += em(("emit", "emit_switch", [("reg", "s0"), ("idxref", 0)])) + [("bind", 0)] + em(emit_op(fill, "f0_"))
        sc += [("bind", 1)] + em(emit_op(fill, "f1_")) + [("bind", 2)] + tail
        H["seq/switch-table"] = ("seq-switch", sc, {"tail": 7})
    return H


def make_bodies(t, tier, H):
    bodies = {}
    for name, h in H.items():
        bodies[name] = script_body(t, name, h[1], h[0], h[2] if len(h) == 3 else None)
    bodies["codec/u32-variable"] = leb_body(t, False, common.WORK if HAVE_CVC5 else None)
    bodies["codec/u32-variable+trailing-byte"] = leb_body(t, True, common.WORK if HAVE_CVC5 else None)
    bodies["codec/u32-fixed+patch"] = fixed_body(t)
    return bodies


# ------------------------------------------------------------------------------------------
# concrete runs: executor vs natively compiled real code (translator validation, replay)

def ser_script(script, values):
    out = []
    for op in script:
        k = op[0]
        if k == "loc":
            out.append("loc")
        elif k in ("label", "define"):
            out.append("%s:%d" % (k, op[1]))
        elif k == "bind":
            out.append("bind:%d" % op[1])
        elif k == "prefill":
            out.append("prefill:%d" % op[1])
        elif k == "table":
            out.append("table:%s|%d" % (",".join(str(x) for x in op[1]), op[2]))
        else:
            a = []
            for kind, s in op[2]:
                if kind == "regs":
                    a.append("regs=" + "/".join(str(values.get(x, 0)) for x in s))
                elif kind == "str":
                    a.append("str=" + "".join("%02x" % values.get(x, 0) for x in s))
                elif kind in ("label", "idxref"):
                    a.append("%s=%d" % (kind, s))
                else:
                    a.append("%s=%d" % (kind, values.get(s, 0)))
            out.append("emit:%s:%s" % (op[1], ",".join(a)))
    return out


def fmt_wire(w, v):
    if w == "A":
        return "[" + ",".join(str(x.conc()) for x in v) + "]"
    return str(v.conc())


def conc_outputs(t, script, values):
    """concrete executor run, formatted like the output of `verif-native bc`"""
    ex = Explorer(max_steps=200000 + 400 * len(script))
    ctx = Ctx(ex, ())
    it = new_interp(t)
    env = conc_env(script, values)
    o = {}
    try:
        r = exec_writer(t, it, ctx, script, env)
    except Panic as p:
        return {"panic": p.msg, "stage": "write"}, None
    o["code"] = "".join("%02x" % e.conc() for e in r.code)
    o["pool"] = str(len(r.pool))
    try:
        visits, insts, offsets = exec_reader(t, it, ctx, r.code)
    except Panic as p:
        o.update({"panic": p.msg, "stage": "read"})
        return o, None
    if ex.forks:
        raise Inconclusive("concrete run forked")
    vs = []
    for vn, vargs in visits:
        ws = [VISIT_WIRE.get(ty) for _, ty in t.visitors[vn]] if vn in t.visitors else []
        parts = []
        for a, w in zip(vargs, ws):
            if vn == "visit_instruction" or w is None:
                a = a.fields[0] if isinstance(a, Tup) else a
                parts.append(str(a.conc()))
            else:
                parts.append(fmt_wire(w, wire_of(a, w)))
        if vn == "visit_instruction" and not parts:
            parts = [str((vargs[0].fields[0] if isinstance(vargs[0], Tup) else vargs[0]).conc())]
        vs.append(" ".join([vn] + parts))
    o["visits"] = "|".join(vs)
    ins = []
    for rv in insts:
        start, opc, _ = rv.fields
        b = it.call(ctx, t.f_op_to_u8, [opc])
        ins.append("%d:%d" % (start.conc(), b.conc()))
    o["insts"] = "|".join(ins)
    o["reader_end"] = "ok"
    bad, conds = judge(t, it, ctx, script, env, r, visits, insts, offsets)
    verdict = bad
    if bad is None:
        for c in conds:
            if not z3.is_true(z3.simplify(c)):
                verdict = "operands / offsets read back differ from the written ones"
                break
    return o, verdict


def compare_native(nat, t, script, values, what):
    """-> (executor outputs, native outputs, property verdict of the executor run); raises on a mismatch"""
    enc, verdict = conc_outputs(t, script, values)
    real = common.native(nat, "bc", *ser_script(script, values), timeout=300)
    if "unknown_emitter" in real or "bad_script" in real:
        return enc, real, verdict, "native harness cannot run it: %s" % (real.get("unknown_emitter") or real.get("bad_script"))
    diff = None
    if ("panic" in enc) != ("panic" in real):
        diff = "panic behaviour: executor %r, real code %r" % (enc.get("panic"), real.get("panic"))
    else:
        for k in ("code", "visits", "insts", "pool", "stage"):
            if k in enc and enc.get(k) != real.get(k):
                diff = "%s: executor %s, real code %s" % (k, enc.get(k), real.get(k))
                break
    return enc, real, verdict, diff


def unit_test_scripts(t):
    """the repository's own tests (dora-bytecode/src/tests.rs) as scripts, with their expected bytes"""
    path = os.path.join(common.REPO, CRATE, "src", "tests.rs")
    out = []
    try:
        src = _strip_comments(open(path).read())
    except OSError:
        return out
    opc_bytes = {}
    for m in re.finditer(r"fn (test_\w+)\(\)\s*\{", src):
        i = m.end()
        depth, j = 1, i
        while depth and j < len(src):
            depth += {"{": 1, "}": -1}.get(src[j], 0)
            j += 1
        body = src[i:j]
        sc, vals, labels, n, ok = [], {}, {}, 0, True
        for st in re.finditer(r"(?:let\s+(\w+)\s*=\s*)?writer\.(\w+)\(([^;]*)\);", body):
            lhs, meth, args = st.group(1), st.group(2), st.group(3).strip()
            if meth == "create_label":
                labels[lhs] = len(labels)
                sc.append(("label", labels[lhs]))
            elif meth == "define_label":
                labels[lhs] = len(labels)
                sc.append(("define", labels[lhs]))
            elif meth == "bind_label":
                sc.append(("bind", labels[args]))
            elif meth == "generate":
                pass
            elif meth in t.specs:
                spec = t.specs[meth]
                al = [a.strip() for a in P.split_top(args) if a.strip()]
                ops = []
                if len(al) != len(spec["params"]):
                    ok = False
                    break
                for (pn, kind), a in zip(spec["params"], al):
                    s = "u%d" % n
                    n += 1
                    mm = re.fullmatch(r"(?:Register|ConstPoolIdx)\((\d+)\)", a)
                    if kind in ("reg", "idx") and mm:
                        vals[s] = int(mm.group(1))
                        ops.append((kind, s))
                    elif kind == "u8" and a.isdigit():
                        vals[s] = int(a)
                        ops.append((kind, s))
                    elif kind == "label" and a in labels:
                        ops.append((kind, labels[a]))
                    elif kind == "str" and re.fullmatch(r'"([^"\\]*)"\.into\(\)', a):
                        bs = re.fullmatch(r'"([^"\\]*)"\.into\(\)', a).group(1).encode()
                        ss = []
                        for b in bs:
                            ss.append("u%d" % n)
                            vals["u%d" % n] = b
                            n += 1
                        ops.append((kind, ss))
                    else:
                        ok = False
                if not ok:
                    break
                sc.append(("emit", meth, ops))
            else:
                ok = False
                break
        if not ok or not sc:
            continue
        exp = None
        me = re.search(r"assert_eq!\(\s*fct\.code\(\),\s*&\[(.*?)\]\s*\)", body, re.S)
        if me:
            exp = [x.strip() for x in me.group(1).split(",") if x.strip()]
        out.append((m.group(1), sc, vals, exp))
    return out


NOTES = []


def boundary_values(kind, rnd):
    if kind == "char":
        return rnd.choice([0, 65, 127, 128, 0x7FF, 0x800, 0xD7FF, 0xE000, 0xFFFF, 0x10000, 0x10FFFF])
    if kind == "strbyte":
        return rnd.choice([0x20, 0x41, 0x7A, 0x7F])
    if kind in ("reg", "idx", "gid", "cid", "char", "i32", "f32"):
        return rnd.choice([0, 1, 127, 128, 255, 256, 16383, 16384, (1 << 21) - 1, 1 << 21, (1 << 28) - 1, 1 << 28,
                           0x10FFFF if kind == "char" else 0xFFFFFFFF])
    if kind == "u8":
        return rnd.choice([0, 19, 127, 128, 255])
    return rnd.choice([0, 1, 1 << 40, (1 << 64) - 1])


def validate_translator(t, nat, H):
    """(1) the repository's unit tests, (2) every harness script on boundary operands: executor == real code"""
    n, not_runnable, concrete_bad = 0, {}, []
    opc = t.enums["BytecodeOpcode"]
    tests = unit_test_scripts(t)
    for tname, sc, vals, exp in tests:
        enc, real, verdict, diff = compare_native(nat, t, sc, vals, tname)
        if diff:
            raise Inconclusive("encoding wrong: unit test %s: %s" % (tname, diff))
        if verdict is not None or "panic" in real:
            # executor and real code agree and the round trip fails on a unit-test input: the symbolic harnesses
            # must find it too (checked in main); nothing is reported from a concrete run alone
            concrete_bad.append("unit test %s: %s" % (tname, verdict or real.get("panic")))
        if exp is not None:
            ex = Explorer()
            ctx = Ctx(ex, ())
            it = new_interp(t)
            want = []
            for x in exp:
                mm = re.fullmatch(r"BytecodeOpcode::(\w+)\.into\(\)", x)
                if mm and mm.group(1) in opc:
                    want.append(it.call(ctx, t.f_op_to_u8, [Adt("BytecodeOpcode", mm.group(1))]).conc())
                elif x.isdigit():
                    want.append(int(x))
                else:
                    want = None
                    break
            if want is not None and "".join("%02x" % b for b in want) != enc.get("code"):
                # executor == real code here (checked above): the tree fails its own byte expectation; this check
                # is about the round trip, so it is only recorded
                NOTES.append("unit test %s expects bytes %s, the real writer produces %s" % (tname, want, enc.get("code")))
        n += 1
    rnd = random.Random(common.seed() * 7919 + 18)
    for name, h in sorted(H.items()):
        sc = h[1]
        if sum(1 for op in sc if op[0] == "emit") > 400:
            continue                                   # the far-jump scripts are replayed only when they fail
        for rep in range(2):
            vals = {s: boundary_values(kind, rnd) for s, kind in slots_of(sc)}
            if len(h) == 3:
                vals.update(h[2])
            enc, real, verdict, diff = compare_native(nat, t, sc, vals, name)
            if diff and diff.startswith("native harness cannot"):
                not_runnable[name] = diff
                break
            if diff:
                raise Inconclusive("encoding wrong: %s with %s: %s" % (name, vals, diff))
            if verdict is not None or "panic" in real:
                concrete_bad.append("%s with %s: %s" % (name, vals, verdict or real.get("panic")))
            n += 1
    return n, len(tests), not_runnable, concrete_bad


def derived_scripts(t, v):
    """public-API scripts that drive a witness of the private codec functions (they cannot be called natively)"""
    w = v["witness"]
    fill = filler_specs(t)
    out = []
    if v.get("harness") == "leb":
        out.append(([("loc",), ("emit", fill["name"], [("reg", "v")])], {"v": w.get("v", 0)}))
        cu = t.specs.get("emit_const_uint8")
        if cu and [k for _, k in cu["params"]] == ["reg", "u8"]:
            out.append(([("loc",), ("emit", "emit_const_uint8", [("reg", "v"), ("u8", "trail")])],
                        {"v": w.get("v", 0), "trail": w.get("trail", 0)}))
    else:
        # every forward-jump script of the thorough tier, short ones first (the 66000-byte ones reach the third
        # byte of the offset field; the fourth byte would need 16 MiB of code and cannot be replayed)
        for name, h in sorted(make_harnesses(t, "thorough").items(), key=lambda kv: len(kv[1][1])):
            if any(op[0] == "label" for op in h[1]):
                out.append((h[1], dict(h[2]) if len(h) == 3 else {}))
    return out


def replay_violation(t, nat, v):
    """(reproduced, detail): the witness is run through the natively compiled real writer + reader"""
    if v.get("leb"):
        cands = derived_scripts(t, v)
    else:
        cands = [([norm_op(op) for op in v["script"]], v["witness"])]
    detail = None
    for sc, vals in cands:
        enc, real, verdict, diff = compare_native(nat, t, sc, vals, v.get("harness"))
        detail = {"script": ser_script(sc, vals), "real": {k: x for k, x in real.items() if not k.startswith("_")},
                  "executor": enc, "observed": None}
        if diff:
            detail["observed"] = "real code behaves differently from the executor: " + diff
            return False, detail
        if verdict is None and "panic" not in real:
            continue
        if "panic" in real:
            detail["observed"] = "real code panics in the %s stage (%s) on `%s`" % (real.get("stage"), real.get("panic"),
                                                                                 " ".join(detail["script"])[:300])
        else:
            detail["observed"] = "%s: wrote `%s`, the real writer produced %s, the real reader returned `%s` (instructions %s)" % (
                verdict, " ".join(detail["script"])[:300], real.get("code", "")[:80], real.get("visits", "")[:300], real.get("insts", "")[:80])
        return True, detail
    return False, detail


def norm_op(op):
    """scripts come back from JSON / pickling as lists"""
    op = tuple(op)
    if op[0] == "emit":
        return ("emit", op[1], [(k, s if not isinstance(s, list) else list(s)) for k, s in op[2]])
    if op[0] == "table":
        return ("table", list(op[1]), op[2])
    return op


# ------------------------------------------------------------------------------------------

def private_native():
    """The shared verif-native binary can be rebuilt for ANOTHER tree by a check running in parallel with another
    VERIF_REPO: take a private copy, under the build lock, of a build that is known to be for this tree."""
    import shutil
    d = os.path.join(common.WORK, "tmp", "c18")
    os.makedirs(d, exist_ok=True)
    dst = os.path.join(d, "verif-native-%d" % os.getpid())
    for _ in range(4):
        nat = common.build_native()
        with common.Lock("native-build"):
            toml = open(os.path.join(common.WORK, "native-src", "Cargo.toml")).read()
            if ('"%s/%s"' % (common.REPO, CRATE)) in toml:
                shutil.copy2(nat, dst)
                return dst
    raise Inconclusive("verif-native keeps being rebuilt for another tree by concurrent runs")


def main(tier):
    nat = None
    try:
        return main2(tier)
    finally:
        p = os.path.join(common.WORK, "tmp", "c18", "verif-native-%d" % os.getpid())
        if os.path.exists(p):
            os.unlink(p)


def main2(tier):
    t0 = time.time()
    t = load()
    classify_jumps(t)
    nat = private_native()
    H = make_harnesses(t, tier)
    nval, ntests, not_runnable, concrete_bad = validate_translator(t, nat, H)
    log("[C18] translator validated on %d concrete runs (%d unit tests of the repository); %d emitters specified, %d unspecified"
        % (nval, ntests, len(t.specs), len(t.unspecified)))
    bodies = make_bodies(t, tier, H)
    deadline = time.time() + (900 if tier == "quick" else 3000)       # exploration only
    res = run_harnesses(bodies, depth=3, query_timeout_ms=60000, deadline=deadline)

    rep = common.Reporter(PID)
    obligations = discharged = paths = queries = checks = 0
    stime = 0.0
    fns, models_used, vac, samples, per = set(), set(), {}, [], {}
    cvc5 = {}
    for name, (out, st) in res.items():
        obligations += 1
        paths += out.paths
        checks += out.checks
        queries += st["queries"]
        stime += st["solver_time"]
        fns |= out.__dict__.get("fns", set())
        models_used |= out.__dict__.get("models", set())
        vac.update(out.witness)
        samples += out.samples[:1]
        for k, n in out.outcomes.items():
            if k.startswith("cvc5"):
                cvc5[k] = cvc5.get(k, 0) + n
        per[name] = {"paths": out.paths, "assertion_queries": out.checks, "feasibility_queries": st["queries"],
                     "pruned_branches": st["pruned"], "solver_time_s": round(st["solver_time"], 2)}
        if out.paths == 0:
            raise Inconclusive("harness %s explored no path (vacuous)" % name)
        bad, seen = False, set()
        for v in out.violations:
            key = "%s/%s" % (name, re.sub(r"\d+", "N", v["what"].split(":")[0]))
            if key in seen:
                continue
            seen.add(key)
            ok, detail = replay_violation(t, nat, v)
            if not ok:
                detail["script"] = " ".join(detail["script"])[-400:]
                raise Inconclusive("counterexample of %s (%s) does not reproduce on the natively compiled writer/reader: %s"
                                   % (name, v["what"], json.dumps({k: (str(x)[:300]) for k, x in detail.items()})[:1500]))
            rep.violation(key, "%s: %s" % (name, detail["observed"]), detail)
            bad = True
        if not bad:
            discharged += 1
    if concrete_bad and not rep.new and not rep.known_hit:
        raise Inconclusive("concrete validation runs violate the assertion (real code and executor agree) but no harness found "
                           "a counterexample — oracle or encoding wrong: " + "; ".join(concrete_bad[:3]))
    # vacuity (sat twins): every width class of every u32 operand of every emitter, every codec width
    missing = []
    for name, (fam, *rest) in H.items():
        sc = rest[0]
        if fam.startswith("seq-") or len(rest) > 1:
            continue
        for s, kind in slots_of(sc):
            if kind in ("reg", "idx", "gid", "cid"):
                for wcl in range(1, 6):
                    if not vac.get("%s:%s:w%d" % (fam, s, wcl)):
                        missing.append("%s:%s:w%d" % (fam, s, wcl))
    for wcl in range(1, 6):
        if not vac.get("leb:w%d" % wcl):
            missing.append("leb:w%d" % wcl)
    for b in BOUNDARY:
        if not vac.get("leb:v=%d" % b):
            missing.append("leb:v=%d" % b)
    fams = set(h[0] for h in H.values())
    want_d = []
    if "seq-loop-wide" in fams:
        want_d += ["seq-loop-wide:distance:leb1:bytes1", "seq-loop-wide:distance:leb2:bytes1"]
        if tier == "thorough":
            want_d += ["seq-loop-wide:distance:leb3:bytes2"]
    if "seq-forward-far" in fams:
        want_d += ["seq-forward-far:distance:leb2:bytes2"] + (["seq-forward-far:distance:leb3:bytes3"] if tier == "thorough" else [])
    missing += [k for k in want_d if not vac.get(k)]
    for fam in sorted(fams) + ["fixed"]:
        if not vac.get(fam + ":roundtrip"):
            missing.append(fam + ":roundtrip")
    if missing and not rep.new and not rep.known_hit:
        raise Inconclusive("vacuity witnesses missing: " + ", ".join(missing[:8]))
    mir_fns = set(f.name for f in t.prog.order)
    vac_summary = sorted(k for k in vac if k.startswith(("leb:", "fixed:", "seq-")) and (":distance:" in k or k.endswith(":roundtrip") or k.startswith(("leb:", "fixed:"))))
    vac_summary.append("%d emitters with a reachable final assertion point" % sum(1 for k in vac if k.startswith("emit_") and k.endswith(":roundtrip")))
    nclass = sum(1 for k in vac if re.search(r":w\d$", k) and not k.startswith("leb:"))
    cov = {
        "obligations": obligations, "discharged": discharged,
        "checker_cmd": "./check C18 --tier " + tier,
        "trusted_base": ["rustc -Zunpretty=mir dump (debug assertions and overflow checks on, -Zub-checks=no) reflects the compiled functions",
                         "vsym MIR interpreter + std models (validated on %d concrete runs against the natively compiled writer/reader, incl. the %d unit tests of dora-bytecode/src/tests.rs)" % (nval, ntests),
                         "z3 %s; cvc5 second opinion on the u32 codec verdict queries and a seeded ~1 %% sample of the other verdict queries: %s" % (z3.get_version_string(), cvc5 or "not available"),
                         "operand correspondence emit_X <-> BytecodeVisitor::visit_X: same operand class, same order within the class (derived from the signatures of the working tree)"],
        "functions_encoded": sorted(f for f in fns if f in mir_fns),
        "emitters_total": len(t.emitters), "emitters_covered": sorted(t.specs), "unspecified": t.unspecified,
        "native_replay_unavailable_for": not_runnable,
        "std_models_used": sorted(set(re.sub(r"visit_\w+", "visit_* (recording visitor = the consumer of reader::read)", m)
                                      for m in models_used if m not in mir_fns and norm_callee(m) not in mir_fns)),
        "bounds": {"operands": "every register / constant-pool index / global id / const id a full symbolic u32 (5 LEB128 width classes each, forked by the writer's own loop); ConstUInt8 payload symbolic u8; constants symbolic (char, i32, i64, f32/f64 bit patterns, 2-byte ASCII strings)",
                   "argument_lists": "0..3 symbolic registers" if tier == "thorough" else "2 symbolic registers (0..3 in the thorough tier)",
                   "constant_pool_prefill": "0 / 127 / 128 entries before a constant emitter" + (" (+16383/16384 for one emitter)" if tier == "thorough" else ""),
                   "sequences": "forward jumps over 1..%d symbolic one-register instructions + a concrete far filler (offset >= 300%s); JumpLoop over 0..%d symbolic fillers and at distance 128%s; switch with a 2-entry jump table"
                                % (3 if tier == "thorough" else 2, ", 66000" if tier == "thorough" else "", 3 if tier == "thorough" else 2, " and 16384" if tier == "thorough" else ""),
                   "wide_forms": "this tree has no Wide prefix: operands are LEB128 per operand, forward offsets a fixed 32-bit field, JumpLoop distance LEB128"},
        "paths": paths, "queries": queries, "assertion_queries": checks, "solver_time_s": round(stime, 2), "per_harness": per,
        "vacuity_witnesses": vac_summary + ["%d (emitter, operand, width class) triples reachable" % nclass],
        "translator_validation_runs": nval, "notes": NOTES,
        "samples": samples[:10],
        "outside_the_claim": ["bincode encoding of BytecodeBody / Program / package files (third-party derive), whole-Program equality",
                              "executables built via a package file vs. directly from source",
                              "corrupted / truncated input to the reader or the package decoder",
                              "the Dora-side reader in pkgs/boots (bytecode/reader.dora, deserializer.dora)",
                              "register numbers >= 2^32 (Register is a usize, the writer truncates with `as u32`; registers index a Vec)",
                              "instruction sequences longer than the stated bounds; line-number table contents"],
    }
    assumptions = ["register numbers fit in 32 bits", "usize is 64 bit", "a source location is set before every emitter (the writer asserts it for the opcodes that need one)",
                   "Vec / slices modelled as concrete-length sequences of symbolic elements", "char operands are Unicode scalar values"]
    common.write_evidence(PID, tier, "proof", cov, assumptions, time.time() - t0, len(rep.new))
    return rep.exit_code()


def replay(path):
    d = json.load(open(path))
    nat = common.build_native()           # (a private copy is not needed for a single command)
    r = d["replay"]
    if "script" in r:
        print(json.dumps(common.native(nat, "bc", *r["script"]), indent=1))
    else:
        print(json.dumps(r, indent=1))
    return 0
