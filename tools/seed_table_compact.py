#!/usr/bin/env python3
"""Compact markdown table for DESIGN.md from /verif/seeded/*/*/meta.json: seed, what it breaks, which checks caught it
(tier, first violation key), independent confirmation, notes."""
import glob, json, os, re
print("| seed | what the change breaks | caught by | confirmation | note |")
print("|---|---|---|---|---|")
for mp in sorted(glob.glob("/verif/seeded/*/*/meta.json")):
    d = os.path.dirname(mp)
    m = json.load(open(mp))
    name = "/".join(d.split("/")[-2:])
    caught = {}
    missed = []
    for r in m.get("runs", []):
        if r.get("caught"):
            key = ""
            for x in r.get("detail") or []:
                mm = re.match(r"violation key=([^:]+):", x)
                if mm:
                    key = mm.group(1)[:60]; break
            caught.setdefault(r["check"], "%s %s `%s`" % (r["check"], r["tier"], key))
        else:
            missed.append("%s %s exit %s" % (r["check"], r["tier"], r["exit"]))
    res = "; ".join(caught.values()) if caught else ("MISSED: " + "; ".join(missed) if missed else "not evaluated")
    conf = m.get("confirmed") or {}
    c = ""
    if conf:
        dw, dwo = conf.get("demo_with_change"), conf.get("demo_without_change")
        def short(x):
            if isinstance(x, dict):
                if "run_sh_exit" in x:
                    return "run.sh exit " + x["run_sh_exit"]
                return ", ".join(str(v).replace("test result: ", "") for v in x.values())
            return str(x)
        c = "applies, builds, suite %s" % re.sub(r" tests run:", ":", str(conf.get("suite", "?")))
        if dw is not None:
            c += "; demo with change: %s / without: %s" % (short(dw)[:60], short(dwo)[:60])
    what = (m.get("breaks") or "").strip().replace("|", "/")
    note = (m.get("note") or "").replace("|", "/")
    print("| %s | %s | %s | %s | %s |" % (name, what[:230], res.replace("|", "/"), c.replace("|", "/"), note))
