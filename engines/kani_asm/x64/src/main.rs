//! c07-replay: native twin of the Kani harnesses.
//!
//!   c07-replay <unit> <v1> <v2> ...         one run, one JSON line on stdout
//!   c07-replay --batch                      lines "<unit> <v1> <v2> ..." on stdin
//!
//! The values are the `kani::any()` results in call order: [has_avx2 (0/1) if the spec leaves
//! it open], then the operands of the unit (see harnesses.json `draws`).  The real assembler
//! method is called with them (a panic = refusal), the reference decoder is run on the
//! bytes and the same field-by-field comparison as under Kani is printed.

use c07_x64_harness::decoder::{self, Insn, Mem, Opnd};
use c07_x64_harness::{compare, decode_outcome, harnesses, ListSrc, FIELDS};
use std::io::BufRead;

fn opnd_json(o: &Opnd) -> String {
    format!("{{\"kind\":{},\"class\":{},\"num\":{}}}", o.kind, o.class, o.num)
}

fn mem_json(m: &Mem) -> String {
    format!(
        "{{\"base\":{},\"index\":{},\"scale\":{},\"disp\":{},\"rip\":{}}}",
        m.base, m.index, m.scale, m.disp, m.rip
    )
}

fn insn_json(i: &Insn) -> String {
    format!(
        "{{\"mn\":\"{}\",\"opsize\":{},\"cc\":{},\"o1\":{},\"o2\":{},\"o3\":{},\"o4\":{},\"mem\":{},\"imm\":{},\"rel\":{},\"lock\":{},\"rep\":{},\"repne\":{},\"p66\":{},\"vex\":{},\"by_cl\":{},\"len\":{}}}",
        decoder::mn_name(i.mn),
        i.opsize,
        i.cc,
        opnd_json(&i.o1),
        opnd_json(&i.o2),
        opnd_json(&i.o3),
        opnd_json(&i.o4),
        mem_json(&i.mem),
        i.imm,
        i.rel,
        i.lock,
        i.rep,
        i.repne,
        i.p66,
        i.vex,
        i.by_cl,
        i.len
    )
}

fn run(name: &str, vals: Vec<i64>) -> String {
    let name_owned = name.to_string();
    let res = std::panic::catch_unwind(move || {
        let mut s = ListSrc::new(vals);
        let r = harnesses::run_native(&name_owned, &mut s);
        (r, s.underflow, s.pos)
    });
    match res {
        Err(_) => format!("{{\"harness\":\"{}\",\"status\":\"refused\"}}", name),
        Ok((None, _, _)) => format!("{{\"harness\":\"{}\",\"status\":\"unknown_harness\"}}", name),
        Ok((Some(None), _, _)) => format!("{{\"harness\":\"{}\",\"status\":\"assumption_violated\"}}", name),
        Ok((Some(Some(o)), underflow, used)) => {
            let got = decode_outcome(&o);
            let cmp = compare(&o, &got);
            let mut mism: Vec<String> = Vec::new();
            for (k, ok) in cmp.iter().enumerate() {
                if !ok {
                    mism.push(format!("\"{}\"", FIELDS[k]));
                }
            }
            let hex: Vec<String> = o.code.iter().map(|b| format!("{:02x}", b)).collect();
            let ilen = match &got {
                Some(g) => g.len,
                None => 0,
            };
            format!(
                "{{\"harness\":\"{}\",\"status\":\"emitted\",\"underflow\":{},\"values_used\":{},\"bytes\":\"{}\",\"at\":{},\"tail\":{},\"insn_len\":{},\"target\":{},\"legal\":{},\"decoded\":{},\"expected\":{},\"alt\":{},\"mismatch\":[{}]}}",
                name,
                underflow,
                used,
                hex.join(""),
                o.e.at,
                o.e.tail,
                ilen,
                match o.target_abs() {
                    Some(t) => t.to_string(),
                    None => "null".to_string(),
                },
                o.e.legal,
                match &got {
                    Some(g) => insn_json(g),
                    None => "null".to_string(),
                },
                insn_json(&o.e.exp),
                match &o.e.alt {
                    Some(a) => insn_json(a),
                    None => "null".to_string(),
                },
                mism.join(",")
            )
        }
    }
}

fn parse_vals(it: &[String]) -> Vec<i64> {
    it.iter()
        .map(|s| {
            if let Some(h) = s.strip_prefix("0x") {
                u64::from_str_radix(h, 16).expect("hex value") as i64
            } else {
                s.parse::<i64>().expect("integer value")
            }
        })
        .collect()
}

fn main() {
    // refusals print through the panic hook; keep stdout clean JSON
    std::panic::set_hook(Box::new(|_| {}));
    let args: Vec<String> = std::env::args().skip(1).collect();
    if args.is_empty() {
        eprintln!("usage: c07-replay <harness> <values...> | --batch");
        std::process::exit(2);
    }
    if args[0] == "--batch" {
        let stdin = std::io::stdin();
        for line in stdin.lock().lines() {
            let line = line.unwrap();
            let parts: Vec<String> = line.split_whitespace().map(|s| s.to_string()).collect();
            if parts.is_empty() {
                continue;
            }
            println!("{}", run(&parts[0], parse_vals(&parts[1..])));
        }
    } else {
        println!("{}", run(&args[0], parse_vals(&args[1..])));
    }
}
