"""Models (documented contracts) of std/core functions that have no MIR body in the crate dumps.
Keyed by regex over the canonical callee text (generic arguments and lifetimes removed)."""
import re

import z3

from ..common import Inconclusive
from .interp import (Adt, Cell, FnItem, Int, Opaque, Panic, Ref, Slice, Tup, UNIT, VecV, INT_W, as_bool, get_path,
                     set_path, int_cast, is_signed)

MODELS = []


def model(pat):
    def deco(fn):
        MODELS.append((re.compile(pat), fn))
        return fn
    return deco


def deref(v):
    while isinstance(v, Ref):
        v = get_path(v.cell.v, v.path)
    return v


def write_ref(r, v):
    r.cell.v = set_path(r.cell.v, r.path, v)


def some(v):
    return Adt("Option", "Some", (v,))


NONE = Adt("Option", "None")


def u8(b):
    return Int(b, "u8")


def usize(n):
    return Int(n, "usize")


def elems_of(v):
    v = deref(v)
    if isinstance(v, (Slice, VecV)):
        return v.elems
    raise Inconclusive("sequence expected: %r" % (v,))


# ------------------------------------------------------------------------------------------
# panics

@model(r"std::rt::panic_fmt|std::rt::begin_panic|((core|std)::panicking::)?(panic|panic_fmt|panic_explicit|panic_nounwind|panic_display|"
       r"unreachable_display|assert_failed|assert_failed_inner|panic_const::\w+|panic_bounds_check|panic_in_cleanup|begin_panic|"
       r"panic_cold_explicit|panic_cold_display)|(core::panicking::)?assert_failed::<.*>")
def m_panic(it, ctx, callee, args):
    msg = ""
    if args and isinstance(args[0], Slice):
        try:
            msg = bytes(e.conc() for e in args[0].elems).decode()
        except Exception:
            pass
    raise Panic("panic: " + (msg or callee))


@model(r"(core|std)::(option|result)::(unwrap_failed|expect_failed)")
def m_unwrap_failed(it, ctx, callee, args):
    raise Panic("panic: " + callee)


@model(r"core::slice::index::slice_\w+_fail|core::str::slice_error_fail|core::slice::index::slice_index_fail")
def m_slice_fail(it, ctx, callee, args):
    raise Panic("panic: " + callee)


@model(r"(std::)?(core::)?(intrinsics::)?(must_use|black_box|std::hint::black_box|core::hint::must_use)")
def m_identity(it, ctx, callee, args):
    return args[0]


# ------------------------------------------------------------------------------------------
# integers

@model(r"core::num::<impl (u8|u16|u32|u64|u128|usize|i8|i16|i32|i64|i128|isize)>::wrapping_(add|sub|mul|neg|shl|shr)")
def m_wrapping(it, ctx, callee, args):
    op = re.search(r"wrapping_(\w+)$", callee.split("(")[0].strip()).group(1) if "wrapping_" in callee else None
    op = re.search(r"wrapping_(add|sub|mul|neg|shl|shr)", callee).group(1)
    a = args[0]
    if op == "neg":
        return Int(-a.t, a.ty)
    b = args[1]
    if op == "add": return Int(a.t + b.t, a.ty)
    if op == "sub": return Int(a.t - b.t, a.ty)
    if op == "mul": return Int(a.t * b.t, a.ty)
    sh = b.t
    if b.w < a.w: sh = z3.ZeroExt(a.w - b.w, sh)
    elif b.w > a.w: sh = z3.Extract(a.w - 1, 0, sh)
    sh = sh & z3.BitVecVal(a.w - 1, a.w)
    if op == "shl": return Int(a.t << sh, a.ty)
    return Int((a.t >> sh) if is_signed(a.ty) else z3.LShR(a.t, sh), a.ty)


@model(r"core::num::<impl (u8|u16|u32|u64|u128|usize|i8|i16|i32|i64|i128|isize)>::(checked|overflowing|saturating)_(add|sub|mul)")
def m_checked(it, ctx, callee, args):
    from .interp import binop
    m = re.search(r"(checked|overflowing|saturating)_(add|sub|mul)", callee)
    kind, op = m.group(1), m.group(2)
    r = binop({"add": "AddWithOverflow", "sub": "SubWithOverflow", "mul": "MulWithOverflow"}[op], args[0], args[1])
    val, ov = r.fields
    if kind == "overflowing":
        return r
    if kind == "checked":
        if ctx.branch(ov):
            return NONE
        return some(val)
    return m_saturating(it, ctx, callee, args)


@model(r"core::num::<impl (u8|u16|u32|u64|u128|usize|i8|i16|i32|i64|i128|isize)>::(trailing_zeros|leading_zeros|count_ones|is_power_of_two)")
def m_bits(it, ctx, callee, args):
    a = args[0]
    w = a.w
    if callee.endswith("is_power_of_two") or "is_power_of_two" in callee:
        return z3.And(a.t != 0, (a.t & (a.t - 1)) == 0)
    if "count_ones" in callee:
        s = z3.BitVecVal(0, 32)
        for i in range(w):
            s = s + z3.ZeroExt(31, z3.Extract(i, i, a.t))
        return Int(s, "u32")
    if "trailing_zeros" in callee:
        r = z3.BitVecVal(w, 32)
        for i in range(w - 1, -1, -1):
            r = z3.If(z3.Extract(i, i, a.t) == 1, z3.BitVecVal(i, 32), r)
        return Int(r, "u32")
    r = z3.BitVecVal(w, 32)
    for i in range(w):
        r = z3.If(z3.Extract(i, i, a.t) == 1, z3.BitVecVal(w - 1 - i, 32), r)
    return Int(r, "u32")


@model(r"<(u16|u32|u64|u128|usize|i16|i32|i64|i128|isize|char) as (core::convert::)?From<(u8|u16|u32|u64|i8|i16|i32|i64|bool|char)>>::from")
def m_from_int(it, ctx, callee, args):
    ty = re.match(r"<(\w+) as", callee.strip()).group(1)
    a = args[0]
    if z3.is_expr(a) and z3.is_bool(a):
        a = Int(z3.If(a, z3.BitVecVal(1, 8), z3.BitVecVal(0, 8)), "u8")
    return int_cast(a, ty)


@model(r"<(\w+) as (core::convert::)?(Into|From)<\1>>::(into|from)")
def m_into_same(it, ctx, callee, args):
    return args[0]


@model(r"<(u8|u16|u32|u64|usize|i8|i16|i32|i64|isize) as (core::convert::)?TryFrom<(u8|u16|u32|u64|usize|i8|i16|i32|i64|isize|u128|i128)>>::try_from"
       r"|<(u8|u16|u32|u64|usize|i8|i16|i32|i64|isize|u128|i128) as (core::convert::)?TryInto<(u8|u16|u32|u64|usize|i8|i16|i32|i64|isize)>>::try_into")
def m_try_from(it, ctx, callee, args):
    c = callee.strip()
    m = re.match(r"<(\w+) as (?:core::convert::)?TryFrom<(\w+)>>", c)
    if m:
        dst = m.group(1)
    else:
        m = re.match(r"<(\w+) as (?:core::convert::)?TryInto<(\w+)>>", c)
        dst = m.group(2)
    a = args[0]
    r = int_cast(a, dst)
    back = int_cast(r, a.ty)
    ok = back.t == a.t
    if is_signed(a.ty) != is_signed(dst):
        # sign must be non-negative on the signed side
        if is_signed(a.ty):
            ok = z3.And(ok, a.t >= 0)
        else:
            ok = z3.And(ok, r.t >= 0) if INT_W[dst] <= a.w else ok
    if ctx.branch(ok):
        return Adt("Result", "Ok", (r,))
    return Adt("Result", "Err", (Opaque("TryFromIntError"),))


@model(r"core::num::<impl u8>::is_ascii_alphanumeric")
def m_is_alnum(it, ctx, callee, args):
    b = deref(args[0]).t
    return z3.Or(z3.And(z3.UGE(b, 0x30), z3.ULE(b, 0x39)), z3.And(z3.UGE(b, 0x41), z3.ULE(b, 0x5A)),
                 z3.And(z3.UGE(b, 0x61), z3.ULE(b, 0x7A)))


@model(r"core::num::<impl u8>::is_ascii(_digit|_alphabetic|_uppercase|_lowercase|_hexdigit|_whitespace|_punctuation)?")
def m_is_ascii_u8(it, ctx, callee, args):
    b = deref(args[0]).t
    k = re.search(r"is_ascii(_\w+)?$", callee.strip()).group(1)
    return ascii_class(b, k, 8)


def ascii_class(b, k, w):
    def rng(lo, hi):
        return z3.And(z3.UGE(b, z3.BitVecVal(lo, w)), z3.ULE(b, z3.BitVecVal(hi, w)))
    if k is None: return z3.ULE(b, z3.BitVecVal(0x7F, w))
    if k == "_digit": return rng(0x30, 0x39)
    if k == "_uppercase": return rng(0x41, 0x5A)
    if k == "_lowercase": return rng(0x61, 0x7A)
    if k == "_alphabetic": return z3.Or(rng(0x41, 0x5A), rng(0x61, 0x7A))
    if k == "_alphanumeric": return z3.Or(rng(0x30, 0x39), rng(0x41, 0x5A), rng(0x61, 0x7A))
    if k == "_hexdigit": return z3.Or(rng(0x30, 0x39), rng(0x41, 0x46), rng(0x61, 0x66))
    if k == "_whitespace":
        return z3.Or(*[b == z3.BitVecVal(c, w) for c in (0x20, 0x09, 0x0A, 0x0C, 0x0D)])
    if k == "_punctuation": return z3.Or(rng(0x21, 0x2F), rng(0x3A, 0x40), rng(0x5B, 0x60), rng(0x7B, 0x7E))
    raise Inconclusive("ascii class " + str(k))


# ------------------------------------------------------------------------------------------
# Option / Result / Try

@model(r"<Option<.*> as (std::ops::|core::ops::)?Try>::branch")
def m_opt_branch(it, ctx, callee, args):
    o = args[0]
    if o.variant == "Some":
        return Adt("ControlFlow", "Continue", (o.fields[0],))
    return Adt("ControlFlow", "Break", (Adt("Option", "None"),))


@model(r"<Result<.*> as (std::ops::|core::ops::)?Try>::branch")
def m_res_branch(it, ctx, callee, args):
    o = args[0]
    if o.variant == "Ok":
        return Adt("ControlFlow", "Continue", (o.fields[0],))
    return Adt("ControlFlow", "Break", (Adt("Result", "Err", o.fields),))


@model(r"<Option<.*> as (std::ops::|core::ops::)?FromResidual<.*>>::from_residual")
def m_opt_residual(it, ctx, callee, args):
    return NONE


@model(r"<Result<.*> as (std::ops::|core::ops::)?FromResidual<.*>>::from_residual")
def m_res_residual(it, ctx, callee, args):
    return Adt("Result", "Err", args[0].fields)


@model(r"Option::copied|Option::cloned")
def m_opt_copied(it, ctx, callee, args):
    o = args[0]
    if o.variant == "None":
        return NONE
    return some(deref(o.fields[0]))


@model(r"Option::and_then")
def m_and_then(it, ctx, callee, args):
    from .interp import TailCall
    o, f = args
    if o.variant == "None":
        return NONE
    return TailCall(f, [o.fields[0]])


@model(r"Option::or_else")
def m_or_else(it, ctx, callee, args):
    from .interp import TailCall
    o, f = args
    if o.variant == "Some":
        return o
    return TailCall(f, [])


@model(r"Option::unwrap_or_else")
def m_unwrap_or_else(it, ctx, callee, args):
    from .interp import TailCall
    o, f = args
    if o.variant == "Some":
        return o.fields[0]
    return TailCall(f, [])


@model(r"Option::map")
def m_opt_map(it, ctx, callee, args):
    o, f = args
    if o.variant == "None":
        return NONE
    return some(it.call_value(ctx, f, [o.fields[0]]))


@model(r"Option::unwrap_or")
def m_unwrap_or(it, ctx, callee, args):
    o, d = args
    return o.fields[0] if o.variant == "Some" else d


@model(r"Option::(unwrap|expect)")
def m_opt_unwrap(it, ctx, callee, args):
    o = args[0]
    if o.variant == "None":
        raise Panic("panic: unwrap/expect on None")
    return o.fields[0]


@model(r"Option::(is_some|is_none)")
def m_opt_is(it, ctx, callee, args):
    o = deref(args[0])
    return z3.BoolVal((o.variant == "Some") == callee.strip().endswith("is_some"))


@model(r"Option::ok_or")
def m_ok_or(it, ctx, callee, args):
    o, e = args
    return Adt("Result", "Ok", (o.fields[0],)) if o.variant == "Some" else Adt("Result", "Err", (e,))


@model(r"Result::ok")
def m_res_ok(it, ctx, callee, args):
    r = args[0]
    return some(r.fields[0]) if r.variant == "Ok" else NONE


@model(r"Result::(unwrap|expect)")
def m_res_unwrap(it, ctx, callee, args):
    r = args[0]
    if r.variant != "Ok":
        raise Panic("panic: unwrap/expect on Err")
    return r.fields[0]


@model(r"Result::(is_ok|is_err)")
def m_res_is(it, ctx, callee, args):
    o = deref(args[0])
    return z3.BoolVal((o.variant == "Ok") == callee.strip().endswith("is_ok"))


# ------------------------------------------------------------------------------------------
# str / String / Vec / slices

@model(r"core::str::<impl str>::len|String::len|Vec::len|core::slice::<impl \[.*\]>::len|alloc::vec::Vec::len")
def m_len(it, ctx, callee, args):
    return usize(len(elems_of(args[0])))


@model(r"core::str::<impl str>::is_empty|String::is_empty|Vec::is_empty|core::slice::<impl \[.*\]>::is_empty")
def m_is_empty(it, ctx, callee, args):
    return z3.BoolVal(len(elems_of(args[0])) == 0)


@model(r"String::with_capacity|String::new")
def m_string_new(it, ctx, callee, args):
    return VecV((), "string")


@model(r"Vec::with_capacity|Vec::new")
def m_vec_new(it, ctx, callee, args):
    return VecV((), "vec")


@model(r"String::push_str")
def m_push_str(it, ctx, callee, args):
    s = deref(args[0])
    write_ref(args[0], VecV(s.elems + tuple(elems_of(args[1])), "string"))
    return UNIT


def encode_utf8(ctx, ch):
    """bytes of a char (Int char); forks on the length class"""
    c = ch.t
    lo = lambda a, b: z3.Extract(a, b, c)
    if ctx.branch(z3.ULT(c, 0x80)):
        return [Int(lo(7, 0), "u8")]
    if ctx.branch(z3.ULT(c, 0x800)):
        return [Int(z3.Concat(z3.BitVecVal(0b110, 3), lo(10, 6)), "u8"), Int(z3.Concat(z3.BitVecVal(0b10, 2), lo(5, 0)), "u8")]
    if ctx.branch(z3.ULT(c, 0x10000)):
        return [Int(z3.Concat(z3.BitVecVal(0b1110, 4), lo(15, 12)), "u8"), Int(z3.Concat(z3.BitVecVal(0b10, 2), lo(11, 6)), "u8"),
                Int(z3.Concat(z3.BitVecVal(0b10, 2), lo(5, 0)), "u8")]
    return [Int(z3.Concat(z3.BitVecVal(0b11110, 5), lo(20, 18)), "u8"), Int(z3.Concat(z3.BitVecVal(0b10, 2), lo(17, 12)), "u8"),
            Int(z3.Concat(z3.BitVecVal(0b10, 2), lo(11, 6)), "u8"), Int(z3.Concat(z3.BitVecVal(0b10, 2), lo(5, 0)), "u8")]


@model(r"String::push")
def m_string_push(it, ctx, callee, args):
    s = deref(args[0])
    write_ref(args[0], VecV(s.elems + tuple(encode_utf8(ctx, args[1])), "string"))
    return UNIT


@model(r"Vec::push")
def m_vec_push(it, ctx, callee, args):
    s = deref(args[0])
    write_ref(args[0], VecV(s.elems + (args[1],), s.kind))
    return UNIT


@model(r"Vec::pop")
def m_vec_pop(it, ctx, callee, args):
    s = deref(args[0])
    if not s.elems:
        return NONE
    write_ref(args[0], VecV(s.elems[:-1], s.kind))
    return some(s.elems[-1])


@model(r"core::str::<impl str>::as_bytes|String::as_bytes|<String as (std::ops::|core::ops::)?Deref>::deref|String::as_str|"
       r"<Vec<.*> as (std::ops::|core::ops::)?Deref>::deref|Vec::as_slice|<String as AsRef<str>>::as_ref|"
       r"<str as AsRef<\[u8\]>>::as_ref|<String as Borrow<str>>::borrow")
def m_as_slice(it, ctx, callee, args):
    v = deref(args[0])
    c = callee.strip()
    kind = "str" if ("deref" in c and c.startswith("<String")) or "as_str" in c or "AsRef<str>" in c or "Borrow<str>" in c else "slice"
    return Slice(v.elems, kind)


@model(r"core::str::<impl str>::bytes")
def m_str_bytes(it, ctx, callee, args):
    return Tup((Slice(elems_of(args[0])), usize(0)), name="Iter:copied")


@model(r"core::slice::<impl \[.*\]>::iter|<&\[.*\] as IntoIterator>::into_iter|<&Vec<.*> as IntoIterator>::into_iter|Vec::iter")
def m_slice_iter(it, ctx, callee, args):
    return Tup((Slice(elems_of(args[0])), usize(0)), name="Iter:ref")


@model(r"<.* as IntoIterator>::into_iter")
def m_into_iter_id(it, ctx, callee, args):
    a = args[0]
    if isinstance(a, Tup) and a.name and a.name.startswith("Iter:"):
        return a
    if isinstance(a, Tup) and a.name and a.name.split("::")[-1].startswith("Drv"):     # adaptors of engines/drivers
        return a
    if isinstance(a, VecV) and a.kind in ("array", "vec"):      # by-value iteration of an array / Vec
        return Tup((Slice(tuple(a.elems)), usize(0)), name="Iter:copied")
    raise Inconclusive("into_iter of %r (%s)" % (a, callee))


@model(r"<(std::str::Bytes|std::slice::Iter<.*>|core::slice::Iter<.*>|std::iter::Copied<.*>|(std|core)::array::IntoIter<.*>|std::vec::IntoIter<.*>|alloc::vec::IntoIter<.*>) as Iterator>::next")
def m_iter_next(it, ctx, callee, args):
    st = deref(args[0])
    if not (isinstance(st, Tup) and st.name and st.name.startswith("Iter:")):
        raise Inconclusive("iterator state %r" % (st,))
    seq, pos = st.fields
    p = pos.conc()
    if p >= len(seq.elems):
        return NONE
    write_ref(args[0], Tup((seq, usize(p + 1)), name=st.name))
    e = seq.elems[p]
    if st.name == "Iter:ref":
        return some(Ref(Cell(e, "iter-elem")))
    return some(e)


@model(r"core::slice::<impl \[.*\]>::get")
def m_slice_get(it, ctx, callee, args):
    el = elems_of(args[0])
    idx = args[1]
    if not isinstance(idx, Int):
        raise Inconclusive("slice::get with a range")
    i = idx.conc()
    if i is None:
        if not ctx.branch(z3.ULT(idx.t, len(el))):
            return NONE
        i = ctx.concretize(idx, 0, len(el))
    if i >= len(el):
        return NONE
    return some(Ref(Cell(el[i], "slice-elem")))


@model(r"core::str::<impl str>::strip_prefix")
def m_strip_prefix(it, ctx, callee, args):
    s, p = elems_of(args[0]), elems_of(args[1])
    if len(p) > len(s):
        return NONE
    eq = z3.And(*[a.t == b.t for a, b in zip(s, p)]) if p else z3.BoolVal(True)
    if ctx.branch(eq):
        return some(Slice(s[len(p):], "str"))
    return NONE


@model(r"core::str::<impl str>::starts_with")
def m_starts_with(it, ctx, callee, args):
    s, p = elems_of(args[0]), elems_of(args[1])
    if len(p) > len(s):
        return z3.BoolVal(False)
    return z3.And(*[a.t == b.t for a, b in zip(s, p)]) if p else z3.BoolVal(True)


@model(r"core::str::<impl str>::is_ascii|core::slice::<impl \[u8\]>::is_ascii")
def m_is_ascii(it, ctx, callee, args):
    el = elems_of(args[0])
    return z3.And(*[z3.ULT(e.t, 0x80) for e in el]) if el else z3.BoolVal(True)


def utf8_valid(bs):
    """z3 Bool: the concrete-length list of symbolic bytes is well-formed UTF-8 (Unicode 15 table 3-7)"""
    n = len(bs)
    valid = [None] * (n + 1)
    valid[n] = z3.BoolVal(True)

    def rng(b, lo, hi):
        return z3.And(z3.UGE(b, lo), z3.ULE(b, hi))
    for i in range(n - 1, -1, -1):
        b0 = bs[i]
        alts = [z3.And(z3.ULE(b0, 0x7F), valid[i + 1])]
        if i + 1 < n:
            alts.append(z3.And(rng(b0, 0xC2, 0xDF), rng(bs[i + 1], 0x80, 0xBF), valid[i + 2]))
        if i + 2 < n:
            b1, b2 = bs[i + 1], bs[i + 2]
            t = rng(b2, 0x80, 0xBF)
            alts.append(z3.And(z3.Or(z3.And(b0 == 0xE0, rng(b1, 0xA0, 0xBF)), z3.And(rng(b0, 0xE1, 0xEC), rng(b1, 0x80, 0xBF)),
                                     z3.And(b0 == 0xED, rng(b1, 0x80, 0x9F)), z3.And(rng(b0, 0xEE, 0xEF), rng(b1, 0x80, 0xBF))),
                               t, valid[i + 3]))
        if i + 3 < n:
            b1, b2, b3 = bs[i + 1], bs[i + 2], bs[i + 3]
            alts.append(z3.And(z3.Or(z3.And(b0 == 0xF0, rng(b1, 0x90, 0xBF)), z3.And(rng(b0, 0xF1, 0xF3), rng(b1, 0x80, 0xBF)),
                                     z3.And(b0 == 0xF4, rng(b1, 0x80, 0x8F))),
                               rng(b2, 0x80, 0xBF), rng(b3, 0x80, 0xBF), valid[i + 4]))
        valid[i] = z3.Or(*alts)
    return valid[0]


def is_char_boundary_term(bs, i):
    if i == 0 or i == len(bs):
        return z3.BoolVal(True)
    if i > len(bs):
        return z3.BoolVal(False)
    b = bs[i].t
    return z3.Not(z3.And(z3.UGE(b, 0x80), z3.ULT(b, 0xC0)))


@model(r"String::from_utf8|core::str::from_utf8|std::str::from_utf8")
def m_from_utf8(it, ctx, callee, args):
    el = elems_of(args[0])
    ok = utf8_valid([e.t for e in el])
    if ctx.branch(ok):
        if "String::" in callee:
            return Adt("Result", "Ok", (VecV(el, "string"),))
        return Adt("Result", "Ok", (Slice(el, "str"),))
    return Adt("Result", "Err", (Opaque("Utf8Error"),))


@model(r"core::str::<impl str>::is_char_boundary|String::is_char_boundary")
def m_is_char_boundary(it, ctx, callee, args):
    el = elems_of(args[0])
    i = ctx.concretize(args[1], 0, len(el) + 2, "char boundary index")
    return is_char_boundary_term(el, i)


def str_index(ctx, el, a, b, kind="str"):
    """&s[a..b] with the std panics"""
    if a > b or b > len(el):
        raise Panic("panic: str/slice index out of range")
    if kind == "str":
        if not ctx.branch(z3.And(is_char_boundary_term(el, a), is_char_boundary_term(el, b))):
            raise Panic("panic: str index not on a char boundary")
    return Slice(el[a:b], kind)


@model(r"<(String|str) as (std::ops::|core::ops::)?Index<(std::ops::|core::ops::)?Range(To|From|Full|Inclusive|ToInclusive)?(<usize>)?>>::index"
       r"|core::str::traits::<impl (std::ops::|core::ops::)?Index<.*> for str>::index")
def m_str_index(it, ctx, callee, args):
    el = elems_of(args[0])
    a, b = range_bounds(ctx, args[1], len(el))
    return str_index(ctx, el, a, b, "str")


@model(r"<(Vec<.*>|\[.*\]) as (std::ops::|core::ops::)?Index<(std::ops::|core::ops::)?Range(To|From|Full|Inclusive|ToInclusive)?(<usize>)?>>::index"
       r"|core::slice::index::<impl (std::ops::|core::ops::)?Index<.*> for \[.*\]>::index")
def m_slice_index(it, ctx, callee, args):
    el = elems_of(args[0])
    r = args[1]
    if isinstance(r, Int):
        i = ctx.concretize(r, 0, len(el) + 1)
        if i >= len(el):
            raise Panic("panic: index out of bounds")
        return Ref(Cell(el[i], "elem"))
    a, b = range_bounds(ctx, r, len(el))
    return str_index(ctx, el, a, b, "slice")


def range_bounds(ctx, r, n):
    nm = (r.name or "") if isinstance(r, Tup) else ""
    base = nm.split("::")[-1]

    def cv(x):
        return ctx.concretize(x, 0, n + 2, "range bound")
    if base.startswith("RangeTo") and not base.startswith("RangeToInclusive"):
        return 0, cv(r.fields[0])
    if base.startswith("RangeFrom"):
        return cv(r.fields[0]), n
    if base.startswith("RangeFull"):
        return 0, n
    if base.startswith("Range") and len(r.fields) == 2:
        return cv(r.fields[0]), cv(r.fields[1])
    raise Inconclusive("range %r" % (r,))


@model(r"core::slice::<impl \[.*\]>::(last|first)")
def m_last(it, ctx, callee, args):
    el = elems_of(args[0])
    if not el:
        return NONE
    e = el[-1] if callee.strip().endswith("last") else el[0]
    return some(Ref(Cell(e, "elem")))


# ------------------------------------------------------------------------------------------
# formatting (only what the checked functions use)

@model(r"core::fmt::rt::Argument::new_(display|upper_hex|lower_hex|debug)")
def m_fmt_arg(it, ctx, callee, args):
    kind = re.search(r"new_(\w+)", callee).group(1)
    return Opaque("fmtarg", (kind, deref(args[0])))


@model(r"(core::fmt::|std::fmt::)?Arguments::new|core::fmt::rt::<impl Arguments>::new")
def m_fmt_arguments(it, ctx, callee, args):
    tmpl = elems_of(args[0])
    fa = deref(args[1])
    return Opaque("fmtargs", ([e.conc() for e in tmpl], list(fa.elems)))


@model(r"(core::fmt::|std::fmt::)?Arguments::from_str(_nonconst)?|core::fmt::rt::<impl Arguments>::from_str")
def m_fmt_from_str(it, ctx, callee, args):
    s = elems_of(args[0])
    return Opaque("fmtargs", ([len(s)] + [e.conc() for e in s] + [0], []))


def render_arg(ctx, a, flags, width):
    kind, v = a.payload
    v = deref(v)
    if kind == "display" and isinstance(v, (Slice, VecV)):
        if flags is not None or width is not None:
            raise Inconclusive("display with options")
        return list(v.elems)
    if kind == "display" and isinstance(v, Int) and v.conc() is not None and flags is None:
        return [u8(b) for b in str(v.conc()).encode()]
    if kind in ("upper_hex", "lower_hex") and isinstance(v, Int):
        nd = v.w // 4
        zero = flags is not None and (flags >> 24) & 1
        if not (zero and width == nd):
            raise Inconclusive("hex format other than {:0%dX}" % nd)
        base = 0x41 if kind == "upper_hex" else 0x61
        out = []
        for i in range(nd - 1, -1, -1):
            nib = z3.ZeroExt(4, z3.Extract(4 * i + 3, 4 * i, v.t))
            out.append(Int(z3.If(z3.ULT(nib, 10), nib + 0x30, nib + (base - 10)), "u8"))
        return out
    raise Inconclusive("format argument %s of %r" % (kind, v))


@model(r"(alloc::fmt::|std::fmt::)?format")
def m_format(it, ctx, callee, args):
    a = args[0]
    if not (isinstance(a, Opaque) and a.what == "fmtargs"):
        raise Inconclusive("format of %r" % (a,))
    t, fargs = a.payload
    out, i, ai = [], 0, 0
    while True:
        n = t[i]; i += 1
        if n == 0:
            break
        if n < 0x80:
            out += [u8(b) for b in t[i:i + n]]; i += n
        elif n == 0x80:
            ln = t[i] | (t[i + 1] << 8); i += 2
            out += [u8(b) for b in t[i:i + ln]]; i += ln
        elif n == 0xC0:
            out += render_arg(ctx, fargs[ai], None, None); ai += 1
        else:
            flags = width = None
            if n & 1:
                flags = t[i] | (t[i + 1] << 8) | (t[i + 2] << 16) | (t[i + 3] << 24); i += 4
            if n & 2:
                width = t[i] | (t[i + 1] << 8); i += 2
            if n & 4:
                raise Inconclusive("format precision")
            if n & 8:
                ai = t[i] | (t[i + 1] << 8); i += 2
            if n & 48:
                raise Inconclusive("dynamic width/precision")
            out += render_arg(ctx, fargs[ai], flags, width); ai += 1
    return VecV(out, "string")


# ------------------------------------------------------------------------------------------
# misc

@model(r"<.* as Clone>::clone")
def m_clone(it, ctx, callee, args):
    return deref(args[0])


@model(r"(std|core)::mem::(drop|forget)|drop")
def m_drop(it, ctx, callee, args):
    return UNIT


@model(r"<.* as PartialEq(<.*>)?>::(eq|ne)")
def m_eq(it, ctx, callee, args):
    a, b = deref(args[0]), deref(args[1])
    r = value_eq(a, b)
    return r if callee.strip().endswith("eq") else z3.Not(r)


def value_eq(a, b):
    a, b = deref(a), deref(b)
    if isinstance(a, Int) and isinstance(b, Int):
        return a.t == b.t
    if z3.is_expr(a) and z3.is_expr(b):
        return a == b
    if isinstance(a, (Slice, VecV)) and isinstance(b, (Slice, VecV)):
        if len(a.elems) != len(b.elems):
            return z3.BoolVal(False)
        return z3.And(*[value_eq(x, y) for x, y in zip(a.elems, b.elems)]) if a.elems else z3.BoolVal(True)
    if isinstance(a, Adt) and isinstance(b, Adt):
        if a.variant != b.variant:
            return z3.BoolVal(False)
        return z3.And(*[value_eq(x, y) for x, y in zip(a.fields, b.fields)]) if a.fields else z3.BoolVal(True)
    if isinstance(a, Tup) and isinstance(b, Tup):
        return z3.And(*[value_eq(x, y) for x, y in zip(a.fields, b.fields)]) if a.fields else z3.BoolVal(True)
    raise Inconclusive("equality of %r and %r" % (a, b))


# ------------------------------------------------------------------------------------------
# chunked slices, byte-order conversions

@model(r"core::slice::<impl \[.*\]>::chunks_exact|core::slice::<impl \[.*\]>::chunks")
def m_chunks(it, ctx, callee, args):
    el = elems_of(args[0])
    n = args[1].conc()
    if n is None or n == 0:
        raise Inconclusive("chunk size must be a concrete non-zero number")
    exact = "chunks_exact" in callee
    chunks = [Slice(el[i:i + n], "slice") for i in range(0, len(el), n)]
    if exact:
        chunks = [c for c in chunks if len(c.elems) == n]
    return Tup((Slice(chunks, "chunks"), usize(0)), name="Iter:copied")


@model(r"<((std|core)::slice::)?(ChunksExact|Chunks)<.*> as Iterator>::next")
def m_chunks_next(it, ctx, callee, args):
    return m_iter_next(it, ctx, callee, args)


@model(r"<&\[(u8|u16|u32|u64)\] as (core::convert::)?TryInto<\[\1; \d+\]>>::try_into|<\[(u8|u16|u32|u64); \d+\] as (core::convert::)?TryFrom<&\[\3\]>>::try_from")
def m_slice_to_array(it, ctx, callee, args):
    n = int(re.search(r"; (\d+)\]", callee).group(1))
    el = elems_of(args[0])
    if len(el) != n:
        return Adt("Result", "Err", (Opaque("TryFromSliceError"),))
    return Adt("Result", "Ok", (VecV(el, "array"),))


@model(r"core::num::<impl (u16|u32|u64|u128|usize|i16|i32|i64|i128)>::from_(le|be|ne)_bytes")
def m_from_bytes(it, ctx, callee, args):
    m = re.search(r"<impl (\w+)>::from_(le|be|ne)_bytes", callee)
    ty, order = m.group(1), m.group(2)
    el = list(elems_of(args[0]) if isinstance(args[0], Ref) else args[0].elems)
    if len(el) * 8 != INT_W[ty]:
        raise Inconclusive("from_%s_bytes with %d bytes for %s" % (order, len(el), ty))
    if order in ("le", "ne"):
        el = el[::-1]
    return Int(z3.Concat(*[e.t for e in el]) if len(el) > 1 else el[0].t, ty)


@model(r"core::num::<impl (u16|u32|u64|u128|usize|i16|i32|i64|i128)>::to_(le|be|ne)_bytes")
def m_to_bytes(it, ctx, callee, args):
    m = re.search(r"<impl (\w+)>::to_(le|be|ne)_bytes", callee)
    ty, order = m.group(1), m.group(2)
    v = args[0]
    n = INT_W[ty] // 8
    bs = [Int(z3.Extract(8 * i + 7, 8 * i, v.t), "u8") for i in range(n)]
    if order == "be":
        bs = bs[::-1]
    return VecV(bs, "array")


# ------------------------------------------------------------------------------------------
# generic `next()` inside the re-implemented adaptors (engines/drivers/src/adaptors.rs)

@model(r"<[A-Z] as Iterator>::next")
def m_generic_next(it, ctx, callee, args):
    from .interp import TailCall, FnItem
    st = deref(args[0])
    if isinstance(st, Tup) and st.name in ITER_NEXT_CALLEE:
        m = it.find_model(ITER_NEXT_CALLEE[st.name])
        if m is None or m is m_generic_next:
            raise Inconclusive("next() of %r: no model in this check's list" % (st.name,))
        return m(it, ctx, ITER_NEXT_CALLEE[st.name], args)
    if isinstance(st, Tup) and st.name and st.name.startswith("Iter:"):
        if st.name == "Iter:bvec":
            from . import rtmodels as RM
            return RM.r_iter_next(it, ctx, callee, args)
        return m_iter_next(it, ctx, callee, args)
    if isinstance(st, Tup) and st.name:
        last = st.name.split("::")[-1]
        for pre, target in DRV_NEXT:
            if last.startswith(pre):
                return TailCall(FnItem(target), [args[0]])
        # iterator states of other model lists (Iter:chars, Peekable, ...): their own `next` model decides
        for nm, cal in ITER_NEXT_CALLEE.items():
            if st.name == nm:
                m = it.find_model(cal)
                if m is not None and m is not m_generic_next:
                    return m(it, ctx, cal, args)
    raise Inconclusive("next() of %r" % (st,))


DRV_NEXT = [("DrvFilter", "drv_filter_next"), ("DrvMap", "drv_map_next"), ("DrvEnumerate", "drv_enumerate_next"),
            ("DrvTakeWhile", "drv_take_while_next"), ("DrvSkip", "drv_skip_next"), ("DrvTake", "drv_take_next"),
            ("DrvZip", "drv_zip_next"), ("DrvChain", "drv_chain_next")]
ITER_NEXT_CALLEE = {"Iter:chars": "<std::str::Chars as Iterator>::next", "Iter:char_indices": "<std::str::CharIndices as Iterator>::next",
                    "Iter:utf16": "<std::str::EncodeUtf16 as Iterator>::next", "Peekable:chars": "<std::iter::Peekable<std::str::Chars> as Iterator>::next"}


@model(r"<.* as Iterator>::sum|<.* as (std::iter::|core::iter::)?Sum(<.*>)?>::sum")
def m_iter_sum(it, ctx, callee, args):
    """integer sums only: fold(0, +) with the overflow panic of a debug build; the element type is the turbofish"""
    from .interp import binop
    m = re.search(r"::sum::<(u8|u16|u32|u64|usize|i8|i16|i32|i64|isize)>", callee)
    if not m:
        raise Inconclusive("sum of a non-integer type: " + callee)
    acc = Int(0, m.group(1))
    cell = Ref(Cell(args[0], "sum-iter"))
    for _ in range(100000):
        o = it.call(ctx, "<I as Iterator>::next", [cell])
        if o.variant == "None":
            return acc
        x = deref(o.fields[0])
        t = binop("AddWithOverflow", acc, x)
        if ctx.branch(t.fields[1]):
            raise Panic("panic: attempt to add with overflow (Iterator::sum)")
        acc = t.fields[0]
    raise Inconclusive("sum over an unbounded iterator")


def decode_last_char(ctx, el):
    """(char Int, number of bytes) of the last character of a non-empty valid UTF-8 byte list; forks on its length"""
    n = len(el)
    for k in (1, 2, 3, 4):
        if k > n:
            break
        lead = el[n - k].t
        is_lead = z3.Not(z3.And(z3.UGE(lead, 0x80), z3.ULT(lead, 0xC0)))
        if k == min(4, n) or ctx.branch(is_lead):
            bs = [z3.ZeroExt(24, e.t) for e in el[n - k:]]
            if k == 1:
                c = bs[0]
            elif k == 2:
                c = ((bs[0] & 0x1F) << 6) | (bs[1] & 0x3F)
            elif k == 3:
                c = ((bs[0] & 0x0F) << 12) | ((bs[1] & 0x3F) << 6) | (bs[2] & 0x3F)
            else:
                c = ((bs[0] & 0x07) << 18) | ((bs[1] & 0x3F) << 12) | ((bs[2] & 0x3F) << 6) | (bs[3] & 0x3F)
            return Int(c, "char"), k
    raise Inconclusive("cannot decode the last character")


@model(r"core::str::<impl str>::trim_end_matches")
def m_trim_end_matches(it, ctx, callee, args):
    el = list(elems_of(args[0]))
    pat = args[1]
    while el:
        ch, k = decode_last_char(ctx, el)
        if isinstance(pat, Int):
            hit = ch.t == pat.t
        else:
            hit = as_bool(it.call_value(ctx, pat, [ch]))
        if not ctx.branch(hit):
            break
        el = el[:-k]
    return Slice(el, "str")


# ------------------------------------------------------------------------------------------
# a wider net of std models: changes to the code under test tend to reach for these

def bounded_index(ctx, idx, n, msg):
    """index < n as a concrete value (forking), or the panic path"""
    c = idx.conc()
    if c is None:
        if ctx.branch(z3.UGE(idx.t, n)):
            raise Panic("panic: " + msg)
        return ctx.concretize(idx, 0, n, "index")
    if c >= n:
        raise Panic("panic: " + msg)
    return c


@model(r"<(Vec<.*>|\[.*\]) as (std::ops::|core::ops::)?Index(Mut)?<usize>>::index(_mut)?")
def m_vec_index(it, ctx, callee, args):
    r = args[0]
    el = elems_of(r)
    i = bounded_index(ctx, args[1], len(el), "index out of bounds")
    while isinstance(r, Ref) and isinstance(get_path(r.cell.v, r.path), Ref):
        r = get_path(r.cell.v, r.path)
    if isinstance(r, Ref):
        return Ref(r.cell, r.path + (i,))
    return Ref(Cell(el[i], "elem"))


def _int_ty(callee):
    m = re.search(r"<impl (u8|u16|u32|u64|u128|usize|i8|i16|i32|i64|i128|isize)>", callee)
    return m.group(1) if m else None


_INTS = r"(u8|u16|u32|u64|u128|usize|i8|i16|i32|i64|i128|isize)"


def _lt(a, b):
    return (a.t < b.t) if is_signed(a.ty) else z3.ULT(a.t, b.t)


@model(r"core::num::<impl %s>::(min|max)|(std|core)::cmp::(min|max)|<%s as Ord>::(min|max)|Ord::(min|max)" % (_INTS, _INTS))
def m_minmax(it, ctx, callee, args):
    a, b = args[0], args[1]
    if not (isinstance(a, Int) and isinstance(b, Int)):
        raise Inconclusive("min/max of non-integers")
    is_min = re.search(r"(min|max)$", canon_callee_(callee)).group(1) == "min"
    lt = _lt(a, b)
    return Int(z3.If(lt, a.t, b.t) if is_min else z3.If(lt, b.t, a.t), a.ty)


def canon_callee_(c):
    from .interp import canon_callee
    return canon_callee(c)


def _op(callee):
    """last path segment of the canonical callee (generic arguments stripped)"""
    return canon_callee_(callee).split("::")[-1]


@model(r"<%s as Ord>::cmp|<%s as PartialOrd>::partial_cmp" % (_INTS, _INTS))
def m_int_cmp(it, ctx, callee, args):
    a, b = deref(args[0]), deref(args[1])
    if ctx.branch(_lt(a, b)):
        r = Adt("Ordering", "Less")
    elif ctx.branch(a.t == b.t):
        r = Adt("Ordering", "Equal")
    else:
        r = Adt("Ordering", "Greater")
    return some(r) if _op(callee) == "partial_cmp" else r


@model(r"<%s as PartialOrd>::(lt|le|gt|ge)" % _INTS)
def m_int_partial(it, ctx, callee, args):
    a, b = deref(args[0]), deref(args[1])
    op = _op(callee)
    lt, eq = _lt(a, b), a.t == b.t
    return {"lt": lt, "le": z3.Or(lt, eq), "gt": z3.Not(z3.Or(lt, eq)), "ge": z3.Not(lt)}[op]


@model(r"core::num::<impl %s>::(abs|signum|pow|abs_diff|rotate_left|rotate_right|swap_bytes|is_positive|is_negative|unsigned_abs)" % _INTS)
def m_int_misc(it, ctx, callee, args):
    a = args[0]
    op = re.search(r">::(\w+)$", canon_callee_(callee)).group(1)
    w = a.w
    if op == "abs":
        if ctx.branch(a.t == (1 << (w - 1))):
            raise Panic("panic: attempt to negate with overflow (abs of MIN)")
        return Int(z3.If(a.t < 0, -a.t, a.t), a.ty)
    if op == "unsigned_abs":
        return Int(z3.If(a.t < 0, -a.t, a.t), "u" + a.ty[1:])
    if op == "signum":
        return Int(z3.If(a.t > 0, z3.BitVecVal(1, w), z3.If(a.t == 0, z3.BitVecVal(0, w), z3.BitVecVal(-1, w))), a.ty)
    if op == "is_positive":
        return a.t > 0
    if op == "is_negative":
        return a.t < 0
    if op == "abs_diff":
        b = args[1]
        lt = _lt(a, b)
        return Int(z3.If(lt, b.t - a.t, a.t - b.t), "u" + a.ty[1:] if is_signed(a.ty) else a.ty)
    if op in ("rotate_left", "rotate_right"):
        n = args[1]
        sh = z3.ZeroExt(w - 32, n.t) if w > 32 else z3.Extract(w - 1, 0, n.t)
        return Int(z3.RotateLeft(a.t, sh) if op == "rotate_left" else z3.RotateRight(a.t, sh), a.ty)
    if op == "swap_bytes":
        bs = [z3.Extract(8 * i + 7, 8 * i, a.t) for i in range(w // 8)]
        return Int(z3.Concat(*bs) if len(bs) > 1 else bs[0], a.ty)
    if op == "pow":
        e = args[1].conc()
        if e is None or e > 8:
            raise Inconclusive("pow with a symbolic or large exponent")
        r = Int(1, a.ty)
        for _ in range(e):
            from .interp import binop
            t = binop("MulWithOverflow", r, a)
            if ctx.branch(t.fields[1]):
                raise Panic("panic: attempt to multiply with overflow (pow)")
            r = t.fields[0]
        return r
    raise Inconclusive(op)


@model(r"core::num::<impl %s>::saturating_(add|sub|mul)" % _INTS)
def m_saturating(it, ctx, callee, args):
    from .interp import binop
    op = re.search(r"saturating_(\w+)", callee).group(1)
    a, b = args
    t = binop({"add": "AddWithOverflow", "sub": "SubWithOverflow", "mul": "MulWithOverflow"}[op], a, b)
    w = a.w
    if is_signed(a.ty):
        mx, mn = z3.BitVecVal((1 << (w - 1)) - 1, w), z3.BitVecVal(1 << (w - 1), w)
        neg = (a.t < 0) if op != "mul" else z3.Xor(a.t < 0, b.t < 0)
        if op == "sub":
            neg = a.t < 0
        sat = z3.If(neg, mn, mx)
    else:
        sat = z3.BitVecVal(0, w) if op == "sub" else z3.BitVecVal((1 << w) - 1, w)
    return Int(z3.If(t.fields[1], sat, t.fields[0].t), a.ty)


@model(r"core::num::<impl %s>::checked_(div|rem|shl|shr|neg)" % _INTS)
def m_checked2(it, ctx, callee, args):
    op = re.search(r"checked_(\w+)", callee).group(1)
    a = args[0]
    w = a.w
    if op in ("div", "rem"):
        b = args[1]
        bad = b.t == 0
        if is_signed(a.ty):
            bad = z3.Or(bad, z3.And(a.t == (1 << (w - 1)), b.t == -1))
        if ctx.branch(bad):
            return NONE
        from .interp import binop
        return some(binop("Div" if op == "div" else "Rem", a, b))
    if op in ("shl", "shr"):
        n = args[1]
        if ctx.branch(z3.UGE(n.t, w)):
            return NONE
        from .interp import binop
        return some(binop("Shl" if op == "shl" else "Shr", a, n))
    if ctx.branch(a.t == (1 << (w - 1)) if is_signed(a.ty) else a.t != 0):
        return NONE
    return some(Int(-a.t, a.ty))


@model(r"core::num::<impl %s>::(next_power_of_two|ilog2|div_ceil|rem_euclid|div_euclid)" % _INTS)
def m_int_misc2(it, ctx, callee, args):
    raise Inconclusive("integer helper without a model: " + callee)


@model(r"Option::(is_some_and|is_none_or)")
def m_opt_is_and(it, ctx, callee, args):
    o, f = args
    some_case = o.variant == "Some"
    if _op(callee) == "is_some_and":
        return as_bool(it.call_value(ctx, f, [o.fields[0]])) if some_case else z3.BoolVal(False)
    return as_bool(it.call_value(ctx, f, [o.fields[0]])) if some_case else z3.BoolVal(True)


@model(r"Option::(map_or|map_or_else)")
def m_opt_map_or(it, ctx, callee, args):
    from .interp import TailCall
    o, d, f = args
    if o.variant == "Some":
        return TailCall(f, [o.fields[0]])
    if _op(callee) == "map_or_else":
        return TailCall(d, [])
    return d


@model(r"Option::(unwrap_or_default)")
def m_opt_unwrap_default(it, ctx, callee, args):
    o = args[0]
    if o.variant == "Some":
        return o.fields[0]
    raise Inconclusive("unwrap_or_default of None needs the type's Default")


@model(r"Option::(as_ref|as_mut|as_deref)")
def m_opt_as_ref(it, ctx, callee, args):
    r = args[0]
    o = deref(r)
    if o.variant == "None":
        return NONE
    if isinstance(r, Ref):
        return some(Ref(r.cell, r.path + (0,)))
    return some(Ref(Cell(o.fields[0], "opt-payload")))


@model(r"Option::take")
def m_opt_take(it, ctx, callee, args):
    r = args[0]
    o = deref(r)
    write_ref(r, NONE)
    return o


@model(r"Option::replace|Option::insert")
def m_opt_replace(it, ctx, callee, args):
    r = args[0]
    o = deref(r)
    write_ref(r, some(args[1]))
    return o if _op(callee) == "replace" else Ref(r.cell, r.path + (0,))


@model(r"Option::(or|and|xor)")
def m_opt_or(it, ctx, callee, args):
    a, b = args
    op = _op(callee)
    if op == "or":
        return a if a.variant == "Some" else b
    if op == "and":
        return b if a.variant == "Some" else NONE
    if (a.variant == "Some") != (b.variant == "Some"):
        return a if a.variant == "Some" else b
    return NONE


@model(r"Option::filter")
def m_opt_filter(it, ctx, callee, args):
    o, f = args
    if o.variant == "None":
        return NONE
    keep = as_bool(it.call_value(ctx, f, [Ref(Cell(o.fields[0], "filter-arg"))]))
    return o if ctx.branch(keep) else NONE


@model(r"Option::ok_or_else")
def m_ok_or_else(it, ctx, callee, args):
    o, f = args
    if o.variant == "Some":
        return Adt("Result", "Ok", (o.fields[0],))
    return Adt("Result", "Err", (it.call_value(ctx, f, []),))


@model(r"Result::(map|map_err|and_then|or_else|unwrap_or|unwrap_or_else|err|is_ok_and|is_err_and)")
def m_res_combinators(it, ctx, callee, args):
    from .interp import TailCall
    op = _op(callee)
    r = args[0]
    ok = r.variant == "Ok"
    if op == "map":
        return Adt("Result", "Ok", (it.call_value(ctx, args[1], [r.fields[0]]),)) if ok else r
    if op == "map_err":
        return r if ok else Adt("Result", "Err", (it.call_value(ctx, args[1], [r.fields[0]]),))
    if op == "and_then":
        return TailCall(args[1], [r.fields[0]]) if ok else r
    if op == "or_else":
        return r if ok else TailCall(args[1], [r.fields[0]])
    if op == "unwrap_or":
        return r.fields[0] if ok else args[1]
    if op == "unwrap_or_else":
        return r.fields[0] if ok else TailCall(args[1], [r.fields[0]])
    if op == "err":
        return NONE if ok else some(r.fields[0])
    if op == "is_ok_and":
        return as_bool(it.call_value(ctx, args[1], [r.fields[0]])) if ok else z3.BoolVal(False)
    return as_bool(it.call_value(ctx, args[1], [r.fields[0]])) if not ok else z3.BoolVal(False)


@model(r"(core::)?bool::(<impl bool>::)?(then|then_some)")
def m_bool_then(it, ctx, callee, args):
    from .interp import TailCall
    if ctx.branch(as_bool(args[0])):
        if _op(callee) == "then_some":
            return some(args[1])
        return some(it.call_value(ctx, args[1], []))
    return NONE


@model(r"(std|core)::mem::(swap)")
def m_mem_swap(it, ctx, callee, args):
    a, b = args
    va, vb = deref(a), deref(b)
    write_ref(a, vb)
    write_ref(b, va)
    return UNIT


@model(r"(std|core)::mem::(replace)")
def m_mem_replace(it, ctx, callee, args):
    old = deref(args[0])
    write_ref(args[0], args[1])
    return old


@model(r"(std|core)::ptr::eq")
def m_ptr_eq(it, ctx, callee, args):
    a, b = args
    if isinstance(a, Ref) and isinstance(b, Ref):
        return z3.BoolVal(a.cell is b.cell and a.path == b.path)
    raise Inconclusive("ptr::eq of non-references")


@model(r"(std|core)::hint::spin_loop|std::thread::yield_now")
def m_spin(it, ctx, callee, args):
    return UNIT


@model(r"(core::)?slice::<impl \[.*\]>::(contains)")
def m_slice_contains(it, ctx, callee, args):
    el = elems_of(args[0])
    x = deref(args[1])
    return z3.Or(*[value_eq(e, x) for e in el]) if el else z3.BoolVal(False)


@model(r"(core::)?slice::<impl \[.*\]>::(starts_with|ends_with)")
def m_slice_affix(it, ctx, callee, args):
    el, p = elems_of(args[0]), elems_of(args[1])
    if len(p) > len(el):
        return z3.BoolVal(False)
    part = el[:len(p)] if _op(callee) == "starts_with" else el[len(el) - len(p):]
    return z3.And(*[value_eq(a, b) for a, b in zip(part, p)]) if p else z3.BoolVal(True)


@model(r"core::str::<impl str>::ends_with")
def m_str_ends_with(it, ctx, callee, args):
    s = elems_of(args[0])
    p = args[1]
    if isinstance(p, Int):        # char pattern: only ASCII patterns are modelled
        if p.conc() is None or p.conc() >= 0x80:
            raise Inconclusive("ends_with(non-ASCII or symbolic char)")
        return (s[-1].t == p.conc()) if s else z3.BoolVal(False)
    p = elems_of(p)
    if len(p) > len(s):
        return z3.BoolVal(False)
    return z3.And(*[a.t == b.t for a, b in zip(s[len(s) - len(p):], p)]) if p else z3.BoolVal(True)


@model(r"(core::)?slice::<impl \[.*\]>::(split_at)")
def m_split_at(it, ctx, callee, args):
    el = elems_of(args[0])
    i = bounded_index(ctx, args[1], len(el) + 1, "split_at index out of bounds")
    return Tup((Slice(el[:i]), Slice(el[i:])))


@model(r"(core::)?slice::<impl \[.*\]>::to_vec|<\[.*\] as ToOwned>::to_owned|<Vec<.*> as From<&\[.*\]>>::from")
def m_to_vec(it, ctx, callee, args):
    return VecV(elems_of(args[0]), "vec")


@model(r"<str as ToOwned>::to_owned|<str as ToString>::to_string|<String as From<&str>>::from|String::from_str|<&str as Into<String>>::into"
       r"|<String as Clone>::clone|<String as ToString>::to_string|core::str::<impl str>::to_string|<str as std::string::ToString>::to_string")
def m_to_string(it, ctx, callee, args):
    return VecV(elems_of(args[0]), "string")


@model(r"Vec::(clear)|String::(clear)")
def m_clear(it, ctx, callee, args):
    v = deref(args[0])
    write_ref(args[0], VecV((), v.kind))
    return UNIT


@model(r"Vec::(truncate)|String::(truncate)")
def m_truncate(it, ctx, callee, args):
    v = deref(args[0])
    n = args[1].conc()
    if n is None:
        n = len(v.elems) if ctx.branch(z3.UGE(args[1].t, len(v.elems))) else ctx.concretize(args[1], 0, len(v.elems), "truncate length")
    if v.kind == "string" and n < len(v.elems):
        if not ctx.branch(is_char_boundary_term(v.elems, n)):
            raise Panic("panic: String::truncate not on a char boundary")
    write_ref(args[0], VecV(v.elems[:n], v.kind))
    return UNIT


@model(r"Vec::(extend_from_slice)|String::(push_str)")
def m_extend(it, ctx, callee, args):
    v = deref(args[0])
    write_ref(args[0], VecV(v.elems + tuple(elems_of(args[1])), v.kind))
    return UNIT


@model(r"Vec::(insert)")
def m_vec_insert(it, ctx, callee, args):
    v = deref(args[0])
    i = bounded_index(ctx, args[1], len(v.elems) + 1, "insertion index out of bounds")
    write_ref(args[0], VecV(v.elems[:i] + (args[2],) + v.elems[i:], v.kind))
    return UNIT


@model(r"Vec::(remove|swap_remove)")
def m_vec_remove(it, ctx, callee, args):
    v = deref(args[0])
    i = bounded_index(ctx, args[1], len(v.elems), "removal index out of bounds")
    x = v.elems[i]
    if _op(callee) == "swap_remove":
        el = list(v.elems)
        el[i] = el[-1]
        el = el[:-1]
    else:
        el = v.elems[:i] + v.elems[i + 1:]
    write_ref(args[0], VecV(el, v.kind))
    return x


@model(r"Vec::(last|first)|Vec::get")
def m_vec_get(it, ctx, callee, args):
    el = elems_of(args[0])
    op = _op(callee)
    if op == "get":
        return m_slice_get(it, ctx, callee, args)
    if not el:
        return NONE
    return some(Ref(Cell(el[-1] if op == "last" else el[0], "elem")))


@model(r"String::pop")
def m_string_pop(it, ctx, callee, args):
    v = deref(args[0])
    if not v.elems:
        return NONE
    ch, k = decode_last_char(ctx, list(v.elems))
    write_ref(args[0], VecV(v.elems[:-k], "string"))
    return some(ch)


@model(r"(core::)?char::methods::<impl char>::(to_ascii_uppercase|to_ascii_lowercase)")
def m_char_case(it, ctx, callee, args):
    c = deref(args[0])
    up = _op(callee).endswith("uppercase")
    lo, hi = (0x61, 0x7A) if up else (0x41, 0x5A)
    inr = z3.And(z3.UGE(c.t, lo), z3.ULE(c.t, hi))
    return Int(z3.If(inr, c.t ^ 0x20, c.t), "char")


@model(r"(core::)?char::methods::<impl char>::to_digit")
def m_to_digit(it, ctx, callee, args):
    c, radix = args[0], args[1].conc()
    if radix is None or not (2 <= radix <= 36):
        raise Inconclusive("to_digit radix")
    d = z3.If(z3.And(z3.UGE(c.t, 0x30), z3.ULE(c.t, 0x39)), c.t - 0x30,
              z3.If(z3.And(z3.UGE(c.t, 0x61), z3.ULE(c.t, 0x7A)), c.t - 0x61 + 10,
                    z3.If(z3.And(z3.UGE(c.t, 0x41), z3.ULE(c.t, 0x5A)), c.t - 0x41 + 10, z3.BitVecVal(99, 32))))
    if ctx.branch(z3.ULT(d, radix)):
        return some(Int(d, "u32"))
    return NONE


@model(r"((core::)?char::methods::<impl char>|char)::from_u32|(core::)?char::convert::from_u32")
def m_from_u32(it, ctx, callee, args):
    v = args[0]
    ok = z3.And(z3.ULE(v.t, 0x10FFFF), z3.Not(z3.And(z3.UGE(v.t, 0xD800), z3.ULE(v.t, 0xDFFF))))
    if ctx.branch(ok):
        return some(Int(v.t, "char"))
    return NONE


# ------------------------------------------------------------------------------------------
# mutable views: the reference to the vector itself stands for `&mut [T]`, element references are paths into its cell

def base_ref(r):
    """follow references to references down to the one that points at the sequence value"""
    while isinstance(r, Ref) and isinstance(get_path(r.cell.v, r.path), Ref):
        r = get_path(r.cell.v, r.path)
    return r


@model(r"<Vec<.*> as (std::ops::|core::ops::)?DerefMut>::deref_mut|Vec::as_mut_slice|<Vec<.*> as AsMut<\[.*\]>>::as_mut")
def m_vec_deref_mut(it, ctx, callee, args):
    r = base_ref(args[0])
    if not (isinstance(r, Ref) and isinstance(deref(r), (VecV, Slice))):
        raise Inconclusive("deref_mut of %r" % (args[0],))
    return r


@model(r"((core::)?slice::<impl \[.*\]>|Vec)::(last_mut|first_mut|get_mut)")
def m_elem_mut(it, ctx, callee, args):
    r = base_ref(args[0])
    el = elems_of(r)
    op = _op(callee)
    if not isinstance(r, Ref):
        raise Inconclusive("%s of a value that is not behind a reference" % op)
    if op == "get_mut":
        idx = args[1]
        if not isinstance(idx, Int):
            raise Inconclusive("get_mut with a range")
        if idx.conc() is None:
            if ctx.branch(z3.UGE(idx.t, len(el))):
                return NONE
            i = ctx.concretize(idx, 0, len(el))
        else:
            i = idx.conc()
            if i >= len(el):
                return NONE
    else:
        if not el:
            return NONE
        i = len(el) - 1 if op == "last_mut" else 0
    return some(Ref(r.cell, r.path + (i,)))
