"""Deciding large QF_BV unrollings: z3 tactics bit-blast to CNF, kissat decides.
(z3's own SAT core needed minutes where kissat needs seconds on the bmc unrollings.)"""
import os
import subprocess
import tempfile
import time

import z3

from .common import Inconclusive, WORK, ensure_dirs

TACTIC = ("simplify", "propagate-values", "bit-blast", "tseitin-cnf")


def decide(constraints, timeout_s, want_names=None, tag="q"):
    """-> (verdict 'sat'|'unsat'|'unknown', set of true Boolean atom names matching want_names(name), stats)"""
    t0 = time.time()
    g = z3.Goal()
    g.add(*constraints)
    r = z3.Then(*TACTIC)(g)
    if len(r) != 1:
        raise Inconclusive("bit-blasting produced %d subgoals" % len(r))
    sub = r[0]
    if sub.inconsistent():
        return "unsat", set(), {"cnf_s": round(time.time() - t0, 2), "sat_s": 0.0, "vars": 0, "clauses": 0, "solver": "z3-preprocessing"}
    d = sub.dimacs(include_names=True)
    head = d.split("\n", 1)[0].split()
    nv, nc = (int(head[2]), int(head[3])) if len(head) >= 4 else (0, 0)
    if nc == 0:
        return "sat", set(), {"cnf_s": round(time.time() - t0, 2), "sat_s": 0.0, "vars": nv, "clauses": 0, "solver": "z3-preprocessing"}
    ensure_dirs()
    d_dir = os.path.join(WORK, "cnf")
    os.makedirs(d_dir, exist_ok=True)
    fd, path = tempfile.mkstemp(prefix=tag + "-", suffix=".cnf", dir=d_dir)
    names = {}
    with os.fdopen(fd, "w") as f:
        for ln in d.split("\n"):
            if ln.startswith("c "):
                p = ln.split(" ", 2)
                if len(p) == 3 and (want_names is None or want_names(p[2])):
                    names[int(p[1])] = p[2]
            else:
                f.write(ln + "\n")
    del d
    t1 = time.time()
    try:
        p = subprocess.run(["kissat", "-q", "--time=%d" % max(1, int(timeout_s)), path], capture_output=True, text=True,
                           timeout=timeout_s + 60)
    except subprocess.TimeoutExpired:
        os.unlink(path)
        return "unknown", set(), {"cnf_s": round(t1 - t0, 2), "sat_s": round(time.time() - t1, 2), "vars": nv, "clauses": nc, "solver": "kissat"}
    os.unlink(path)
    st = {"cnf_s": round(t1 - t0, 2), "sat_s": round(time.time() - t1, 2), "vars": nv, "clauses": nc, "solver": "kissat"}
    out = p.stdout
    if "s UNSATISFIABLE" in out:
        return "unsat", set(), st
    if "s SATISFIABLE" in out:
        true = set()
        for ln in out.split("\n"):
            if ln.startswith("v "):
                for tok in ln[2:].split():
                    v = int(tok)
                    if v > 0 and v in names:
                        true.add(names[v])
        return "sat", true, st
    if p.returncode not in (0, 10, 20):
        raise Inconclusive("kissat failed (%d): %s" % (p.returncode, (p.stdout + p.stderr)[-300:]))
    return "unknown", set(), st


def second_opinion(constraints, timeout_s):
    """z3's own bit-blasting SAT pipeline on the same constraints -> 'sat'|'unsat'|'unknown'"""
    sv = z3.Then("simplify", "propagate-values", "solve-eqs", "bit-blast", "sat").solver()
    sv.set("timeout", int(timeout_s * 1000))
    sv.add(*constraints)
    return str(sv.check())
