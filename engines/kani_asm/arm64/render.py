"""Rendering of the reference decoder's structured result (JSON from arm64-replay) in the syntax
of `llvm-mc --disassemble -triple=aarch64 -M no-aliases`, and a normaliser that makes llvm-mc's
text and the rendering comparable (integers, folded `lsl #12` of add/sub immediates, barrier
option names).  Used for the second opinion in replays and for the oracle validation only."""
import re

COND = ["eq", "ne", "hs", "lo", "mi", "pl", "vs", "vc", "hi", "ls", "ge", "lt", "gt", "le", "al", "nv"]
SHIFT = ["lsl", "lsr", "asr", "ror"]
EXT = ["uxtb", "uxth", "uxtw", "uxtx", "sxtb", "sxth", "sxtw", "sxtx"]
BARRIER = {15: "sy", 14: "st", 13: "ld", 11: "ish", 10: "ishst", 9: "ishld", 7: "nsh", 6: "nshst", 5: "nshld",
           3: "osh", 2: "oshst", 1: "oshld"}


def reg(r):
    n, k = r["n"], r["k"]
    if k == "X":
        return "xzr" if n == 31 else "x%d" % n
    if k == "XSP":
        return "sp" if n == 31 else "x%d" % n
    if k == "W":
        return "wzr" if n == 31 else "w%d" % n
    if k == "WSP":
        return "wsp" if n == 31 else "w%d" % n
    if k in ("B", "H", "S", "D", "Q"):
        return "%s%d" % (k.lower(), n)
    if k.startswith("V"):
        return "v%d.%s" % (n, k[1:].lower())
    return "?"


def render(i):
    op, form = i["op"].lower(), i["form"]
    rd, rn, rm, ra = reg(i["rd"]), reg(i["rn"]), reg(i["rm"]), reg(i["ra"])
    imm, imm2, sh, amt, size = i["imm"], i["imm2"], i["sh"], i["amt"], i["size"]
    if form == "AddSubImm":
        return "%s %s, %s, #%d" % (op, rd, rn, imm)
    if form == "AddSubShift" or form == "LogShift":
        s = "%s %s, %s, %s" % (op, rd, rn, rm)
        if amt != 0 or sh != 0:
            s += ", %s #%d" % (SHIFT[sh], amt)
        return s
    if form == "AddSubExt":
        s = "%s %s, %s, %s" % (op, rd, rn, rm)
        is_s = op in ("adds", "subs")
        sp_involved = (i["rn"]["n"] == 31) or (i["rd"]["n"] == 31 and not is_s)
        lsl_alias = sp_involved and ((size == 1 and sh == 3) or (size == 0 and sh == 2))
        if lsl_alias:
            if amt != 0:
                s += ", lsl #%d" % amt
        else:
            s += ", %s" % EXT[sh]
            if amt != 0:
                s += " #%d" % amt
        return s
    if form == "LogImm":
        v = imm & (0xffffffffffffffff if size == 1 else 0xffffffff)
        return "%s %s, %s, #%d" % (op, rd, rn, v)
    if form == "MovWide":
        s = "%s %s, #%d" % (op, rd, imm)
        if imm2:
            s += ", lsl #%d" % imm2
        return s
    if form == "Bitfield":
        return "%s %s, %s, #%d, #%d" % (op, rd, rn, imm, imm2)
    if form == "PcRel":
        return "%s %s, #%d" % (op, rd, imm)
    if form == "BranchImm":
        return "%s #%d" % (op, imm)
    if form == "BranchCond":
        return "b.%s #%d" % (COND[i["cond"]], imm)
    if form == "CmpBranch":
        return "%s %s, #%d" % (op, rd, imm)
    if form == "TestBranch":
        return "%s %s, #%d, #%d" % (op, rd, imm2, imm)
    if form == "BranchReg":
        return "%s %s" % (op, rn)
    if form in ("LdStUImm", "LdStUnscaled", "LdStRegOff"):
        k = i["rd"]["k"]
        suffix = ""
        if k in ("X", "W"):
            suffix = {0: "b", 1: "h", 2: "" if op not in ("ldrs", "ldurs") else "w", 3: ""}[size]
        base = {"str": "str", "ldr": "ldr", "ldrs": "ldrs", "stur": "stur", "ldur": "ldur", "ldurs": "ldurs"}[op]
        m = base + suffix
        if form == "LdStRegOff":
            s = "%s %s, [%s, %s" % (m, rd, rn, rm)
            if sh == 3:
                if imm2:
                    s += ", lsl #%d" % amt
            else:
                s += ", %s" % EXT[sh]
                if imm2:
                    s += " #%d" % amt
            return s + "]"
        if imm == 0:
            return "%s %s, [%s]" % (m, rd, rn)
        return "%s %s, [%s, #%d]" % (m, rd, rn, imm)
    if form in ("LdStPairOff", "LdStPairPre", "LdStPairPost"):
        if form == "LdStPairOff":
            a = "[%s]" % rn if imm == 0 else "[%s, #%d]" % (rn, imm)
        elif form == "LdStPairPre":
            a = "[%s, #%d]!" % (rn, imm)
        else:
            a = "[%s], #%d" % (rn, imm)
        return "%s %s, %s, %s" % (op, rd, ra, a)
    if form in ("LdStExcl", "LdStOrdered"):
        suffix = {0: "b", 1: "h", 2: "", 3: ""}[size]
        if op in ("stxr", "stlxr"):
            return "%s%s %s, %s, [%s]" % (op, suffix, rm, rd, rn)
        return "%s%s %s, [%s]" % (op, suffix, rd, rn)
    if form == "Cas":
        suffix = {0: "b", 1: "h", 2: "", 3: ""}[size]
        return "%s%s %s, %s, [%s]" % (op, suffix, rm, rd, rn)
    if form == "AtomicMem":
        suffix = {0: "b", 1: "h", 2: "", 3: ""}[size]
        order = {0: "", 1: "l", 2: "a", 3: "al"}[imm2]
        return "%s%s%s %s, %s, [%s]" % (op, order, suffix, rm, rd, rn)
    if form in ("DP1", "FpDP1", "FpInt", "SimdAcross", "Simd2Misc"):
        return "%s %s, %s" % (op, rd, rn)
    if form in ("DP2", "FpDP2"):
        return "%s %s, %s, %s" % (op, rd, rn, rm)
    if form == "DP3":
        if op in ("smulh", "umulh"):
            return "%s %s, %s, %s" % (op, rd, rn, rm) + ("" if i["ra"]["n"] == 31 else " // ra=%d (should be 31)" % i["ra"]["n"])
        return "%s %s, %s, %s, %s" % (op, rd, rn, rm, ra)
    if form == "CondSel":
        return "%s %s, %s, %s, %s" % (op, rd, rn, rm, COND[i["cond"]])
    if form == "FpCmp":
        return "%s %s, %s" % (op, rn, rm)
    if form == "FpCmpZero":
        return "%s %s, #0.0" % (op, rn)
    if form == "Barrier":
        if op == "isb":
            return "isb" if imm == 15 else "isb #%d" % imm
        return "%s #%d" % (op, imm)
    if form == "Hint":
        return "hint #0"
    if form == "Exception":
        return "%s #%d" % (op, imm)
    return "?%s" % op


def _gpr_as(r, x):
    """register name with the width letter of `x`"""
    if r in ("wzr", "xzr"):
        return x + "zr"
    return x + r[1:]


def _bitfield_alias(t):
    m = re.match(r'^(bfxil|bfi|sbfx|sbfiz|ubfx|ubfiz) ([xw])(\w+),(\w+),#(\d+),#(\d+)$', t)
    if m:
        al, x, rd, rn, lsb, width = m.group(1), m.group(2), m.group(3), m.group(4), int(m.group(5)), int(m.group(6))
        size = 64 if x == "x" else 32
        base = {"bfxil": "bfm", "bfi": "bfm", "sbfx": "sbfm", "sbfiz": "sbfm", "ubfx": "ubfm", "ubfiz": "ubfm"}[al]
        if al in ("bfxil", "sbfx", "ubfx"):
            immr, imms = lsb, lsb + width - 1
        else:
            immr, imms = (-lsb) % size, width - 1
        return "%s %s%s,%s,#%d,#%d" % (base, x, rd, rn, immr, imms)
    m = re.match(r'^(lsl|lsr|asr) ([xw])(\w+),(\w+),#(\d+)$', t)
    if m:
        al, x, rd, rn, s = m.group(1), m.group(2), m.group(3), m.group(4), int(m.group(5))
        size = 64 if x == "x" else 32
        if al == "lsl":
            return "ubfm %s%s,%s,#%d,#%d" % (x, rd, rn, (-s) % size, size - 1 - s)
        return "%s %s%s,%s,#%d,#%d" % ("ubfm" if al == "lsr" else "sbfm", x, rd, rn, s, size - 1)
    m = re.match(r'^mov ([xw])(\w+),#(-?\d+)$', t)
    if m:
        x, rd, v = m.group(1), m.group(2), int(m.group(3))
        size = 64 if x == "x" else 32
        u = v % (1 << size)

        def single(val):
            hs = [(val >> (16 * i)) & 0xffff for i in range(size // 16)]
            nz = [i for i, h in enumerate(hs) if h]
            if len(nz) == 0:
                return (0, 0)
            if len(nz) == 1:
                return (hs[nz[0]], 16 * nz[0])
            return None
        z = single(u)
        op = "movz"
        if z is None:
            z = single((~u) % (1 << size))
            op = "movn"
        if z is not None:
            return "%s %s%s,#%d" % (op, x, rd, z[0]) + (",lsl #%d" % z[1] if z[1] else "")
        return "orr %s%s,%szr,#%d" % (x, rd, x, u)  # MOV (bitmask immediate)
    m = re.match(r'^(sxtb|sxth|sxtw|uxtb|uxth) ([xw])(\w+),(\w+)$', t)
    if m:
        al, x, rd, rn = m.groups()
        imms = {"b": 7, "h": 15, "w": 31}[al[-1]]
        return "%s %s%s,%s,#0,#%d" % ("sbfm" if al[0] == "s" else "ubfm", x, rd, _gpr_as(rn, x), imms)
    return t


INT = re.compile(r'#(-?)(0x[0-9a-f]+|\d+)(?![\d.])')


def normalise(text):
    """canonical comparable form of an llvm-mc line or of a rendering"""
    t = text.strip().lower()
    t = re.sub(r'\s*//.*$', '', t)
    t = re.sub(r'\s+', ' ', t)
    t = re.sub(r'\s*,\s*', ',', t)

    def num(m):
        v = int(m.group(2), 0)
        return "#%d" % (-v if m.group(1) else v)
    t = INT.sub(num, t)
    m = re.match(r'^(add|adds|sub|subs) ([^,]+),([^,]+),#(\d+),lsl #12$', t)
    if m:
        t = "%s %s,%s,#%d" % (m.group(1), m.group(2), m.group(3), int(m.group(4)) << 12)
    m = re.match(r'^(dmb|dsb) (\w+)$', t)
    if m:
        inv = {v: k for k, v in BARRIER.items()}
        if m.group(2) in inv:
            t = "%s #%d" % (m.group(1), inv[m.group(2)])
    if t == "nop":
        t = "hint #0"
    t = t.replace(",#0]", "]")
    # llvm-mc 14 prints these aliases even with -M no-aliases
    m = re.match(r'^(lsl|lsr|asr|ror) ([xw]\w+),([xw]\w+),([xw]\w+)$', t)
    if m:
        t = "%sv %s,%s,%s" % m.groups()
    t = _bitfield_alias(t)
    # llvm prints negative logical immediates of 64-bit forms as unsigned hex already; nothing to do
    return t


def same(rendered, *llvm_texts):
    """does the rendering agree with one of llvm-mc's printings (no-aliases / default)?
    (llvm-mc 14 -M no-aliases misprints the shift of register-offset loads/stores with S = 0,
    the default printing is right there and these instructions have no aliases)"""
    w = normalise(rendered)
    return any(w == normalise(t) for t in llvm_texts)
