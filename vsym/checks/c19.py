"""C19 — distinct, valid linker symbols (dora-symbol), MIR-seq.

Symbolically executes the real `mangle_name`, `mangle_name_with_max_len`, `demangle_name`,
`fnv1a_128`, `hex_digit`, `hex_value` from the MIR dump of the working tree."""
import json
import time

import z3

from .. import common
from ..common import Inconclusive, log
from ..mir import parse as P
from ..mir.interp import Adt, Int, Interp, Panic, Slice, VecV
from ..mir import models as M
from ..mir.runner import run_harnesses

PID = "C19"
FILLER = b"abcdefghijklmnopqrstuvwxyzABCD"     # 30 concrete alphanumeric bytes


def load():
    mir = common.mir_dump("dora-symbol")
    prog = P.parse_file(mir, common.REPO)
    for need in ("mangle_name", "mangle_name_with_max_len", "demangle_name", "fnv1a_128", "hex_digit", "hex_value"):
        if prog.find(need) is None:
            raise Inconclusive("function %s not found in the MIR dump of dora-symbol" % need)
    return prog


def sym_bytes(ctx, n, prefix="b"):
    bs = [ctx.sym("%s%d" % (prefix, i), "u8") for i in range(n)]
    return bs


def alnum(t):
    return z3.Or(z3.And(z3.UGE(t, 0x30), z3.ULE(t, 0x39)), z3.And(z3.UGE(t, 0x41), z3.ULE(t, 0x5A)),
                 z3.And(z3.UGE(t, 0x61), z3.ULE(t, 0x7A)))


def upper_hex(t):
    return z3.Or(z3.And(z3.UGE(t, 0x30), z3.ULE(t, 0x39)), z3.And(z3.UGE(t, 0x41), z3.ULE(t, 0x46)))


def well_formed_symbol(el):
    """dora_ prefix, alphabet [A-Za-z0-9_], every '_' after the prefix followed by two upper hex digits"""
    conds = []
    pre = b"dora_"
    if len(el) < 5:
        return z3.BoolVal(False)
    conds += [el[i].t == pre[i] for i in range(5)]
    body = el[5:]
    n = len(body)
    # walk: positions are concrete per path, escapes are 3 long; express as a DP like utf8_valid
    ok = [None] * (n + 1)
    ok[n] = z3.BoolVal(True)
    for i in range(n - 1, -1, -1):
        b = body[i].t
        alts = [z3.And(alnum(b), ok[i + 1])]
        if i + 2 < n + 0 and i + 3 <= n:
            alts.append(z3.And(b == 0x5F, upper_hex(body[i + 1].t), upper_hex(body[i + 2].t), ok[i + 3]))
        ok[i] = z3.Or(*alts)
    conds.append(ok[0])
    return z3.And(*conds)


def make_bodies(prog, lengths, short_syms):
    it_models = M.MODELS
    bodies = {}

    def roundtrip(L):
        def body(ctx, out):
            it = Interp(prog, it_models)
            bs = sym_bytes(ctx, L)
            ctx.assume(M.utf8_valid([b.t for b in bs]))
            inputs = {"b%d" % i: b.t for i, b in enumerate(bs)}
            try:
                m = it.call(ctx, "mangle_name", [Slice(bs, "str")])
            except Panic as p:
                out.violations.append({"what": "mangle_name panics: %s" % p.msg, "witness": model_inputs(ctx, inputs)})
                return
            out.require(ctx, well_formed_symbol(m.elems), "mangled symbol is not dora_ + [A-Za-z0-9] / _XX escapes", inputs)
            try:
                d = it.call(ctx, "demangle_name", [Slice(m.elems, "str")])
            except Panic as p:
                out.violations.append({"what": "demangle_name panics on a mangled name: %s" % p.msg,
                                       "witness": model_inputs(ctx, inputs)})
                return
            if not (isinstance(d, Adt) and d.variant == "Some"):
                out.violations.append({"what": "demangle(mangle(s)) == None", "witness": model_inputs(ctx, inputs)})
                return
            got = d.fields[0].elems
            out.seen("roundtrip-some")
            if len(got) != L:
                out.violations.append({"what": "demangle(mangle(s)) has another length", "witness": model_inputs(ctx, inputs)})
                return
            eq = z3.And(*[g.t == b.t for g, b in zip(got, bs)]) if L else z3.BoolVal(True)
            out.require(ctx, eq, "demangle(mangle(s)) != s", inputs)
            if L and len(m.elems) > 5 + L:
                out.seen("escape-taken")
            if len(out.samples) < 3:
                out.samples.append({"L": L, "mangled_len": len(m.elems), "trace_len": len(ctx.trace)})
            it_stats(out, it)
        return body

    def shorten(S, fill, ml_lo, ml_hi, tag):
        # name = concrete alphanumeric filler + S symbolic bytes; max_len symbolic in ml_lo..ml_hi
        def body(ctx, out):
            it0 = Interp(prog, it_models)
            it = Interp(prog, it_models)
            bs = [Int(b, "u8") for b in fill] + sym_bytes(ctx, S)
            ctx.assume(M.utf8_valid([b.t for b in bs]))
            if ml_lo == ml_hi:
                ml = Int(ml_lo, "usize")
            else:
                ml = ctx.sym("max_len", "usize")
                ctx.assume(z3.And(z3.UGE(ml.t, ml_lo), z3.ULE(ml.t, ml_hi)))
            inputs = {"b%d" % i: b.t for i, b in enumerate(bs[len(fill):])}
            inputs["max_len"] = ml.t
            full = it0.call(ctx, "mangle_name", [Slice(bs, "str")])
            try:
                r = it.call(ctx, "mangle_name_with_max_len", [Slice(bs, "str"), ml])
            except Panic as p:
                if "mangle_name" not in it.called and ml_lo != ml_hi:
                    # refused by the entry assertion on max_len, before any work: a documented precondition
                    out.seen("refused-small-max_len")
                    out.outcome("refused")
                    return
                out.violations.append({"what": "mangle_name_with_max_len panics: %s" % p.msg, "fill": fill.hex(),
                                       "witness": model_inputs(ctx, inputs)})
                return
            n = len(r.elems)
            out.require(ctx, z3.UGE(ml.t, n), "symbol longer than max_len", inputs, fill=fill.hex())
            fits = z3.ULE(z3.BitVecVal(len(full.elems), 64), ml.t)
            same = z3.And(*[a.t == b.t for a, b in zip(r.elems, full.elems)]) if n == len(full.elems) else z3.BoolVal(False)
            out.require(ctx, z3.Implies(fits, same), "name that fits is not returned unshortened", inputs, fill=fill.hex())
            if ctx.can(z3.Not(fits)):
                out.seen("shortened")
                # shortened: exactly max_len long, ends in _H + 32 upper hex digits, keeps the prefix of the full symbol
                cond = []
                cond.append(ml.t == n)
                if n >= 34:
                    suf = r.elems[n - 34:]
                    cond.append(suf[0].t == 0x5F)
                    cond.append(suf[1].t == 0x48)
                    cond += [upper_hex(e.t) for e in suf[2:]]
                    cond += [a.t == b.t for a, b in zip(r.elems[:n - 34], full.elems)]
                else:
                    cond.append(z3.BoolVal(False))
                out.require(ctx, z3.Implies(z3.Not(fits), z3.And(*cond)),
                            "shortened symbol is not <prefix of symbol>_H<32 upper hex>", inputs, fill=fill.hex())
                # "keeps different names different": if the shortened symbol demangles to some name t, then t (whose
                # unshortened symbol is this very string and fits max_len) and the long name share one symbol
                try:
                    d = it.call(ctx, "demangle_name", [Slice(r.elems, "str")])
                    if isinstance(d, Adt) and d.variant == "Some" and ctx.can(z3.Not(fits)):
                        out.violations.append({"what": "two different names get the same symbol (a shortened symbol reads as the unshortened symbol of another name)",
                                               "fill": fill.hex(), "witness": model_inputs(ctx, inputs, z3.Not(fits))})
                except Panic as p:
                    out.violations.append({"what": "demangle_name panics on a shortened symbol: %s" % p.msg, "fill": fill.hex(),
                                           "witness": model_inputs(ctx, inputs)})
            else:
                out.seen("unshortened")
            it_stats(out, it)
            it_stats(out, it0)
        return body

    for L in lengths:
        bodies["roundtrip/L=%d" % L] = roundtrip(L)
    for S in short_syms:
        bodies["shorten/S=%d" % S] = shorten(S, FILLER, 34, 46, "small")
    # the limit the compiler really uses (read from the working tree): names around the limit
    prod = production_max_len()
    fill = (FILLER * 20)[:prod - 5 - 4]
    for S in short_syms[:2]:
        bodies["shorten-prod/max_len=%d/S=%d" % (prod, S)] = shorten(S, fill, prod, prod, "prod")
    return bodies


def production_max_len():
    import re, os
    src = open(os.path.join(common.REPO, "dora-compiler/src/aot_compile.rs")).read()
    m = re.search(r"const AOT_SYMBOL_MAX_LEN: usize = (\d+);", src)
    if not m:
        raise Inconclusive("AOT_SYMBOL_MAX_LEN not found in dora-compiler/src/aot_compile.rs")
    return int(m.group(1))


def it_stats(out, it):
    out.outcome("ok")
    fe = out.__dict__.setdefault("fns", set())
    fe.update(it.called)
    mu = out.__dict__.setdefault("models", set())
    mu.update(it.models_used)


def model_inputs(ctx, inputs, extra=None):
    m = ctx.model(extra)
    w = {}
    if m is None:
        return w
    for k, t in inputs.items():
        v = m.eval(t, model_completion=True)
        w[k] = v.as_long()
    return w


# ------------------------------------------------------------------------------------------
# FNV step lemmas on the real loop body (one iteration from a symbolic state)

def fnv_lemmas(prog, tier):
    """Executes fnv1a_128 on a 1-byte slice with OFFSET_BASIS replaced by a symbolic state."""
    from ..mir.interp import Ctx, Explorer
    res = []

    def step(hname, bname):
        ex = Explorer()
        ctx = Ctx(ex, ())
        it = Interp(prog, M.MODELS)
        h = ctx.sym(hname, "u128")
        orig = it.lookup_const

        def lc(fr, name):
            if name.endswith("OFFSET_BASIS"):
                return h
            return orig(fr, name)
        it.lookup_const = lc
        b = ctx.sym(bname, "u8")
        r = it.call(ctx, "fnv1a_128", [Slice([b], "slice")])
        if ex.forks:
            raise Inconclusive("fnv1a_128 forked on a 1-byte input")
        return h, b, r, it

    h1, b1, r1, it1 = step("h1", "b1")
    h2, b2, r2, it2 = step("h2", "b2")
    queries = [
        ("fnv-step-injective-in-state", z3.And(b1.t == b2.t, h1.t != h2.t, r1.t == r2.t)),
        ("fnv-step-injective-in-byte", z3.And(h1.t == h2.t, b1.t != b2.t, r1.t == r2.t)),
    ]
    for name, q in queries:
        t = time.time()
        v = decide2(q, 120 if tier == "quick" else 600, name)
        res.append({"name": name, "verdict": v, "time_s": round(time.time() - t, 2)})
    # vacuity: the step can change the state at all / two different (h,b) can collide (sat expected)
    s = z3.Solver()
    s.add(r1.t != h1.t)
    vac = s.check() == z3.sat
    s = z3.Solver()
    s.add(z3.Or(h1.t != h2.t, b1.t != b2.t), r1.t == r2.t)
    vac2 = s.check() == z3.sat
    return res, {"fnv-step-changes-state": vac, "fnv-two-byte-states-can-collide(sat, shows the lemma is not trivial)": vac2}, it1


def decide2(formula, timeout_s, name):
    """verdict query by z3 (API) and, as second opinion, cvc5 on the SMT-LIB dump."""
    s = z3.Solver()
    s.set("timeout", timeout_s * 1000)
    s.add(formula)
    r = s.check()
    if r == z3.unknown:
        raise Inconclusive("z3 unknown on " + name)
    v1 = "sat" if r == z3.sat else "unsat"
    v2 = cvc5_verdict(s, timeout_s, name)
    if v2 is not None and v2 != v1:
        raise Inconclusive("solver disagreement on %s: z3=%s cvc5=%s" % (name, v1, v2))
    return v1


def cvc5_verdict(solver, timeout_s, name):
    import os, subprocess
    common.ensure_dirs()
    d = os.path.join(common.WORK, "smt")
    os.makedirs(d, exist_ok=True)
    path = os.path.join(d, "%s-%s.smt2" % (PID, name.replace("/", "_")))
    with open(path, "w") as f:
        f.write("(set-logic ALL)\n" + solver.to_smt2().replace("(set-logic", "; (set-logic"))
    try:
        p = subprocess.run(["cvc5", "--lang", "smt2", "--tlimit=%d" % (timeout_s * 1000), path], capture_output=True,
                           text=True, timeout=timeout_s + 30)
    except subprocess.TimeoutExpired:
        return None
    o = p.stdout.strip().splitlines()
    if "(error" in p.stdout or "(error" in p.stderr:
        raise Inconclusive("cvc5 error on %s: %s" % (name, (p.stdout + p.stderr)[:300]))
    if o and o[0] in ("sat", "unsat"):
        return o[0]
    return None


# ------------------------------------------------------------------------------------------
# translator validation + replay against the real function

UNIT_TEST_NAMES = [b"boots::interface::compile", b"std::fatal_error[()]", b"", b"a", b"_", b"\xc3\xa4", b"\xf0\x9f\x98\x80x",
                   b"std::collections::HashMap[Int64, String]::insert", b"a_b", b"_5F", b"dora_"]


def validate_translator(prog, nat):
    """run the encoding concretely on the repo's own unit-test inputs; compare with the real function"""
    from ..mir.interp import Ctx, Explorer
    n = 0
    for name in UNIT_TEST_NAMES:
        for ml in (None, 34, 40, 64):
            ex = Explorer()
            ctx = Ctx(ex, ())
            it = Interp(prog, M.MODELS)
            s = Slice([Int(b, "u8") for b in name], "str")
            m = it.call(ctx, "mangle_name", [s])
            enc = {"mangled": conc_hex(m.elems)}
            d = it.call(ctx, "demangle_name", [Slice(m.elems, "str")])
            enc["demangled"] = conc_hex(d.fields[0].elems) if d.variant == "Some" else "None"
            args = ["symbol", name.hex() or ""]
            panicked = False
            if ml is not None:
                args.append(ml)
                try:
                    r = it.call(ctx, "mangle_name_with_max_len", [s, Int(ml, "usize")])
                    enc["short"] = conc_hex(r.elems)
                    d2 = it.call(ctx, "demangle_name", [Slice(r.elems, "str")])
                    enc["short_demangled"] = conc_hex(d2.fields[0].elems) if d2.variant == "Some" else "None"
                except Panic:
                    panicked = True
            real = common.native(nat, *args)
            if panicked != ("panic" in real):
                raise Inconclusive("encoding wrong: panic behaviour differs for (%r, max_len=%s): executor %s, real %s" %
                                   (name, ml, panicked, real.get("panic")))
            for k, v in enc.items():
                if real.get(k) != v:
                    raise Inconclusive("encoding wrong: %s(%r, max_len=%s): executor %s, real function %s" %
                                       (k, name, ml, v, real.get(k)))
            n += 1
    return n


def conc_hex(el):
    out = []
    for e in el:
        c = e.conc()
        if c is None:
            raise Inconclusive("non-concrete byte in a concrete run")
        out.append("%02x" % c)
    return "".join(out)


def replay_witness(nat, v):
    """returns (reproduced: bool, detail) — runs the REAL functions on the solver's witness"""
    import re
    w = v["witness"]
    syms = bytes(w[k] for k in sorted((k for k in w if k.startswith("b")), key=lambda s: int(s[1:])))
    if "max_len" in w:
        name = bytes.fromhex(v.get("fill", FILLER.hex())) + syms
        real = common.native(nat, "symbol", name.hex(), w["max_len"])
    else:
        name = syms
        real = common.native(nat, "symbol", name.hex() or "")
    bad = None
    other = None
    if "panic" in real:
        bad = "real function panics: " + real["panic"]
    elif "max_len" not in w:
        m = bytes.fromhex(real.get("mangled", ""))
        if real.get("demangled") != name.hex():
            bad = "demangle(mangle(%r)) = %s" % (name, real.get("demangled"))
        elif not py_well_formed(m):
            bad = "mangle(%r) = %r is not a well-formed symbol" % (name, m)
    else:
        s = bytes.fromhex(real.get("short", ""))
        m = bytes.fromhex(real.get("mangled", ""))
        ml = w["max_len"]
        if len(s) > ml:
            bad = "len(%r) > max_len %d" % (s, ml)
        elif len(m) <= ml and s != m:
            bad = "fits but changed: %r vs %r" % (s, m)
        elif len(m) > ml:
            if real.get("short_demangled") not in (None, "None"):
                # property level: a second, different name with the very same symbol
                t = bytes.fromhex(real["short_demangled"])
                other = common.native(nat, "symbol", t.hex(), ml)
                if t != name and other.get("short") == real.get("short"):
                    bad = "names %r and %r both get the symbol %r at max_len %d" % (name, t, s, ml)
            if bad is None and not (len(s) == ml and re.fullmatch(rb"_H[0-9A-F]{32}", s[-34:]) and m.startswith(s[:-34])):
                bad = "shortened symbol %r is not prefix + _H + 32 hex of %r" % (s, m)
    return bad is not None, {"name_hex": name.hex(), "max_len": w.get("max_len"), "real": real, "other_name": other,
                             "observed": bad}


def py_well_formed(m):
    import re
    return re.fullmatch(rb"dora_([A-Za-z0-9]|_[0-9A-F]{2})*", m) is not None


# ------------------------------------------------------------------------------------------

def main(tier):
    t0 = time.time()
    prog = load()
    nat = common.build_native()
    nval = validate_translator(prog, nat)
    lengths = list(range(0, 4)) if tier == "quick" else list(range(0, 6))
    shorts = [1, 2] if tier == "quick" else [1, 2, 3]
    bodies = make_bodies(prog, lengths, shorts)
    deadline = time.time() + (900 if tier == "quick" else 2400)       # exploration only: builds have their own limits
    # the two 128-bit multiplication lemmas take about a minute: decide them in a child process meanwhile
    import multiprocessing as mp
    q = mp.get_context("fork").Queue()

    def lemma_proc():
        try:
            lem, lem_vac, _ = fnv_lemmas(prog, tier)
            q.put(("ok", lem, lem_vac))
        except Inconclusive as e:
            q.put(("inconclusive", str(e), None))
    pr = mp.get_context("fork").Process(target=lemma_proc)
    pr.start()
    res = run_harnesses(bodies, depth=5, query_timeout_ms=60000, deadline=deadline)
    st, lem, lem_vac = q.get(timeout=3600)
    pr.join()
    if st != "ok":
        raise Inconclusive(lem)

    rep = common.Reporter(PID)
    obligations = discharged = 0
    paths = queries = 0
    stime = 0.0
    fns, models_used = set(), set()
    vac = {}
    samples = []
    per = {}
    for name, (out, st) in res.items():
        obligations += 1
        paths += out.paths
        queries += st["queries"]
        stime += st["solver_time"]
        fns |= out.__dict__.get("fns", set())
        models_used |= out.__dict__.get("models", set())
        for k in out.witness:
            vac[name.split("/")[0] + ":" + k] = True
        samples += out.samples[:2]
        per[name] = {"paths": out.paths, "assertion_queries": out.checks, "feasibility_queries": st["queries"],
                     "pruned_branches": st["pruned"], "solver_time_s": round(st["solver_time"], 2)}
        if out.paths == 0:
            raise Inconclusive("harness %s explored no path (vacuous)" % name)
        bad = False
        seen = set()
        for v in out.violations:
            key = "%s/%s" % (name.split("/")[0], v["what"].split(":")[0])
            if key in seen:
                continue
            seen.add(key)
            ok, detail = replay_witness(nat, v)
            if not ok:
                raise Inconclusive("counterexample of %s (%s) does not reproduce on the real function: %s" %
                                   (name, v["what"], json.dumps(detail)[:400]))
            rep.violation(key, v["what"] + " — " + str(detail["observed"]), detail)
            bad = True
        if not bad:
            discharged += 1
    for l in lem:
        obligations += 1
        if l["verdict"] == "unsat":
            discharged += 1
        else:
            rep.violation("fnv/" + l["name"], "FNV-1a step is not injective (%s): names differing in one byte can get the same hash suffix" % l["name"],
                          {"lemma": l})
    need = ["roundtrip:roundtrip-some", "roundtrip:escape-taken", "shorten:shortened", "shorten:unshortened",
            "shorten-prod:shortened", "shorten-prod:unshortened"]
    # (a reproduced violation is reported even if some witness is missing: exit 1 has priority over exit 2)
    for k in need:
        if not vac.get(k) and not rep.new:
            raise Inconclusive("vacuity witness missing: " + k)
    for k, v in lem_vac.items():
        if not v and not rep.new:
            raise Inconclusive("vacuity witness missing: " + k)
        vac[k] = bool(v)

    cov = {
        "obligations": obligations, "discharged": discharged,
        "checker_cmd": "./check C19 --tier " + tier,
        "trusted_base": ["rustc -Zunpretty=mir dump reflects the compiled functions", "vsym MIR interpreter + std models (validated on %d concrete runs against the real functions)" % nval,
                         "z3 %s (cvc5 second opinion on the FNV lemmas)" % z3.get_version_string(), "UTF-8 validity formula (Unicode table 3-7)"],
        "functions_encoded": sorted(fns),
        "std_models_used": sorted(models_used),
        "bounds": {"roundtrip_name_bytes": lengths, "shorten": "30 concrete alphanumeric bytes + %s symbolic bytes, max_len symbolic in 34..46 (values refused by the entry assertion count as refusals); production limit AOT_SYMBOL_MAX_LEN=%d with a concrete filler + %s symbolic bytes straddling the limit" % (shorts, production_max_len(), shorts[:2]),
                   "fnv": "one loop iteration of fnv1a_128 from a symbolic 128-bit state, symbolic byte"},
        "paths": paths, "queries": queries, "solver_time_s": round(stime, 2), "per_harness": per,
        "lemmas": lem, "vacuity_witnesses": sorted(vac), "translator_validation_runs": nval,
        "samples": samples[:8] + [l for l in lem],
        "outside_the_claim": ["names longer than the bound", "collision freedom of the 128-bit hash for arbitrary pairs (only single-byte differences at equal length are covered by the step lemmas)",
                              "symbol sets of whole compiled programs (aot_compile.rs, native_lookup.rs)", "max_len outside 34..46"],
    }
    assumptions = ["input names are valid UTF-8 (they are &str)", "usize is 64 bit", "String/Vec modelled as concrete-length sequences of symbolic bytes",
                   "format! modelled from the fmt::Arguments template encoding of the installed nightly core library"]
    common.write_evidence(PID, tier, "proof", cov, assumptions, time.time() - t0, len(rep.new))
    return rep.exit_code()


def replay(path):
    d = json.load(open(path))
    nat = common.build_native()
    r = d["replay"]
    if "name_hex" not in r:
        print(json.dumps(r, indent=1))
        return 0
    args = ["symbol", r["name_hex"]] + ([r["max_len"]] if r.get("max_len") else [])
    print(json.dumps(common.native(nat, *args), indent=1))
    return 0
