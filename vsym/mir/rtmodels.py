"""Models needed by the bmc checks over dora-runtime code: bounded vectors of thread handles,
Arc<DoraThread>, pointer identity, Into/TryInto dispatch to the crate's own From impls."""
import re

import z3

from ..common import Inconclusive
from .interp import Adt, Cell, Int, Opaque, Panic, Ref, Tup, UNIT, get_path, set_path, canon_callee
from .models import deref, write_ref, some, NONE

RTMODELS = []


def rmodel(pat):
    def deco(fn):
        RTMODELS.append((re.compile(pat), fn))
        return fn
    return deco


# ------------------------------------------------------------------------------------------
# Arc<DoraThread> = Tup(name="ArcThread", (id,)), thread objects are roots "thr<id>"

def bounded(ctx, iv, hi, what):
    """value of a symbolic integer known (by an invariant that is itself checked) to be < hi"""
    if iv.conc() is None and not ctx.branch(z3.ULT(iv.t, z3.BitVecVal(hi, iv.w))):
        raise Panic("RANGE: %s out of range (>= %d)" % (what, hi), "model")
    return ctx.concretize(iv, 0, hi, what)


def mk_arc(i):
    return Tup((Int(i, "u8") if isinstance(i, int) else i,), name="ArcThread")


def thread_ref(it, ctx, arc):
    a = deref(arc) if isinstance(arc, Ref) else arc
    if isinstance(a, Ref):
        return a
    if not (isinstance(a, Tup) and a.name == "ArcThread"):
        raise Inconclusive("not a thread handle: %r" % (a,))
    i = bounded(ctx, a.fields[0], it.system.T, "thread handle")
    return Ref(it.system.roots["thr%d" % i])


@rmodel(r"<Arc<DoraThread> as (std::ops::|core::ops::)?Deref>::deref|<Arc<DoraThread> as AsRef<DoraThread>>::as_ref|Arc::as_ptr|"
        r"Arc::<DoraThread>::as_ptr")
def r_arc_deref(it, ctx, callee, args):
    return thread_ref(it, ctx, args[0])


@rmodel(r"<Arc<DoraThread> as Clone>::clone")
def r_arc_clone(it, ctx, callee, args):
    return deref(args[0])


# ------------------------------------------------------------------------------------------
# BVec: Tup(name="BVec", (len: usize, Tup(slots)))

def bvec(v):
    r = v
    while isinstance(r, Ref):
        x = get_path(r.cell.v, r.path)
        if isinstance(x, Tup) and x.name == "BVec":
            return r
        r = x
    raise Inconclusive("not a bounded vector: %r" % (v,))


def is_bvec(v):
    try:
        bvec(v)
        return True
    except Inconclusive:
        return False


def bv_len(r):
    return get_path(r.cell.v, r.path + (0,))


def bv_cap(r):
    return len(get_path(r.cell.v, r.path + (1,)).fields)


def slot_ref(r, i):
    return Ref(r.cell, r.path + (1, i))


VEC = r"(Vec|alloc::vec::Vec)"


def guarded(fn):
    """BVec models shadow the generic Vec/slice models only when the receiver is a BVec"""
    return fn


@rmodel(r"Vec::len|core::slice::<impl \[Arc<DoraThread>\]>::len")
def r_len(it, ctx, callee, args):
    if not is_bvec(args[0]):
        from . import models as M
        return M.m_len(it, ctx, callee, args)
    return bv_len(bvec(args[0]))


@rmodel(r"Vec::is_empty|core::slice::<impl \[Arc<DoraThread>\]>::is_empty")
def r_is_empty(it, ctx, callee, args):
    if not is_bvec(args[0]):
        from . import models as M
        return M.m_is_empty(it, ctx, callee, args)
    return bv_len(bvec(args[0])).t == 0


@rmodel(r"<Vec<Arc<DoraThread>> as (std::ops::|core::ops::)?Deref(Mut)?>::deref(_mut)?")
def r_vec_deref(it, ctx, callee, args):
    return bvec(args[0])


@rmodel(r"Vec::push")
def r_push(it, ctx, callee, args):
    if not is_bvec(args[0]):
        from . import models as M
        return M.m_vec_push(it, ctx, callee, args)
    r = bvec(args[0])
    n = bv_len(r)
    cap = bv_cap(r)
    i = bounded(ctx, n, cap + 1, "vector length")
    if i >= cap:
        raise Inconclusive("bounded vector overflow (capacity %d)" % cap)
    write_ref(slot_ref(r, i), args[1])
    write_ref(Ref(r.cell, r.path + (0,)), Int(i + 1, "usize"))
    return UNIT


@rmodel(r"Vec::pop")
def r_pop(it, ctx, callee, args):
    if not is_bvec(args[0]):
        from . import models as M
        return M.m_vec_pop(it, ctx, callee, args)
    r = bvec(args[0])
    n = bv_len(r)
    i = bounded(ctx, n, bv_cap(r) + 1, "vector length")
    if i == 0:
        return NONE
    write_ref(Ref(r.cell, r.path + (0,)), Int(i - 1, "usize"))
    return some(get_path(r.cell.v, r.path + (1, i - 1)))


@rmodel(r"<Vec<Arc<DoraThread>> as (std::ops::|core::ops::)?Index(Mut)?<usize>>::index(_mut)?")
def r_index(it, ctx, callee, args):
    r = bvec(args[0])
    n = bv_len(r)
    idx = args[1]
    if not ctx.branch(z3.ULT(idx.t, n.t)):
        raise Panic("panic: index out of bounds: thread list")
    i = bounded(ctx, idx, bv_cap(r), "vector index")
    return slot_ref(r, i)


@rmodel(r"core::slice::<impl \[Arc<DoraThread>\]>::first")
def r_first(it, ctx, callee, args):
    r = bvec(args[0])
    if ctx.branch(bv_len(r).t == 0):
        return NONE
    return some(slot_ref(r, 0))


@rmodel(r"core::slice::<impl \[Arc<DoraThread>\]>::iter|<&\[Arc<DoraThread>\] as IntoIterator>::into_iter")
def r_iter(it, ctx, callee, args):
    return Tup((bvec(args[0]), Int(0, "usize")), name="Iter:bvec")


@rmodel(r"<std::slice::Iter<Arc<DoraThread>> as IntoIterator>::into_iter")
def r_iter_id(it, ctx, callee, args):
    return args[0]


@rmodel(r"<std::slice::Iter<Arc<DoraThread>> as Iterator>::next")
def r_iter_next(it, ctx, callee, args):
    st = deref(args[0])
    r, pos = st.fields
    p = pos.conc()
    if p >= bv_cap(r) or not ctx.branch(z3.UGT(bv_len(r).t, p)):
        return NONE
    write_ref(args[0], Tup((r, Int(p + 1, "usize")), name="Iter:bvec"))
    return some(slot_ref(r, p))


@rmodel(r"<I as Iterator>::next")
def r_generic_next(it, ctx, callee, args):
    """`it.next()` inside the re-implemented adaptors (drivers/src/adaptors.rs): dispatch on the iterator value"""
    st = deref(args[0])
    if isinstance(st, Tup) and st.name == "Iter:bvec":
        return r_iter_next(it, ctx, callee, args)
    if isinstance(st, Tup) and st.name and st.name.startswith("Iter:"):
        from . import models as M
        return M.m_iter_next(it, ctx, callee, args)
    if isinstance(st, Tup) and st.name and st.name.split("::")[-1].startswith("DrvFilter"):
        from .interp import TailCall, FnItem
        return TailCall(FnItem("drv_filter_next"), [args[0]])
    if isinstance(st, Tup) and st.name and st.name.split("::")[-1].startswith("DrvMap"):
        from .interp import TailCall, FnItem
        return TailCall(FnItem("drv_map_next"), [args[0]])
    raise Inconclusive("next() of %r" % (st,))


@rmodel(r"<std::slice::Iter<Arc<DoraThread>> as Iterator>::any-python-version-disabled")
def r_iter_any(it, ctx, callee, args):
    st = deref(args[0])
    r, pos = st.fields
    p = pos.conc()
    res = z3.BoolVal(False)
    while p < bv_cap(r) and ctx.branch(z3.UGT(bv_len(r).t, p)):
        b = it.call_value(ctx, args[1], [slot_ref(r, p)])
        if ctx.branch(b):
            return z3.BoolVal(True)
        p += 1
    return res


# ------------------------------------------------------------------------------------------
# conversions dispatching to the crate's From impls

def find_conversion(it, last, src, dst):
    """the crate's own `impl From<src> for dst` / `impl TryFrom<src> for dst` body (also when generated by a derive)"""
    hits = []
    for pr in it.progs:
        for f in pr.by_last.get(last, []):
            if len(f.params) == 1 and f.params[0][1].split("::")[-1] == src.split("::")[-1]:
                r = f.ret
                if last == "try_from":
                    ok = re.match(r"^(std::result::)?Result<(\w+::)*%s\b" % re.escape(dst.split("::")[-1]), r) is not None
                else:
                    ok = r.split("::")[-1] == dst.split("::")[-1]
                if ok:
                    hits.append(f)
    if len(hits) == 1:
        return hits[0]
    return None


@rmodel(r"<(?P<a>[\w:]+) as (core::convert::)?Into<(?P<b>[\w:]+)>>::into")
def r_into(it, ctx, callee, args):
    m = re.match(r"<([\w:]+) as (?:core::convert::)?Into<([\w:]+)>>::into", canon_callee(callee))
    a, b = m.group(1), m.group(2)
    f = find_conversion(it, "from", a, b)
    if f is not None:
        return it.run_fn(ctx, f, args)
    return it.call(ctx, "<%s as From<%s>>::from" % (b, a), args)


@rmodel(r"<(?P<a>[\w:]+) as (core::convert::)?TryInto<(?P<b>[\w:]+)>>::try_into|<(?P<c>[\w:]+) as (core::convert::)?TryFrom<(?P<d>[\w:]+)>>::try_from")
def r_try_into(it, ctx, callee, args):
    c = canon_callee(callee)
    m = re.match(r"<([\w:]+) as (?:core::convert::)?TryInto<([\w:]+)>>::try_into", c)
    if m:
        a, b = m.group(1), m.group(2)
    else:
        m = re.match(r"<([\w:]+) as (?:core::convert::)?TryFrom<([\w:]+)>>::try_from", c)
        b, a = m.group(1), m.group(2)
    f = find_conversion(it, "try_from", a, b)
    if f is not None:
        return it.run_fn(ctx, f, args)
    from . import models as M
    if a in M.INT_W and b in M.INT_W:
        return M.m_try_from(it, ctx, "<%s as TryFrom<%s>>::try_from" % (b, a), args)
    raise Inconclusive("no conversion %s -> %s" % (a, b))


@rmodel(r"std::ptr::const_ptr::<impl \*const \w+>::is_null|std::ptr::mut_ptr::<impl \*mut \w+>::is_null")
def r_is_null(it, ctx, callee, args):
    return z3.BoolVal(not isinstance(args[0], Ref))


@rmodel(r"(num_enum::)?TryFromPrimitiveError::new")
def r_tfpe_new(it, ctx, callee, args):
    return Opaque("TryFromPrimitiveError")
