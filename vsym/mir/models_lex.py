"""std models for the lexer of dora-parser (C06/C16), in addition to models.py and models_text.py.
Own list MODELS_LEX — pass `MODELS_LEX + MODELS_TEXT + models.MODELS` to the interpreter (first match wins).

Contracts:

* `HashMap::<&str, V>::{new, with_capacity, insert, get}`: a finite map with *concrete* keys (insertion of a
  non-concrete key is inconclusive).  `get(key)` on a key with symbolic bytes (concrete length) forks over
  the entries of that byte length: byte-wise equality with the first such entry, the second, …, else `None`.
  Keys are distinct, so at most one entry can match and the order of the forks is irrelevant.  Hashing,
  capacity and iteration order are not modelled (the lexer uses none of them).
* `<E as PartialOrd>::{lt,le,gt,ge}` for field-less enums (`#[derive(PartialOrd)]`): order of the discriminants.
* `char::is_digit(radix)`: exact (core: `to_digit(radix).is_some()`): '0'..'9' with value < radix, and for
  radix > 10 the letters a.. / A.. with value < radix; panics for radix < 2 or > 36 like core does.
* `char::is_whitespace`: exact, the Unicode `White_Space` set (fixed since Unicode 6.3, 25 code points):
  U+0009..U+000D, U+0020, U+0085, U+00A0, U+1680, U+2000..U+200A, U+2028, U+2029, U+202F, U+205F, U+3000.
* `char::is_alphabetic / is_alphanumeric / is_numeric / is_lowercase / is_uppercase / is_control`: backed by
  Unicode tables: **uninterpreted predicates** of the code point (one z3 function per predicate, the same
  everywhere), exact on ASCII.  The properties checked do not depend on which non-ASCII characters are letters.
  (The lexer of the unchanged tree uses none of them; they exist so that an edit that starts using one does
  not make the check inconclusive.)
* `char::is_ascii_*`, `char::is_ascii`: exact ASCII ranges.
* `str::contains::<char>`: disjunction over the characters of the haystack (concrete haystack: its characters; ASCII needle:
  byte-wise, exact for well-formed UTF-8; otherwise the haystack is decoded character by character).
* `<String|str as Index<RangeFull>>::index`: the whole string as `&str`.
* `<Vec<T> as DerefMut>::deref_mut`: the mutable slice is the reference to the vector itself.
* `Vec::last_mut` / `<[T]>::last_mut`: `None` for an empty vector, else a reference to the last slot.
* lazily shaped vectors (`lazy_vec`): see the section below; every `Vec` model first decides the shape.
* `char::len_utf8` (override of the models_text one): when the character was produced by the `Chars` model
  on this path from a lead byte whose width class has already been decided, the width is that class — which
  is what `len_utf8` returns for every scalar value of a well-formed sequence of that width; the model
  *checks* this against the scalar ranges with a solver query instead of assuming it (a mismatch — i.e. an
  ill-formed text got in — is inconclusive).  Otherwise it forks on the scalar ranges like the models_text one.
"""
import re

import z3

from ..common import Inconclusive
from .interp import Adt, Cell, Int, Opaque, Panic, Ref, Slice, Tup, UNIT, VecV, get_path
from .models import NONE, ascii_class, deref, elems_of, some, usize, write_ref
from . import models_text as MT

MODELS_LEX = []


def model(pat):
    def deco(fn):
        MODELS_LEX.append((re.compile(pat), fn))
        return fn
    return deco


# ------------------------------------------------------------------------------------------
# HashMap with concrete keys

def _conc_bytes(v, what):
    el = elems_of(v)
    out = []
    for e in el:
        c = e.conc()
        if c is None:
            raise Inconclusive("%s: key with symbolic bytes" % what)
        out.append(c)
    return bytes(out)


def _map(v):
    m = deref(v)
    if not (isinstance(m, Opaque) and m.what == "hashmap"):
        raise Inconclusive("HashMap state %r" % (m,))
    return m


@model(r"(std::collections::)?HashMap::(new|with_capacity)")
def m_hashmap_new(it, ctx, callee, args):
    return Opaque("hashmap", ())


@model(r"(std::collections::)?HashMap::insert")
def m_hashmap_insert(it, ctx, callee, args):
    m = _map(args[0])
    key = _conc_bytes(args[1], "HashMap::insert")
    old = NONE
    ents = []
    for k, v in m.payload:
        if k == key:
            old = some(v)
        else:
            ents.append((k, v))
    ents.append((key, args[2]))
    write_ref(args[0], Opaque("hashmap", tuple(ents)))
    return old


@model(r"(std::collections::)?HashMap::(get|contains_key)")
def m_hashmap_get(it, ctx, callee, args):
    m = _map(args[0])
    key = elems_of(args[1])
    want_bool = canon_tail(callee) == "contains_key"
    for k, v in m.payload:
        if len(k) != len(key):
            continue
        eq = z3.And(*[e.t == z3.BitVecVal(b, 8) for e, b in zip(key, k)]) if k else z3.BoolVal(True)
        if ctx.branch(eq):
            return z3.BoolVal(True) if want_bool else some(Ref(Cell(v, "hashmap-value")))
    return z3.BoolVal(False) if want_bool else NONE


def canon_tail(callee):
    c = re.sub(r"::<.*?>$", "", callee.strip())
    return c.split("::")[-1]


# ------------------------------------------------------------------------------------------
# derived ordering of field-less enums

@model(r"<[\w:]+ as (core::cmp::|std::cmp::)?PartialOrd>::(lt|le|gt|ge)")
def m_enum_ord(it, ctx, callee, args):
    a, b = deref(args[0]), deref(args[1])
    op = callee.strip().rsplit("::", 1)[1]
    if isinstance(a, Int) and isinstance(b, Int):
        x, y, s = a.t, b.t, a.ty.startswith("i")
        r = {"lt": (x < y) if s else z3.ULT(x, y), "le": (x <= y) if s else z3.ULE(x, y),
             "gt": (x > y) if s else z3.UGT(x, y), "ge": (x >= y) if s else z3.UGE(x, y)}[op]
        return r
    if not (isinstance(a, Adt) and isinstance(b, Adt)) or a.fields or b.fields:
        raise Inconclusive("ordering of %r and %r" % (a, b))
    da, db = it.discriminant(a).conc(), it.discriminant(b).conc()
    r = {"lt": da < db, "le": da <= db, "gt": da > db, "ge": da >= db}[op]
    return z3.BoolVal(r)


# ------------------------------------------------------------------------------------------
# character classes

def _rng(c, lo, hi):
    return z3.And(z3.UGE(c, z3.BitVecVal(lo, 32)), z3.ULE(c, z3.BitVecVal(hi, 32)))


def is_digit_term(c, radix):
    if radix < 2 or radix > 36:
        raise Panic("panic: to_digit: invalid radix -- radix must be in the range 2 to 36 inclusive")
    if radix <= 10:
        return _rng(c, 0x30, 0x30 + radix - 1)
    return z3.Or(_rng(c, 0x30, 0x39), _rng(c, 0x61, 0x61 + radix - 11), _rng(c, 0x41, 0x41 + radix - 11))


@model(r"(core::)?char::methods::<impl char>::is_digit")
def m_is_digit(it, ctx, callee, args):
    c, radix = deref(args[0]), args[1]
    r = radix.conc()
    if r is None:
        r = ctx.concretize(radix, 0, 38, "radix")
    return is_digit_term(c.t, r)


WHITE_SPACE = [(0x09, 0x0D), (0x20, 0x20), (0x85, 0x85), (0xA0, 0xA0), (0x1680, 0x1680), (0x2000, 0x200A), (0x2028, 0x2029),
               (0x202F, 0x202F), (0x205F, 0x205F), (0x3000, 0x3000)]


def is_whitespace_term(c):
    return z3.Or(*[(_rng(c, lo, hi) if lo != hi else c == z3.BitVecVal(lo, 32)) for lo, hi in WHITE_SPACE])


@model(r"(core::)?char::methods::<impl char>::is_whitespace")
def m_is_whitespace(it, ctx, callee, args):
    return is_whitespace_term(deref(args[0]).t)


_UNINT = {}


def unicode_pred(name):
    if name not in _UNINT:
        _UNINT[name] = z3.Function("unicode_" + name, z3.BitVecSort(32), z3.BoolSort())
    return _UNINT[name]


_ASCII_EXACT = {
    "is_alphabetic": lambda c: z3.Or(_rng(c, 0x41, 0x5A), _rng(c, 0x61, 0x7A)),
    "is_alphanumeric": lambda c: z3.Or(_rng(c, 0x30, 0x39), _rng(c, 0x41, 0x5A), _rng(c, 0x61, 0x7A)),
    "is_numeric": lambda c: _rng(c, 0x30, 0x39),
    "is_lowercase": lambda c: _rng(c, 0x61, 0x7A),
    "is_uppercase": lambda c: _rng(c, 0x41, 0x5A),
    "is_control": lambda c: z3.Or(_rng(c, 0x00, 0x1F), c == z3.BitVecVal(0x7F, 32)),
}


@model(r"(core::)?char::methods::<impl char>::(is_alphabetic|is_alphanumeric|is_numeric|is_lowercase|is_uppercase|is_control)")
def m_unicode_class(it, ctx, callee, args):
    c = deref(args[0]).t
    name = callee.strip().rsplit("::", 1)[1]
    return z3.If(z3.ULT(c, z3.BitVecVal(0x80, 32)), _ASCII_EXACT[name](c), unicode_pred(name)(c))


@model(r"(core::)?char::methods::<impl char>::is_ascii(_digit|_alphabetic|_alphanumeric|_uppercase|_lowercase|_hexdigit|_whitespace|_punctuation)?")
def m_char_is_ascii(it, ctx, callee, args):
    c = deref(args[0]).t
    k = re.search(r"is_ascii(_\w+)?$", callee.strip()).group(1)
    return ascii_class(c, k, 32)


@model(r"core::str::<impl str>::contains")
def m_str_contains_char(it, ctx, callee, args):
    needle = deref(args[1])
    if not (isinstance(needle, Int) and needle.ty == "char"):
        raise Inconclusive("str::contains with a pattern that is not a char: %r" % (needle,))
    el = elems_of(args[0])
    if not el:
        return z3.BoolVal(False)
    if all(e.conc() is not None for e in el):
        hay = bytes(e.conc() for e in el).decode("utf-8")
        return z3.Or(*[needle.t == z3.BitVecVal(ord(h), 32) for h in hay])
    nc = needle.conc()
    if nc is not None and nc < 0x80:
        # an ASCII byte never occurs inside a multi-byte sequence of well-formed UTF-8
        return z3.Or(*[e.t == z3.BitVecVal(nc, 8) for e in el])
    # general case: walk the characters of the haystack (forks on the width classes)
    alts, p = [], 0
    while p < len(el):
        ch, w = MT.decode_at(ctx, el, p)
        alts.append(ch.t == needle.t)
        p += w
    return z3.Or(*alts)


# ------------------------------------------------------------------------------------------
# &s[..]  (the argument prints as the unit struct constant `RangeFull`, which the generic range model does not take)

@model(r"<(String|str) as (std::ops::|core::ops::)?Index<(std::ops::|core::ops::)?RangeFull>>::index")
def m_index_full(it, ctx, callee, args):
    return Slice(elems_of(args[0]), "str")


# ------------------------------------------------------------------------------------------
# Vec / slice

def tail_model(pat):
    def deco(fn):
        MODELS_LEX_TAIL.append((re.compile(pat), fn))
        return fn
    return deco


MODELS_LEX_TAIL = []


@tail_model(r"<Vec<.*> as (std::ops::|core::ops::)?DerefMut>::deref_mut|Vec::as_mut_slice")
def m_vec_deref_mut(it, ctx, callee, args):
    # `&mut [T]` is represented by the reference to the vector itself (writes go through to its slots)
    if not isinstance(args[0], Ref):
        raise Inconclusive("deref_mut through %r" % (args[0],))
    return args[0]


@model(r"core::slice::<impl \[.*\]>::last_mut")
@tail_model(r"Vec::last_mut|core::slice::<impl \[.*\]>::last_mut")
def m_last_mut(it, ctx, callee, args):
    r = args[0]
    if not isinstance(r, Ref):
        raise Inconclusive("last_mut through %r" % (r,))
    v = get_path(r.cell.v, r.path)
    while isinstance(v, Ref):
        r = v
        v = get_path(r.cell.v, r.path)
    if not isinstance(v, VecV):
        raise Inconclusive("last_mut of %r" % (v,))
    if not v.elems:
        return NONE
    return some(Ref(r.cell, r.path + (len(v.elems) - 1,)))


# ------------------------------------------------------------------------------------------
# characters: Chars::next that remembers the width class of what it produced, len_utf8 that uses it

def _remember(ctx, ch, w):
    # the term is stored with the width so that it stays alive and its id cannot be reused on this path
    MT._memo(ctx)[("cw", ch.t.get_id())] = (w, ch.t)


_WIDTH_RANGE = {1: (0x00, 0x7F), 2: (0x80, 0x7FF), 3: (0x800, 0xFFFF), 4: (0x10000, 0x10FFFF)}


@model(r"<(std::str::|core::str::)?Chars as Iterator>::next")
def m_chars_next(it, ctx, callee, args):
    st = deref(args[0])
    if not (isinstance(st, Tup) and st.name == "Iter:chars"):
        raise Inconclusive("Chars state %r" % (st,))
    seq, pos = st.fields
    p = pos.conc()
    if p >= len(seq.elems):
        return NONE
    ch, w = MT.decode_at(ctx, seq.elems, p)
    _remember(ctx, ch, w)
    write_ref(args[0], Tup((seq, usize(p + w)), name="Iter:chars"))
    return some(ch)


@model(r"(core::)?char::methods::<impl char>::len_utf8")
def m_len_utf8(it, ctx, callee, args):
    c = deref(args[0])
    memo = MT._memo(ctx)
    w = memo.get(("cw", c.t.get_id()), (None,))[0]
    if w is not None:
        # a decision (not a `can` query): decisions are replayed without the solver on re-execution
        lo, hi = _WIDTH_RANGE[w]
        if ctx.branch(_rng(c.t, lo, hi)):
            return usize(w)
        raise Inconclusive("a %d byte sequence decodes to a scalar value outside U+%04X..U+%04X "
                           "(the &str invariant does not hold)" % (w, lo, hi))
    return MT.m_len_utf8(it, ctx, callee, args)


# ------------------------------------------------------------------------------------------
# lazily shaped vectors (used by the step harness of C06/C16 for `Lexer::open_braces`)
#
# A harness that starts the real code in an *arbitrary* state satisfying an invariant wants "a vector of 0, 1 or 2
# symbolic elements".  Forking over the shape up-front would multiply every path by the number of shapes although
# most paths never touch the vector; a lazy vector forks over its shape at the first access instead.

def lazy_vec(sel, variants):
    """sel: Int (symbolic selector, constrained by the harness to 0..len(variants)-1); variants[k]: the VecV the
    vector is when sel == k"""
    return Opaque("lazyvec", (sel, tuple(variants)))


def is_lazy(v):
    return isinstance(v, Opaque) and v.what == "lazyvec"


def materialise(ctx, ref):
    """decides the shape of the lazy vector `ref` points to (forks), replacing it in place; no-op otherwise"""
    r = ref
    if not isinstance(r, Ref):
        return
    v = get_path(r.cell.v, r.path)
    while isinstance(v, Ref):
        r = v
        v = get_path(r.cell.v, r.path)
    if is_lazy(v):
        sel, variants = v.payload
        k = ctx.concretize(sel, 0, len(variants), "shape of a lazy vector")
        MT._memo(ctx)["lazy-shape"] = k       # for the harness (vacuity witnesses)
        write_ref(r, variants[k])


_BASE_CACHE = {}


def _base_model(callee):
    if callee in _BASE_CACHE:
        return _BASE_CACHE[callee]
    from .interp import canon_callee
    from . import models as M0
    key = canon_callee(callee)
    for pat, fn in MODELS_LEX_TAIL + MT.MODELS_TEXT + M0.MODELS:
        if pat.fullmatch(key):
            _BASE_CACHE[callee] = fn
            return fn
    raise Inconclusive("no base model for " + callee)


@model(r"Vec::(push|pop|len|is_empty|last|last_mut|clear|iter|as_slice)|<Vec<.*> as (std::ops::|core::ops::)?(Deref|DerefMut)>::(deref|deref_mut)")
def m_vec_maybe_lazy(it, ctx, callee, args):
    materialise(ctx, args[0])
    return _base_model(callee)(it, ctx, callee, args)


# ------------------------------------------------------------------------------------------

class LexInterp(MT.TextInterp):
    """TextInterp + resolution of promoted constants of methods of types with a lifetime parameter: the
    dump refers to them as `lexer::Lexer::<'_>::m::promoted[i]` and defines them as
    `lexer::<impl at …>::m::promoted[i]` (normalised to `Lexer::m::promoted[i]`)."""

    def __init__(self, prog, models, extra_progs=()):
        MT.TextInterp.__init__(self, prog, models, extra_progs)
        self._fn_cache, self._closure_cache, self._lit_cache = {}, {}, {}

    def lookup_const(self, fr, name):
        n2 = re.sub(r"::<'[\w_]+(, *'[\w_]+)*>", "", name)
        return MT.TextInterp.lookup_const(self, fr, n2)

    # pure caches (the program is immutable; string literal values are immutable Slices)
    def find_fn(self, name, nargs):
        k = (name, nargs)
        if k not in self._fn_cache:
            self._fn_cache[k] = MT.TextInterp.find_fn(self, name, nargs)
        return self._fn_cache[k]

    def closure_body(self, cname):
        if cname not in self._closure_cache:
            self._closure_cache[cname] = MT.TextInterp.closure_body(self, cname)
        return self._closure_cache[cname]

    def aggregate(self, ctx, fr, rv, dest=None):
        # struct-like enum variants (`Event::Open { kinds: … }`) print like structs: build the enum value
        _, kind, name, fields = rv
        if kind == "struct":
            from . import parse as P0
            from .interp import enum_base
            parts = P0.split_path(P0.strip_generics(name))
            if len(parts) >= 2:
                base = enum_base("::".join(parts[:-1]))
                if base in self.enum_discr and parts[-1] in self.enum_discr[base]:
                    return Adt(base, parts[-1], [self.operand(ctx, fr, f[1]) for f in fields])
        return MT.TextInterp.aggregate(self, ctx, fr, rv, dest)

    def const(self, ctx, fr, text, ty_hint=None):
        t = text.strip()
        if t[:1] == '"':
            v = self._lit_cache.get(t)
            if v is None:
                v = self._lit_cache[t] = MT.TextInterp.const(self, ctx, fr, text, ty_hint)
            return v
        return MT.TextInterp.const(self, ctx, fr, text, ty_hint)
