"""Parser of the assembly file written by `dora compile -S`.

What is read: per function (label in .text up to `.Ldora_aot_function_end_N`) its size in
bytes, the inner labels (`.L<fn>_offset_<n>`), the `.reloc fn+off, TYPE, target +- addend`
lines; per label in a data section the directives that follow it (jump tables, shapes,
location quads)."""
import hashlib
import re

from ..common import Inconclusive

_RELOC = re.compile(r"^\s*\.reloc\s+([^\s,+]+)\s*\+\s*(\d+)\s*,\s*(\w+)\s*,\s*(\S+?)\s*(?:([+-])\s*(\d+))?\s*$")
_LABEL = re.compile(r"^([.\w$]+):\s*$")
_SECTION = re.compile(r"^\s*\.section\s+([^\s,]+)")


class Func:
    def __init__(self, name):
        self.name = name
        self.size = 0
        self.labels = {}      # inner label -> offset
        self.relocs = {}      # offset of the relocated field -> (type, target, addend)
        self.bytes = bytearray()
        self.textual = False

    def reloc_in(self, lo, hi):
        """relocation whose field starts inside [lo, hi) or None"""
        for off in range(lo, hi):
            r = self.relocs.get(off)
            if r is not None:
                return off, r
        return None


class AsmFile:
    def __init__(self, path):
        self.path = path
        self.funcs = {}
        self.data = {}        # data label -> list of (directive, operand string)
        self.data_section = {}  # data label -> section
        self.code_labels = {}  # inner code label -> (func, offset)
        self.sections = {}     # data section -> [(directive, operand)] in file order (metadata tables)
        self._parse()

    def _parse(self):
        section = ".text"
        cur = None            # current function
        dlabels = []          # labels currently collecting data (several labels may alias)
        for raw in open(self.path):
            line = raw.rstrip("\n")
            s = line.strip()
            if not s or s.startswith("#") or s.startswith("//"):
                continue
            if s == ".text":
                section = ".text"
                dlabels = []
                continue
            if s in (".data", ".bss", ".rodata"):
                section = s
                dlabels = []
                continue
            m = _SECTION.match(line)
            if m:
                section = m.group(1)
                self.sections.setdefault(section, [])
                dlabels = []
                continue
            m = _LABEL.match(s)
            if m and not line[0].isspace():
                name = m.group(1)
                if section == ".text":
                    if name.startswith(".Ldora_aot_function_end_"):
                        cur = None
                    elif name.startswith(".L"):
                        if cur is None:
                            raise Inconclusive("asm parser: inner label %s outside a function" % name)
                        cur.labels[name] = cur.size
                        self.code_labels[name] = (cur.name, cur.size)
                    else:
                        cur = Func(name)
                        if name in self.funcs:
                            raise Inconclusive("asm parser: duplicate function label " + name)
                        self.funcs[name] = cur
                else:
                    if dlabels and not self.data[dlabels[-1]]:
                        dlabels.append(name)       # alias: several labels, same position
                    else:
                        dlabels = [name]
                    self.data[name] = []
                    self.data_section[name] = section
                continue
            if s.startswith(".globl") or s.startswith(".p2align") or s.startswith(".type") or s.startswith(".size"):
                continue
            if section == ".text":
                if s.startswith(".byte"):
                    if cur is None:
                        raise Inconclusive("asm parser: .byte outside a function")
                    vals = [int(x, 0) for x in s[5:].split(",") if x.strip()]
                    cur.bytes.extend(vals)
                    cur.size += len(vals)
                    continue
                m = _RELOC.match(line)
                if m:
                    fn, off, ty, target, sign, add = m.groups()
                    addend = int(add) if add else 0
                    if sign == "-":
                        addend = -addend
                    f = self.funcs.get(fn)
                    if f is None:
                        raise Inconclusive("asm parser: reloc for unknown function " + fn)
                    f.relocs[int(off)] = (ty, target, addend)
                    continue
                if cur is not None and not s.startswith("."):
                    cur.textual = True         # hand-written entry stub (`main`): not liftable
                    continue
                raise Inconclusive("asm parser: unexpected line in .text: " + s[:80])
            else:
                parts = s.split(None, 1)
                d = parts[0]
                arg = parts[1].strip() if len(parts) > 1 else ""
                for l in dlabels:
                    self.data[l].append((d, arg))
                self.sections.setdefault(section, []).append((d, arg))

    # ---------------------------------------------------------------------------------
    def jump_table(self, label):
        """list of (func, offset) targets of a `.dora.jump_tables` table"""
        ent = self.data.get(label)
        if ent is None:
            return None
        out = []
        for d, arg in ent:
            if d != ".quad":
                return None
            t = self.code_labels.get(arg)
            if t is None:
                return None
            out.append(t)
        return out

    def content_id(self, label):
        """identity of a data object by content (used for shapes, so that both back ends name
        the same shape the same way even if numbering differed)"""
        ent = self.data.get(label)
        if ent is None:
            return None
        out = []
        for d, arg in ent:
            out.append(d + " " + arg)
        return hashlib.sha1("\n".join(out).encode()).hexdigest()[:10]

    def longs(self, label):
        return [int(arg, 0) for d, arg in self.data.get(label, []) if d == ".long"]
