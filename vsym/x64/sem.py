"""Instruction semantics and path explorer for the code emitted by dora's two x86-64 back ends.

State: 16 general registers (BV64), xmm0-15 (low 64-bit lane only, BV64), lazily evaluated
flags, three memory regions:
  * stack   - cells keyed by the *concrete* offset from the initial rsp (RSP0)
  * tld     - the thread-local block addressed through r15, keyed by concrete offset
  * heap    - everything else, a z3 Array BV64 -> BV8 (little endian)
The regions are assumed disjoint (recorded assumption).  An access whose address mentions
RSP0/r15 but is not `base + constant` is Unsupported.

Exploration: depth first, forking at a conditional branch only when both sides are
satisfiable under the path condition; calls to functions whose body is in the same `.s` are
descended into; calls to the trap trampoline end the path; other runtime entries need a model
(Env.call_models) else the kernel is Unsupported (=> inconclusive, never a violation)."""
import time

import z3

from ..common import Inconclusive


class Unsupported(Exception):
    """construct outside the lifter's subset: the kernel is inconclusive"""


BV = z3.BitVecVal
GPR = ["rax", "rcx", "rdx", "rbx", "rsp", "rbp", "rsi", "rdi", "r8", "r9", "r10", "r11", "r12", "r13", "r14", "r15"]
REGS = {}
for _i, _r in enumerate(GPR[:8]):
    REGS[_r] = (_r, 0, 64)
    REGS["e" + _r[1:]] = (_r, 0, 32)
    REGS[_r[1:]] = (_r, 0, 16)
for _r, _l, _h in (("rax", "al", "ah"), ("rcx", "cl", "ch"), ("rdx", "dl", "dh"), ("rbx", "bl", "bh")):
    REGS[_l] = (_r, 0, 8)
    REGS[_h] = (_r, 8, 8)
for _r, _l in (("rsp", "spl"), ("rbp", "bpl"), ("rsi", "sil"), ("rdi", "dil")):
    REGS[_l] = (_r, 0, 8)
for _i in range(8, 16):
    _r = "r%d" % _i
    REGS[_r] = (_r, 0, 64)
    REGS[_r + "d"] = (_r, 0, 32)
    REGS[_r + "w"] = (_r, 0, 16)
    REGS[_r + "b"] = (_r, 0, 8)
XMM = ["xmm%d" % i for i in range(16)]

CODE_BASE = 0x7C0DE00000000000       # tokens for code addresses (return addresses, jump table entries)
SYSV_CLOBBERED = ["rax", "rcx", "rdx", "rsi", "rdi", "r8", "r9", "r10", "r11"]

_fresh_n = [0]


def fresh(name, w=64):
    _fresh_n[0] += 1
    return z3.BitVec("%s!%d" % (name, _fresh_n[0]), w)


def simp(t):
    return z3.simplify(t)


def is_val(t):
    return z3.is_bv_value(t)


def sx(t, w):
    return z3.SignExt(w - t.size(), t) if t.size() < w else t


def zx(t, w):
    return z3.ZeroExt(w - t.size(), t) if t.size() < w else t


def smul_overflows(a, b):
    """signed multiplication overflow.  z3's own predicates are used (cheap for z3); operands are
    put into a canonical order so that both back ends and the reference build the *same* term
    (commutativity of a 64-bit multiplier is out of reach of bit-blasting).  For cvc5 the
    predicates are rewritten to double-width arithmetic when a query is dumped (smt.portable)"""
    a, b = simp(a), simp(b)
    if a.get_id() > b.get_id():
        a, b = b, a
    return z3.Not(z3.And(z3.BVMulNoOverflow(a, b, True), z3.BVMulNoUnderflow(a, b)))


def rotl(a, c):
    """rotate left by c (0 <= c < width), portable: a shift by the full width yields 0"""
    w = a.size()
    return (a << c) | z3.LShR(a, BV(w, w) - c)


def rotr(a, c):
    w = a.size()
    return z3.LShR(a, c) | (a << (BV(w, w) - c))


def signed(v, w):
    return v - (1 << w) if v >> (w - 1) else v


# ---------------------------------------------------------------------------------------
# flags

class Flags:
    """flags as a function of the last flag-setting operation; conditions are built on
    demand so that `cmp a,b; jl` becomes `a <s b` and not a formula over SF and OF"""

    def __init__(self, kind, w=64, a=None, b=None, res=None, ex=None):
        self.kind, self.w, self.a, self.b, self.res, self.ex = kind, w, a, b, res, ex or {}

    def _msb(self, t):
        return z3.Extract(self.w - 1, self.w - 1, t) == BV(1, 1)

    def flag(self, f):
        k = self.kind
        if f in self.ex:
            v = self.ex[f]
            if v is None:
                raise Unsupported("use of undefined flag " + f)
            return v
        if k in ("undef", "explicit"):
            raise Unsupported("use of undefined flag %s after %s" % (f, k))
        if f == "ZF":
            if k == "mul":
                raise Unsupported("ZF after imul")
            return self.res == BV(0, self.w)
        if f == "SF":
            if k == "mul":
                raise Unsupported("SF after imul")
            return self._msb(self.res)
        if f == "PF":
            if k == "mul":
                raise Unsupported("PF after imul")
            lo = z3.Extract(7, 0, self.res)
            x = z3.Extract(0, 0, lo)
            for i in range(1, 8):
                x = x ^ z3.Extract(i, i, lo)
            return x == BV(0, 1)
        if f == "CF":
            if k == "sub":
                return z3.ULT(self.a, self.b)
            if k == "add":
                return z3.ULT(self.res, self.a)
            if k == "logic":
                return z3.BoolVal(False)
            if k == "mul":
                return self.ex["OVF"]
        if f == "OF":
            if k == "sub":
                return z3.And(self._msb(self.a) != self._msb(self.b), self._msb(self.res) != self._msb(self.a))
            if k == "add":
                return z3.And(self._msb(self.a) == self._msb(self.b), self._msb(self.res) != self._msb(self.a))
            if k == "logic":
                return z3.BoolVal(False)
            if k == "mul":
                return self.ex["OVF"]
        raise Unsupported("flag %s of %s" % (f, k))

    def cond(self, cc):
        neg = False
        base = {"nae": "b", "c": "b", "nb": "ae", "nc": "ae", "z": "e", "nz": "ne", "na": "be", "nbe": "a",
                "pe": "p", "po": "np", "nge": "l", "nl": "ge", "ng": "le", "nle": "g"}.get(cc, cc)
        if base in ("ae", "ne", "a", "ns", "np", "ge", "g", "no"):
            neg = True
            base = {"ae": "b", "ne": "e", "a": "be", "ns": "s", "np": "p", "ge": "l", "g": "le", "no": "o"}[base]
        c = self._cond(base)
        return z3.Not(c) if neg else c

    def _cond(self, cc):
        k = self.kind
        if k == "sub" and not self.ex:
            a, b = self.a, self.b
            if cc == "b":
                return z3.ULT(a, b)
            if cc == "e":
                return a == b
            if cc == "be":
                return z3.ULE(a, b)
            if cc == "l":
                return a < b
            if cc == "le":
                return a <= b
        if k == "logic" and not self.ex:
            if cc == "b":
                return z3.BoolVal(False)
            if cc == "be":
                return self.flag("ZF")
            if cc == "l":
                return self.flag("SF")
            if cc == "le":
                return z3.Or(self.flag("ZF"), self.flag("SF"))
        if cc == "o":
            return self.flag("OF")
        if cc == "b":
            return self.flag("CF")
        if cc == "e":
            return self.flag("ZF")
        if cc == "be":
            return z3.Or(self.flag("CF"), self.flag("ZF"))
        if cc == "s":
            return self.flag("SF")
        if cc == "p":
            return self.flag("PF")
        if cc == "l":
            return self.flag("SF") != self.flag("OF")
        if cc == "le":
            return z3.Or(self.flag("ZF"), self.flag("SF") != self.flag("OF"))
        raise Unsupported("condition code " + cc)


CCS = ["o", "no", "b", "c", "nae", "ae", "nb", "nc", "e", "z", "ne", "nz", "be", "na", "a", "nbe", "s", "ns", "p", "pe",
       "np", "po", "l", "nge", "ge", "nl", "le", "ng", "g", "nle"]


# ---------------------------------------------------------------------------------------
# byte-granular concrete-offset memory (stack, thread-local block)

class CellMem:
    def __init__(self, name, init=None):
        self.name = name
        self.bytes = {}                       # offset -> (term, byte index, term bytes)
        self.init = init if init is not None else z3.Array(name + "0", z3.BitVecSort(64), z3.BitVecSort(8))

    def copy(self):
        c = CellMem.__new__(CellMem)
        c.name, c.bytes, c.init = self.name, dict(self.bytes), self.init
        return c

    def write(self, off, val, n):
        for i in range(n):
            self.bytes[off + i] = (val, i, n)

    def read(self, off, n):
        first = self.bytes.get(off)
        if first is not None and first[1] == 0 and first[2] == n:
            t = first[0]
            if all(self.bytes.get(off + i) is not None and self.bytes[off + i][0] is t and self.bytes[off + i][1] == i
                   for i in range(1, n)):
                return t
        parts = []
        for i in range(n - 1, -1, -1):
            b = self.bytes.get(off + i)
            if b is None:
                parts.append(z3.Select(self.init, BV(off + i, 64)))
            else:
                parts.append(z3.Extract(8 * b[1] + 7, 8 * b[1], b[0]))
        return simp(z3.Concat(*parts)) if n > 1 else simp(parts[0])


def heap_load(heap, addr, n):
    parts = [z3.Select(heap, addr + BV(i, 64)) for i in range(n - 1, -1, -1)]
    return z3.Concat(*parts) if n > 1 else parts[0]


def heap_store(heap, addr, val, n):
    for i in range(n):
        heap = z3.Store(heap, addr + BV(i, 64), z3.Extract(8 * i + 7, 8 * i, val))
    return heap


# ---------------------------------------------------------------------------------------

class Env:
    """what surrounds the lifted function: initial registers, assumptions, valid regions"""

    def __init__(self, tld_layout):
        self.RSP0 = z3.BitVec("RSP0", 64)
        self.TLD = z3.BitVec("TLD", 64)
        self.heap0 = z3.Array("heap0", z3.BitVecSort(64), z3.BitVecSort(8))
        self.tld_layout = tld_layout
        self.tld_named = {}                   # offset -> (term, size)
        self.assumptions = []
        self.assumption_texts = []
        self.regions = []                     # (base, size_bytes, name): valid heap memory
        self.check_regions = True
        self.init_regs = {}                   # reg -> term
        self.call_models = {}                 # symbol -> fn(ex, st, insn) -> None | terminal
        self.symvals = {}                     # symbol name -> BV64 constant
        self.tld_store_hook = None            # fn(ex, st, off, val, n) called before a store to the thread block
        self.load_hook = None                 # fn(ex, st, addr, n) -> term | None: overrides a heap load (C09b)
        self.store_hook = None                # fn(ex, st, addr, val, n): observes a heap store (C09b)
        self.stack_limit = z3.BitVec("stack_limit", 64)
        self.tlab_top = z3.BitVec("tlab_top", 64)
        self.tlab_end = z3.BitVec("tlab_end", 64)
        self.state_byte = z3.BitVec("tld_state", 8)
        lo = tld_layout
        self.tld_named[lo["tlab_top"][0]] = (self.tlab_top, 8)
        self.tld_named[lo["tlab_end"][0]] = (self.tlab_end, 8)
        self.tld_named[lo["stack_limit"][0]] = (self.stack_limit, 8)
        self.tld_named[lo["state"][0]] = (self.state_byte, 1)
        self.assume(z3.UGE(self.RSP0, BV(1 << 20, 64)), "initial rsp >= 2^20")
        self.assume(z3.ULE(self.RSP0, BV((1 << 47) - 1, 64)), "initial rsp is a user-space address (< 2^47)")
        self.assume(z3.Extract(2, 0, self.RSP0) == BV(0, 3), "initial rsp 8-byte aligned")
        self.assume(z3.ULE(self.stack_limit, self.RSP0 - BV(1 << 16, 64)),
                    "stack check passes: tld.stack_limit <= rsp - 64 KiB (stack-overflow trampoline not taken)")
        self.assume(self.state_byte == BV(0, 8),
                    "safepoint poll falls through: tld.state == Running(0) (safepoint trampoline not taken)")

    def assume(self, cond, text):
        self.assumptions.append(cond)
        self.assumption_texts.append(text)

    def sym(self, name):
        if name not in self.symvals:
            self.symvals[name] = z3.BitVec("sym!" + name, 64)
        return self.symvals[name]

    def add_region(self, base, size, name, guard=None):
        self.regions.append((base, size, name, guard))


class Terminal:
    def __init__(self, kind, **kw):
        self.kind = kind                      # return | trap | fault | rtcall | loopcut
        self.__dict__.update(kw)

    def __repr__(self):
        d = {k: v for k, v in self.__dict__.items() if k != "kind"}
        return "%s(%s)" % (self.kind, ", ".join("%s=%s" % (k, v) for k, v in d.items()))


class State:
    def __init__(self, env, func):
        self.regs = {r: fresh("init_" + r) for r in GPR}
        self.xmm = {x: fresh("init_" + x) for x in XMM}
        self.regs["rsp"] = env.RSP0
        self.regs["r15"] = env.TLD
        self.regs.update(env.init_regs)
        for k in list(self.regs):
            if k.startswith("xmm"):
                self.xmm[k] = self.regs.pop(k)
        self.flags = Flags("undef")
        self.stack = CellMem("stack")
        self.tld = CellMem("tld")
        for off, (t, n) in env.tld_named.items():
            self.tld.write(off, t, n)
        self.heap = env.heap0
        self.func = func
        self.off = 0
        self.cond = []
        self.callstack = []
        self.events = []
        self.visits = {}
        self.steps = 0
        self.trace = []
        self.hint = None
        self.cur = None
        self.regions = list(env.regions)
        # return address slot of the outermost frame
        self.stack.write(0, BV(CODE_BASE, 64), 8)

    def copy(self):
        c = State.__new__(State)
        c.__dict__.update(self.__dict__)
        c.regs = dict(self.regs)
        c.xmm = dict(self.xmm)
        c.stack = self.stack.copy()
        c.tld = self.tld.copy()
        c.cond = list(self.cond)
        c.callstack = list(self.callstack)
        c.events = list(self.events)
        c.visits = dict(self.visits)
        c.trace = list(self.trace)
        c.regions = list(self.regions)
        return c


class Path:
    def __init__(self, st, term):
        self.cond = list(st.cond)
        self.term = term
        self.events = list(st.events)
        self.heap = st.heap
        self.regs = dict(st.regs)
        self.xmm = dict(st.xmm)
        self.steps = st.steps
        self.trace = list(st.trace)
        self.tld = st.tld

    def pc(self):
        return z3.And(*self.cond) if self.cond else z3.BoolVal(True)

    def __repr__(self):
        return "<path %s steps=%d conds=%d>" % (self.term, self.steps, len(self.cond))


class Limits:
    def __init__(self, max_visits=3, max_steps=4000, max_paths=400, max_depth=4, query_ms=20000, deadline_s=600):
        self.max_visits, self.max_steps, self.max_paths = max_visits, max_steps, max_paths
        self.max_depth, self.query_ms, self.deadline_s = max_depth, query_ms, deadline_s


# ---------------------------------------------------------------------------------------

class Explorer:
    def __init__(self, prog, env, limits=None, trap_symbol="dora_aot_trap_trampoline"):
        self.prog = prog
        self.env = env
        self.lim = limits or Limits()
        self.trap_symbol = trap_symbol
        self.solver = z3.Solver()
        self.solver.set("timeout", self.lim.query_ms)
        for a in env.assumptions:
            self.solver.add(a)
        self.paths = []
        self.stats = {"queries": 0, "solver_time_s": 0.0, "pruned": 0, "steps": 0, "unknown_feasibility": 0,
                      "mnemonics": set()}
        self.func_ids = {}
        self.func_names = []
        self._handlers = self._build_handlers()
        self.t0 = time.time()

    # ----- code address tokens
    def token(self, func, off):
        if func not in self.func_ids:
            self.func_ids[func] = len(self.func_names) + 1
            self.func_names.append(func)
        return BV(CODE_BASE + (self.func_ids[func] << 24) + off, 64)

    def untoken(self, t):
        t = simp(t)
        if not is_val(t):
            raise Unsupported("indirect control transfer to a symbolic address")
        v = t.as_long()
        if v == CODE_BASE:
            return None                       # return from the outermost frame
        v -= CODE_BASE
        fid, off = v >> 24, v & 0xFFFFFF
        if fid < 1 or fid > len(self.func_names):
            raise Unsupported("control transfer to a non-code value %#x" % t.as_long())
        return self.func_names[fid - 1], off

    # ----- solver
    def feasible(self, st, extra):
        """is path condition + extra satisfiable?  unknown counts as feasible"""
        e = simp(extra)
        if z3.is_true(e):
            return True
        if z3.is_false(e):
            return False
        t = time.time()
        self.solver.push()
        for c in st.cond:
            self.solver.add(c)
        self.solver.add(e)
        r = self.solver.check()
        self.solver.pop()
        self.stats["queries"] += 1
        self.stats["solver_time_s"] += time.time() - t
        if r == z3.unknown:
            self.stats["unknown_feasibility"] += 1
            return True
        if r == z3.unsat:
            self.stats["pruned"] += 1
        return r == z3.sat

    # ----- registers / operands
    def rget(self, st, name):
        if name in st.xmm:
            return st.xmm[name]
        if name not in REGS:
            raise Unsupported("register " + name)
        base, lo, w = REGS[name]
        v = st.regs[base]
        if w == 64:
            return v
        return simp(z3.Extract(lo + w - 1, lo, v))

    def rset(self, st, name, val):
        if name in st.xmm:
            st.xmm[name] = simp(val)
            return
        if name not in REGS:
            raise Unsupported("register " + name)
        base, lo, w = REGS[name]
        assert val.size() == w, (name, val.size())
        if w == 64:
            st.regs[base] = simp(val)
        elif w == 32:
            st.regs[base] = simp(z3.ZeroExt(32, val))
        else:
            old = st.regs[base]
            parts = []
            if lo + w < 64:
                parts.append(z3.Extract(63, lo + w, old))
            parts.append(val)
            if lo > 0:
                parts.append(z3.Extract(lo - 1, 0, old))
            st.regs[base] = simp(z3.Concat(*parts))

    def ea(self, st, insn, op):
        _, disp, base, index, scale = op[:5]
        if base == "rip":
            r = self.prog.asm.funcs[st.func].reloc_in(insn.off, insn.off + insn.size)
            if r is None:
                raise Unsupported("rip-relative operand without relocation")
            roff, (ty, target, addend) = r
            if ty != "R_X86_64_PC32":
                raise Unsupported("relocation type " + ty)
            return simp(self.symaddr(target) + BV((addend + (insn.off + insn.size - roff) + disp) % (1 << 64), 64))
        a = BV(disp % (1 << 64), 64)
        if base:
            a = st.regs[REGS[base][0]] + a if REGS[base][2] == 64 else None
            if a is None:
                raise Unsupported("32-bit address register")
        if index:
            if REGS[index][2] != 64:
                raise Unsupported("32-bit index register")
            a = a + st.regs[REGS[index][0]] * BV(scale, 64)
        return simp(a)

    def symaddr(self, target):
        """address constant of a symbol; data objects of .dora.shapes are named by content"""
        asm = self.prog.asm
        if asm.data_section.get(target) == ".dora.shapes" and target != "dora_aot_shape_base":
            cid = asm.content_id(target)
            return self.env.sym("shape:" + cid)
        if target in asm.code_labels:
            f, o = asm.code_labels[target]
            return self.token(f, o)
        return self.env.sym(target)

    def classify(self, addr):
        d = simp(addr - self.env.RSP0)
        if is_val(d):
            return "stack", signed(d.as_long(), 64)
        d = simp(addr - self.env.TLD)
        if is_val(d):
            return "tld", signed(d.as_long(), 64)
        if _mentions(addr, (self.env.RSP0, self.env.TLD)):
            raise Unsupported("stack/thread-block address that is not base+constant: " + str(addr)[:120])
        return "heap", addr

    def region_ok(self, st, addr, n):
        """condition: [addr, addr+n) lies inside one of the valid heap regions"""
        alts = []
        for base, size, _, guard in st.regions:
            off = addr - base
            c = z3.And(z3.ULE(BV(n, 64), size), z3.ULE(off, size - BV(n, 64)))
            alts.append(c if guard is None else z3.And(guard, c))
        return z3.Or(*alts) if alts else z3.BoolVal(False)

    def load(self, st, addr, n):
        kind, x = self.classify(addr)
        if kind == "stack":
            return st.stack.read(x, n)
        if kind == "tld":
            return st.tld.read(x, n)
        # jump table?
        tbl = self._table_of(addr)
        if tbl is not None:
            label, idx, entries = tbl
            if n != 8:
                raise Unsupported("jump table read of %d bytes" % n)
            if st.hint is None:
                raise CaseSplit([(idx == BV(k, 64), k) for k in range(len(entries))],
                                z3.UGE(idx, BV(len(entries), 64)), "jump table index out of range")
            k = st.hint
            st.hint = None
            f, o = entries[k]
            return self.token(f, o)
        st.events.append(("load", addr, n))
        if self.env.load_hook is not None:
            v = self.env.load_hook(self, st, addr, n)
            if v is not None:
                return v
        return simp(heap_load(st.heap, addr, n))

    def _table_of(self, addr):
        """addr == sym!<jump table> + 8*idx ?"""
        if not z3.is_app(addr):
            return None
        if z3.is_const(addr) and addr.decl().kind() == z3.Z3_OP_UNINTERPRETED and addr.decl().name().startswith("sym!"):
            cands = [addr]                      # index 0: the address is the table itself
        elif addr.decl().kind() == z3.Z3_OP_BADD:
            cands = addr.children()
        else:
            return None
        syms = [c for c in cands if z3.is_const(c) and c.decl().kind() == z3.Z3_OP_UNINTERPRETED
                and c.decl().name().startswith("sym!")]
        if len(syms) != 1:
            return None
        label = syms[0].decl().name()[4:]
        entries = self.prog.asm.jump_table(label)
        if not entries:
            return None
        rest = simp(addr - syms[0])
        idx = simp(z3.LShR(rest, 3))
        if not z3.is_false(simp(z3.Extract(2, 0, rest) != BV(0, 3))):
            raise Unsupported("jump table address not 8*index")
        return label, idx, entries

    def store(self, st, addr, val, n):
        assert val.size() == 8 * n
        kind, x = self.classify(addr)
        val = simp(val)
        if kind == "stack":
            st.stack.write(x, val, n)
        elif kind == "tld":
            hook = self.env.tld_store_hook
            if hook is not None:
                hook(self, st, x, val, n)
            st.tld.write(x, val, n)
            st.events.append(("tld_store", x, val, n))
        else:
            st.events.append(("store", addr, val, n))
            if self.env.store_hook is not None:
                self.env.store_hook(self, st, addr, val, n)
            st.heap = heap_store(st.heap, addr, val, n)

    def opsize(self, insn, w, op):
        if op[0] == "reg":
            if op[1] in XMM:
                return 64
            return REGS[op[1]][2] if op[1] in REGS else w
        return w

    def read(self, st, insn, op, w):
        k = op[0]
        if k == "reg":
            return self.rget(st, op[1])
        if k == "imm":
            return BV(op[1] % (1 << w), w)
        if k == "mem":
            return self.load(st, self.ea(st, insn, op), w // 8)
        if k == "bad":
            raise Unsupported(op[1])
        raise Unsupported("operand kind " + k)

    def write(self, st, insn, op, val):
        k = op[0]
        if k == "reg":
            self.rset(st, op[1], val)
        elif k == "mem":
            self.store(st, self.ea(st, insn, op), val, val.size() // 8)
        else:
            raise Unsupported("write to operand kind " + k)

    # ----- hazards: conditions under which the instruction faults
    def hazards(self, st, insn, mn, w):
        hz = []
        if self.env.check_regions and mn not in ("lea", "nop", "prefetch"):
            for op in insn.ops:
                if op[0] == "mem":
                    if op[2] == "rip":
                        continue
                    addr = self.ea(st, insn, op)
                    kind, _ = self.classify(addr)
                    if kind == "heap" and self._table_of(addr) is None:
                        n = self._memwidth(insn, mn, w) // 8
                        hz.append((z3.Not(self.region_ok(st, addr, n)), "oob-access",
                                   {"addr": addr, "bytes": n, "insn": repr(insn)}))
        if mn in ("idiv", "div"):
            d = self.read(st, insn, insn.ops[0], w)
            hz.append((d == BV(0, w), "#DE", {"why": "divisor 0", "insn": repr(insn)}))
            if mn == "idiv":
                a = self.rget(st, {8: "al", 16: "ax", 32: "eax", 64: "rax"}[w])
                hz.append((z3.And(a == BV(1 << (w - 1), w), d == BV((1 << w) - 1, w)), "#DE",
                           {"why": "MIN / -1", "insn": repr(insn)}))
        return hz

    def _memwidth(self, insn, mn, w):
        if mn in ("movzb", "movsb"):
            return 8
        if mn in ("movzw", "movsw"):
            return 16
        if mn in ("movsl",):
            return 32
        if mn.startswith("v") or mn.startswith("cvt") or mn in ("movss", "movsd", "ucomiss", "ucomisd"):
            return 32 if mn.endswith("ss") or mn.endswith("ss2si") or mn.endswith("ss2sd") else 64
        return w

    # ----- mnemonic table
    def _build_handlers(self):
        h = {}
        for m in ("mov", "movabs"):
            h[m] = self.i_mov
        h["lea"] = self.i_lea
        for m in ("add", "sub", "and", "or", "xor", "cmp", "test", "adc", "sbb"):
            h[m] = self.i_alu
        for m in ("inc", "dec", "neg", "not"):
            h[m] = self.i_unary
        h["imul"] = self.i_imul
        h["idiv"] = self.i_idiv
        h["div"] = self.i_idiv
        for m in ("shl", "sal", "shr", "sar", "rol", "ror"):
            h[m] = self.i_shift
        h["push"] = self.i_push
        h["pop"] = self.i_pop
        h["xchg"] = self.i_xchg
        h["cmpxchg"] = self.i_cmpxchg
        h["xadd"] = self.i_xadd
        for m in ("lzcnt", "tzcnt", "popcnt"):
            h[m] = self.i_bitcount
        h["bswap"] = self.i_bswap
        return h

    def decode_mn(self, insn):
        """-> (base mnemonic, operand width in bits or None)"""
        mn = insn.mn
        exact = {"cltd": ("cltd", 32), "cqto": ("cqto", 64), "cltq": ("cltq", 64), "cwtl": ("cwtl", 32),
                 "nop": ("nop", None), "nopw": ("nop", None), "nopl": ("nop", None), "int3": ("int3", None),
                 "ud2": ("ud2", None), "retq": ("ret", 64), "ret": ("ret", 64), "callq": ("call", 64),
                 "call": ("call", 64), "jmp": ("jmp", 64), "jmpq": ("jmp", 64), "movabsq": ("movabs", 64),
                 "movslq": ("movsl", 64), "mfence": ("nop", None), "pause": ("nop", None),
                 "leave": ("leave", 64), "hlt": ("hlt", None)}
        if mn in exact:
            return exact[mn]
        if mn.startswith("j") and mn[1:] in CCS:
            return "jcc:" + mn[1:], None
        if mn.startswith("set") and mn[3:] in CCS:
            return "setcc:" + mn[3:], 8
        if mn.startswith("cmov"):
            body = mn[4:]
            if body in CCS:
                return "cmovcc:" + body, None
            if body[:-1] in CCS and body[-1] in "wlq":
                return "cmovcc:" + body[:-1], {"w": 16, "l": 32, "q": 64}[body[-1]]
        for pre in ("movzb", "movzw", "movsb", "movsw"):
            if mn.startswith(pre) and len(mn) == len(pre) + 1 and mn[-1] in "wlq":
                return pre, {"w": 16, "l": 32, "q": 64}[mn[-1]]
        if mn in self._handlers:
            return mn, None
        if mn[-1] in "bwlq" and mn[:-1] in self._handlers:
            return mn[:-1], {"b": 8, "w": 16, "l": 32, "q": 64}[mn[-1]]
        if mn.startswith("v") or mn.startswith("cvt") or mn in ("movss", "movsd", "movaps", "movapd", "movd", "movq",
                                                                 "ucomiss", "ucomisd", "xorps", "xorpd", "pxor",
                                                                 "sqrtsd", "sqrtss", "andps", "andpd"):
            return "sse:" + mn, None
        raise Unsupported("mnemonic " + mn)

    def width_of(self, insn, w):
        if w is not None:
            return w
        for op in insn.ops:
            if op[0] == "reg" and op[1] in REGS:
                return REGS[op[1]][2]
        raise Unsupported("cannot determine operand width of " + insn.text)

    # ----- instruction semantics; each returns None (fall through) or a control tuple
    def i_mov(self, st, insn, mn, w):
        w = self.width_of(insn, w)
        src, dst = insn.ops
        if mn == "mov" and w == 64 and src[0] == "imm":
            v = BV(src[1] % (1 << 64), 64)     # movq $imm32 is sign extended by the decoder's printing
        else:
            v = self.read(st, insn, src, w)
        self.write(st, insn, dst, v)

    def i_lea(self, st, insn, mn, w):
        w = self.width_of(insn, w)
        a = self.ea(st, insn, insn.ops[0])
        self.write(st, insn, insn.ops[1], a if w == 64 else simp(z3.Extract(w - 1, 0, a)))

    def i_alu(self, st, insn, mn, w):
        w = self.width_of(insn, w)
        src, dst = insn.ops
        b = self.read(st, insn, src, w)
        a = self.read(st, insn, dst, w)
        if src[0] == "imm":
            b = BV(src[1] % (1 << w), w)
        if mn in ("add", "adc"):
            if mn == "adc":
                raise Unsupported("adc")
            r = simp(a + b)
            st.flags = Flags("add", w, a, b, r)
        elif mn in ("sub", "cmp", "sbb"):
            if mn == "sbb":
                raise Unsupported("sbb")
            r = simp(a - b)
            st.flags = Flags("sub", w, a, b, r)
        else:
            r = simp({"and": a & b, "test": a & b, "or": a | b, "xor": a ^ b}[mn])
            st.flags = Flags("logic", w, a, b, r)
        if mn not in ("cmp", "test"):
            self.write(st, insn, dst, r)

    def i_unary(self, st, insn, mn, w):
        w = self.width_of(insn, w)
        op = insn.ops[0]
        a = self.read(st, insn, op, w)
        if mn == "not":
            self.write(st, insn, op, simp(~a))
            return
        if mn == "neg":
            r = simp(-a)
            st.flags = Flags("sub", w, BV(0, w), a, r)
        else:
            one = BV(1, w)
            r = simp(a + one if mn == "inc" else a - one)
            try:
                cf = st.flags.flag("CF")
            except Unsupported:
                cf = None
            st.flags = Flags("add" if mn == "inc" else "sub", w, a, one, r, ex={"CF": cf})
        self.write(st, insn, op, r)

    def i_imul(self, st, insn, mn, w):
        w = self.width_of(insn, w)
        ops = insn.ops
        if len(ops) == 1:
            a = self.rget(st, {8: "al", 16: "ax", 32: "eax", 64: "rax"}[w])
            b = self.read(st, insn, ops[0], w)
            full = simp(sx(a, 2 * w) * sx(b, 2 * w))
            if w == 8:
                self.rset(st, "ax", full)
            else:
                self.rset(st, {16: "ax", 32: "eax", 64: "rax"}[w], simp(z3.Extract(w - 1, 0, full)))
                self.rset(st, {16: "dx", 32: "edx", 64: "rdx"}[w], simp(z3.Extract(2 * w - 1, w, full)))
            ovf = smul_overflows(a, b)
            st.flags = Flags("mul", w, a, b, None, ex={"OVF": ovf})
            return
        if len(ops) == 2:
            b = self.read(st, insn, ops[0], w)
            a = self.read(st, insn, ops[1], w)
            dst = ops[1]
        else:
            b = BV(ops[0][1] % (1 << w), w)
            a = self.read(st, insn, ops[1], w)
            dst = ops[2]
        if ops[0][0] == "imm":
            b = BV(ops[0][1] % (1 << w), w)
        r = simp(a * b)
        ovf = smul_overflows(a, b)
        st.flags = Flags("mul", w, a, b, r, ex={"OVF": ovf})
        self.write(st, insn, dst, r)

    def i_idiv(self, st, insn, mn, w):
        w = self.width_of(insn, w)
        if w == 8:
            raise Unsupported("8-bit division")
        lo_n, hi_n = {16: ("ax", "dx"), 32: ("eax", "edx"), 64: ("rax", "rdx")}[w]
        lo, hi = self.rget(st, lo_n), self.rget(st, hi_n)
        d = self.read(st, insn, insn.ops[0], w)
        if mn == "idiv":
            want = simp(z3.Extract(2 * w - 1, w, sx(lo, 2 * w)))
            if not z3.eq(simp(hi), want):
                # same-width encoding is only sound when rdx:rax is the sign extension of rax
                if self.feasible(st, hi != want):
                    raise Unsupported("idiv whose dividend is not a sign-extended single word")
            q = lo / d                          # bvsdiv
            r = z3.SRem(lo, d)
        else:
            if self.feasible(st, hi != BV(0, w)):
                raise Unsupported("div with a non-zero high word")
            q = z3.UDiv(lo, d)
            r = z3.URem(lo, d)
        self.rset(st, lo_n, simp(q))
        self.rset(st, hi_n, simp(r))
        st.flags = Flags("undef")

    def i_shift(self, st, insn, mn, w):
        w = self.width_of(insn, w)
        ops = insn.ops
        if len(ops) == 1:
            cnt = BV(1, 8)
            dst = ops[0]
        else:
            dst = ops[1]
            cnt = BV(ops[0][1] & 0xFF, 8) if ops[0][0] == "imm" else self.read(st, insn, ops[0], 8)
        mask = 63 if w == 64 else 31
        raw = cnt
        c = simp(zx(cnt & BV(mask, 8), w))
        a = self.read(st, insn, dst, w)
        if w < 32 and mn in ("rol", "ror"):
            raise Unsupported("8/16-bit rotate")
        if mn in ("shl", "sal"):
            r = a << c
        elif mn == "shr":
            r = z3.LShR(a, c)
        elif mn == "sar":
            r = a >> c
        elif mn == "rol":
            r = rotl(a, c)
        else:
            r = rotr(a, c)
        r = simp(r)
        st.events.append(("shift", mn, w, simp(zx(raw, 64)), repr(insn)))
        if is_val(c) and c.as_long() != 0 and mn not in ("rol", "ror"):
            st.flags = Flags("explicit", w, res=r, ex={"ZF": r == BV(0, w), "SF": z3.Extract(w - 1, w - 1, r) == BV(1, 1),
                                                      "CF": None, "OF": None, "PF": None})
        elif is_val(c) and c.as_long() == 0:
            pass
        else:
            st.flags = Flags("undef")
        self.write(st, insn, dst, r)

    def i_push(self, st, insn, mn, w):
        v = self.read(st, insn, insn.ops[0], 64)
        st.regs["rsp"] = simp(st.regs["rsp"] - BV(8, 64))
        self.store(st, st.regs["rsp"], v, 8)

    def i_pop(self, st, insn, mn, w):
        v = self.load(st, st.regs["rsp"], 8)
        st.regs["rsp"] = simp(st.regs["rsp"] + BV(8, 64))
        self.write(st, insn, insn.ops[0], v)

    def i_xchg(self, st, insn, mn, w):
        w = self.width_of(insn, w)
        a, b = insn.ops
        va, vb = self.read(st, insn, a, w), self.read(st, insn, b, w)
        self.write(st, insn, a, vb)
        self.write(st, insn, b, va)
        if a[0] == "mem" or b[0] == "mem":
            st.events.append(("atomic", "xchg", repr(insn)))

    def i_cmpxchg(self, st, insn, mn, w):
        w = self.width_of(insn, w)
        src, dst = insn.ops
        acc_n = {8: "al", 16: "ax", 32: "eax", 64: "rax"}[w]
        acc = self.rget(st, acc_n)
        old = self.read(st, insn, dst, w)
        new = self.read(st, insn, src, w)
        eq = acc == old
        st.flags = Flags("sub", w, acc, old, simp(acc - old))
        self.write(st, insn, dst, simp(z3.If(eq, new, old)))
        self.rset(st, acc_n, simp(z3.If(eq, acc, old)))
        st.events.append(("atomic", "cmpxchg", repr(insn)))

    def i_xadd(self, st, insn, mn, w):
        w = self.width_of(insn, w)
        src, dst = insn.ops
        a = self.read(st, insn, dst, w)
        b = self.read(st, insn, src, w)
        r = simp(a + b)
        st.flags = Flags("add", w, a, b, r)
        self.write(st, insn, src, a)
        self.write(st, insn, dst, r)
        st.events.append(("atomic", "xadd", repr(insn)))

    def i_bitcount(self, st, insn, mn, w):
        w = self.width_of(insn, w)
        a = self.read(st, insn, insn.ops[0], w)
        if mn == "popcnt":
            r = BV(0, w)
            for i in range(w):
                r = r + zx(z3.Extract(i, i, a), w)
        elif mn == "lzcnt":
            r = BV(w, w)
            for i in range(w):                 # lowest set bit first so the highest one wins
                r = z3.If(z3.Extract(i, i, a) == BV(1, 1), BV(w - 1 - i, w), r)
        else:
            r = BV(w, w)
            for i in range(w - 1, -1, -1):
                r = z3.If(z3.Extract(i, i, a) == BV(1, 1), BV(i, w), r)
        r = simp(r)
        st.flags = Flags("explicit", w, res=r, ex={"ZF": r == BV(0, w), "CF": a == BV(0, w) if mn != "popcnt" else z3.BoolVal(False),
                                                  "SF": None, "OF": None, "PF": None})
        self.write(st, insn, insn.ops[1], r)

    def i_bswap(self, st, insn, mn, w):
        w = self.width_of(insn, w)
        a = self.read(st, insn, insn.ops[0], w)
        parts = [z3.Extract(8 * i + 7, 8 * i, a) for i in range(w // 8)]
        self.write(st, insn, insn.ops[0], simp(z3.Concat(*parts)))

    # ----- scalar SSE/AVX (low lane only)
    def i_sse(self, st, insn, name):
        from . import ssefp
        return ssefp.execute(self, st, insn, name)

    # ----- one step
    def step(self, st, insn):
        """-> None | ('jump', func, off) | ('branch', cond, off) | ('term', Terminal)"""
        mn, w = self.decode_mn(insn)
        self.stats["mnemonics"].add(insn.mn)
        if any(p != "lock" for p in insn.prefixes):
            raise Unsupported("prefix " + ",".join(insn.prefixes))
        if mn == "nop":
            return None
        if mn in ("int3", "ud2", "hlt"):
            return ("term", Terminal("fault", what=mn, detail={"insn": repr(insn), "func": st.func}))
        if mn.startswith("jcc:"):
            return ("branch", st.flags.cond(mn[4:]), insn.ops[0][1])
        if mn.startswith("setcc:"):
            c = st.flags.cond(mn[6:])
            self.write(st, insn, insn.ops[0], simp(z3.If(c, BV(1, 8), BV(0, 8))))
            return None
        if mn.startswith("cmovcc:"):
            w = self.width_of(insn, w)
            c = st.flags.cond(mn[7:])
            src, dst = insn.ops
            v = simp(z3.If(c, self.read(st, insn, src, w), self.read(st, insn, dst, w)))
            self.write(st, insn, dst, v)
            return None
        if mn in ("movzb", "movzw", "movsb", "movsw", "movsl"):
            sw = {"b": 8, "w": 16, "l": 32}[mn[-1]]
            v = self.read(st, insn, insn.ops[0], sw)
            self.write(st, insn, insn.ops[1], simp(zx(v, w) if mn[3] == "z" else sx(v, w)))
            return None
        if mn == "cltd":
            st.regs["rdx"] = simp(z3.ZeroExt(32, z3.Extract(63, 32, sx(self.rget(st, "eax"), 64))))
            return None
        if mn == "cqto":
            st.regs["rdx"] = simp(z3.Extract(127, 64, sx(st.regs["rax"], 128)))
            return None
        if mn == "cltq":
            st.regs["rax"] = simp(sx(self.rget(st, "eax"), 64))
            return None
        if mn == "cwtl":
            self.rset(st, "eax", simp(sx(self.rget(st, "ax"), 32)))
            return None
        if mn == "leave":
            st.regs["rsp"] = st.regs["rbp"]
            st.regs["rbp"] = self.load(st, st.regs["rsp"], 8)
            st.regs["rsp"] = simp(st.regs["rsp"] + BV(8, 64))
            return None
        if mn == "jmp":
            op = insn.ops[0]
            if op[0] == "target":
                return ("jump", st.func, op[1])
            if op[0] == "ireg":
                t = self.untoken(self.rget(st, op[1]))
            elif op[0] == "imem":
                t = self.untoken(self.load(st, self.ea(st, insn, ("mem",) + op[1:]), 8))
            else:
                raise Unsupported("jmp operand")
            if t is None:
                raise Unsupported("jmp to the return address")
            return ("jump", t[0], t[1])
        if mn == "ret":
            t = self.load(st, st.regs["rsp"], 8)
            st.regs["rsp"] = simp(st.regs["rsp"] + BV(8, 64))
            tgt = self.untoken(t)
            if tgt is None:
                if st.callstack:
                    raise Unsupported("return to the outermost caller with a non-empty call stack")
                return ("term", Terminal("return", rax=st.regs["rax"], xmm0=st.xmm["xmm0"], rsp=st.regs["rsp"]))
            if not st.callstack or st.callstack[-1] != tgt:
                raise Unsupported("ret does not match the call stack")
            st.callstack.pop()
            return ("jump", tgt[0], tgt[1])
        if mn == "call":
            return self.do_call(st, insn)
        if mn.startswith("sse:"):
            return self.i_sse(st, insn, mn[4:])
        h = self._handlers.get(mn)
        if h is None:
            raise Unsupported("mnemonic " + insn.mn)
        return h(st, insn, mn, w)

    def do_call(self, st, insn):
        op = insn.ops[0]
        if op[0] != "target":
            raise Unsupported("indirect call")
        r = self.prog.asm.funcs[st.func].reloc_in(insn.off, insn.off + insn.size)
        if r is None:
            # direct call inside the file without relocation
            raise Unsupported("call without relocation")
        _, (ty, target, addend) = r
        ret = (st.func, insn.off + insn.size)
        if target == self.trap_symbol:
            k = simp(self.rget(st, "edi"))
            return ("term", Terminal("trap", trap=k, site=(st.func, insn.off)))
        m = self.env.call_models.get(target)
        if m is not None:
            t = m(self, st, insn)
            if t is not None:
                return ("term", t)
            return None
        if target.startswith("dora_aot_") or target.startswith("dora_native_"):
            args = [st.regs[r] for r in ("rdi", "rsi", "rdx")]
            return ("term", Terminal("rtcall", name=target, args=args, site=(st.func, insn.off)))
        if target in self.prog.asm.funcs and "runtime_5Fentry" not in target:
            if len(st.callstack) >= self.lim.max_depth:
                raise Unsupported("call depth > %d at %s" % (self.lim.max_depth, target))
            if target == st.func or target in [c[0] for c in st.callstack]:
                raise Unsupported("recursion into " + target)
            st.regs["rsp"] = simp(st.regs["rsp"] - BV(8, 64))
            self.store(st, st.regs["rsp"], self.token(*ret), 8)
            st.callstack.append(ret)
            st.events.append(("call", target))
            return ("jump", target, 0)
        raise Unsupported("call to " + target)

    # ----- exploration
    def fetch(self, func, off):
        ins = self.prog.insns(func)
        idx = getattr(self.prog, "_index", None)
        if idx is None:
            idx = self.prog._index = {}
        m = idx.get(func)
        if m is None:
            m = idx[func] = {i.off: i for i in ins}
        i = m.get(off)
        if i is None:
            raise Unsupported("jump into the middle of an instruction: %s+%#x" % (func, off))
        return i

    def explore(self, func):
        st = State(self.env, func)
        self._run(st)
        return self.paths

    def _emit(self, st, term):
        self.paths.append(Path(st, term))
        if len(self.paths) > self.lim.max_paths:
            raise Unsupported("more than %d paths" % self.lim.max_paths)

    def _run(self, st):
        work = [st]
        while work:
            st = work.pop()
            while True:
                if time.time() - self.t0 > self.lim.deadline_s:
                    raise Unsupported("exploration deadline (%ds) exceeded" % self.lim.deadline_s)
                key = (st.func, st.off, len(st.callstack))
                insn = self.fetch(st.func, st.off)
                if st.hint is None:
                    n = st.visits.get(key, 0) + 1
                    st.visits[key] = n
                    if n > self.lim.max_visits:
                        self._emit(st, Terminal("loopcut", at=(st.func, st.off)))
                        break
                    st.steps += 1
                    self.stats["steps"] += 1
                    st.trace.append((st.func, st.off))
                    if st.steps > self.lim.max_steps:
                        raise Unsupported("more than %d steps on one path" % self.lim.max_steps)
                    # faults first
                    mn, w = self.decode_mn(insn)
                    if mn in self._handlers or mn in ("movzb", "movzw", "movsb", "movsw", "movsl") or mn.startswith("sse:") \
                            or mn.startswith("cmovcc:"):
                        ww = w
                        if ww is None and not mn.startswith("sse:"):
                            try:
                                ww = self.width_of(insn, w)
                            except Unsupported:
                                ww = 64
                        dead = False
                        for cond, what, detail in self.hazards(st, insn, mn, ww or 64):
                            if self.feasible(st, cond):
                                f = st.copy()
                                f.cond.append(simp(cond))
                                self._emit(f, Terminal("fault", what=what, detail=detail))
                            nc = simp(z3.Not(cond))
                            if not self.feasible(st, nc):
                                dead = True
                                break
                            if not z3.is_true(nc):
                                st.cond.append(nc)
                        if dead:
                            break
                st.cur = insn
                try:
                    r = self.step(st, insn)
                except CaseSplit as cs:
                    if cs.fault is not None and self.feasible(st, cs.fault):
                        f = st.copy()
                        f.cond.append(simp(cs.fault))
                        self._emit(f, Terminal("fault", what=cs.what, detail={"insn": repr(insn)}))
                    for cond, hint in cs.cases:
                        if self.feasible(st, cond):
                            f = st.copy()
                            f.cond.append(simp(cond))
                            f.hint = hint
                            work.append(f)
                    break
                if r is None:
                    st.off = insn.off + insn.size
                    if st.off >= self.prog.asm.funcs[st.func].size:
                        raise Unsupported("fell off the end of " + st.func)
                    continue
                if r[0] == "term":
                    self._emit(st, r[1])
                    break
                if r[0] == "jump":
                    st.func, st.off = r[1], r[2]
                    continue
                if r[0] == "branch":
                    c = simp(r[1])
                    t_ok = self.feasible(st, c)
                    nc = simp(z3.Not(c))
                    f_ok = self.feasible(st, nc)
                    nxt = insn.off + insn.size
                    if t_ok and f_ok:
                        o = st.copy()
                        o.cond.append(nc)
                        o.off = nxt
                        work.append(o)
                        st.cond.append(c)
                        st.off = r[2]
                        continue
                    if t_ok:
                        if not z3.is_true(c):
                            st.cond.append(c)
                        st.off = r[2]
                        continue
                    if f_ok:
                        if not z3.is_true(nc):
                            st.cond.append(nc)
                        st.off = nxt
                        continue
                    break                      # path condition itself became infeasible
                raise Unsupported("internal: step result " + str(r[0]))


class CaseSplit(Exception):
    def __init__(self, cases, fault=None, what=None):
        self.cases, self.fault, self.what = cases, fault, what


def _mentions(t, consts):
    ids = set(c.get_id() for c in consts)
    seen = set()
    stack = [t]
    while stack:
        x = stack.pop()
        i = x.get_id()
        if i in seen:
            continue
        seen.add(i)
        if i in ids:
            return True
        stack.extend(x.children())
    return False


# ---------------------------------------------------------------------------------------
# helpers for checks

def model_int(m, t, signed_w=None):
    v = m.eval(t, model_completion=True)
    v = v.as_long()
    if signed_w:
        v = signed(v, signed_w)
    return v
