"""Models used by C03 (collector kernels of dora-runtime) on top of models.py / cmodels.py: ordering of
`gc::Address` through the crate's own `Ord::cmp`, `Into`/`From` forwarding to the crate's impls, `mem::replace`,
`MaybeUninit`, `size_of`, `vec![x; n]`, boxed slices, `Range<usize>` iteration.  Each model states its contract.

`GcInterp` adds what is not a call: `<T as SizedTypeProperties>::{SIZE,ALIGN}` constants and pointer→usize
transmutes of modelled allocations (rustc's debug "misaligned pointer dereference" checks)."""
import re

import z3

from ..common import Inconclusive
from .interp import (Adt, Cell, Int, Interp, Opaque, Panic, Ref, Slice, Tup, UNIT, VecV, canon_callee, get_path, is_signed,
                     set_path)
from .models import deref, write_ref, some, NONE

MODELS_GC = []


def gmodel(pat):
    def deco(fn):
        MODELS_GC.append((re.compile(pat), fn))
        return fn
    return deco


# ------------------------------------------------------------------------------------------
# ordering: `a < b` on gc::Address is the *provided* method PartialOrd::lt of core, which is
# `matches!(self.partial_cmp(other), Some(Less))`; partial_cmp/cmp are the crate's own MIR.

@gmodel(r"<(usize|u64|u32|u16|u8|isize|i64|i32|i16|i8) as Ord>::cmp")
def m_int_cmp(it, ctx, callee, args):
    a, b = deref(args[0]), deref(args[1])
    lt = (a.t < b.t) if is_signed(a.ty) else z3.ULT(a.t, b.t)
    return Opaque("ordering", (lt, a.t == b.t))


@gmodel(r"<(gc::)?Address as PartialOrd>::(lt|le|gt|ge)")
def m_addr_ord(it, ctx, callee, args):
    op = callee.strip().rsplit("::", 1)[1]
    f = it.prog.fns.get("<Address as PartialOrd>::partial_cmp")
    if f is None:
        raise Inconclusive("no MIR body for <Address as PartialOrd>::partial_cmp")
    r = it.run_fn(ctx, f, args)
    if not (isinstance(r, Adt) and r.variant == "Some" and isinstance(r.fields[0], Opaque) and r.fields[0].what == "ordering"):
        raise Inconclusive("partial_cmp returned %r" % (r,))
    lt, eq = r.fields[0].payload
    return {"lt": lt, "le": z3.Or(lt, eq), "gt": z3.And(z3.Not(lt), z3.Not(eq)), "ge": z3.Not(lt)}[op]


@gmodel(r"<gc::(Address|Region) as (.+)>::(\w+)")
def m_fwd_trait(it, ctx, callee, args):
    """`<gc::Address as Tr>::m` is the crate's impl, whose MIR is named `<Address as Tr>::m`; `Into<Self>` is identity"""
    m = re.fullmatch(r"<gc::(Address|Region) as (.+)>::(\w+)", canon_callee(callee))
    ty, tr, fn = m.group(1), m.group(2), m.group(3)
    if tr.startswith("Into<") and fn == "into" and tr[5:-1] in ("gc::" + ty, ty):
        return args[0]
    name = "<%s as %s>::%s" % (ty, tr.replace("gc::", ""), fn)
    f = it.prog.fns.get(name)
    if f is None:
        if tr.startswith("PartialEq") and fn in ("eq", "ne"):
            from .models import value_eq
            r = value_eq(args[0], args[1])
            return r if fn == "eq" else z3.Not(r)
        raise Inconclusive("no MIR body for `%s` (looked for `%s`)" % (callee, name))
    return it.run_fn(ctx, f, args)


@gmodel(r"<usize as Into<gc::Address>>::into")
def m_usize_into_addr(it, ctx, callee, args):
    """core's blanket `impl<T, U: From<T>> Into<U> for T` = U::from(self): the crate's `From<usize> for Address`"""
    f = it.prog.fns.get("<Address as From<usize>>::from")
    if f is None:
        raise Inconclusive("no MIR body for <Address as From<usize>>::from")
    return it.run_fn(ctx, f, args)


# ------------------------------------------------------------------------------------------
# memory helpers

@gmodel(r"(std|core)::mem::replace")
def m_replace(it, ctx, callee, args):
    """mem::replace(dest, src): returns the old *dest, stores src"""
    old = deref(args[0])
    write_ref(args[0], args[1])
    return old


@gmodel(r"(std::mem::|core::mem::)?MaybeUninit::uninit|(std::mem::|core::mem::)?MaybeUninit::zeroed")
def m_maybe_uninit(it, ctx, callee, args):
    return Opaque("maybe-uninit", "zeroed" if callee.strip().endswith("zeroed") else "uninit")


@gmodel(r"(std::mem::|core::mem::)?MaybeUninit::assume_init")
def m_assume_init(it, ctx, callee, args):
    """the value is never read by the code under analysis before being overwritten or dropped: an opaque
    token; any use in arithmetic / comparison makes the run inconclusive"""
    return Opaque("uninit-value", args[0].payload if isinstance(args[0], Opaque) else None)


SIZES = {}       # type text -> (size, align); filled by the check from the documented layouts


def size_align_of(ty):
    ty = ty.strip()
    prim = {"u8": 1, "i8": 1, "bool": 1, "u16": 2, "i16": 2, "u32": 4, "i32": 4, "char": 4, "u64": 8, "i64": 8, "usize": 8,
            "isize": 8, "u128": 16, "i128": 16}
    if ty in prim:
        return prim[ty], prim[ty]
    if ty.startswith("*const ") or ty.startswith("*mut ") or ty.startswith("&"):
        if "[" in ty or "dyn " in ty or ty.endswith("str"):
            return 16, 8
        return 8, 8
    if ty in SIZES:
        return SIZES[ty]
    raise Inconclusive("size/alignment of type `%s`" % ty)


@gmodel(r"(std|core)::mem::(size_of|align_of)")
def m_size_of(it, ctx, callee, args):
    m = re.search(r"(size_of|align_of)::<(.*)>$", callee.strip())
    if not m:
        raise Inconclusive("size_of without a type: " + callee)
    s, a = size_align_of(m.group(2))
    return Int(s if m.group(1) == "size_of" else a, "usize")


def mk_box_slice(elems):
    """Box<[T]> as rustc's MIR sees it: (Unique(NonNull ptr), alloc); the NonNull is collapsed into the Ref"""
    cell = Cell(VecV(elems, "boxed"), "box-slice")
    return Tup((Tup((Ref(cell),), name="Unique"), Opaque("zst:Global")), name="Box")


def box_elems(b):
    return b.fields[0].fields[0].cell.v.elems


@gmodel(r"(std::vec::|alloc::vec::)?from_elem")
def m_from_elem(it, ctx, callee, args):
    """vec![elem; n] with concrete n"""
    n = args[1].conc()
    if n is None:
        n = ctx.concretize(args[1], 0, 65)
    return VecV([args[0]] * n, "vec")


@gmodel(r"Vec::into_boxed_slice")
def m_into_boxed(it, ctx, callee, args):
    return mk_box_slice(deref(args[0]).elems)


@gmodel(r"(std::boxed::|alloc::boxed::)?Box::new")
def m_box_new(it, ctx, callee, args):
    v = args[0]
    if isinstance(v, VecV):
        return mk_box_slice(v.elems)
    cell = Cell(v, "box")
    return Tup((Tup((Ref(cell),), name="Unique"), Opaque("zst:Global")), name="Box")


@gmodel(r"core::slice::<impl \[.*\]>::len")
def m_boxed_len(it, ctx, callee, args):
    v = deref(args[0])
    if isinstance(v, Tup) and v.name == "Box":
        v = v.fields[0].fields[0].cell.v
    return Int(len(v.elems), "usize")


@gmodel(r"<(std::ops::|core::ops::)?Range<usize> as IntoIterator>::into_iter")
def m_range_into_iter(it, ctx, callee, args):
    return args[0]


@gmodel(r"<(std::ops::|core::ops::)?Range<usize> as Iterator>::next|(std::iter::|core::iter::)?range::<impl Iterator for (std::ops::|core::ops::)?Range<usize>>::next")
def m_range_next(it, ctx, callee, args):
    """Range { start, end }: yields start and increments while start < end"""
    r = deref(args[0])
    s, e = r.fields[0], r.fields[1]
    if ctx.branch(z3.ULT(s.t, e.t)):
        write_ref(args[0], Tup((Int(s.t + 1, "usize"), e), r.name, r.fnames))
        return some(s)
    return NONE


# ------------------------------------------------------------------------------------------

def abi_const(repo, name, _depth=0):
    """value of `pub const NAME: usize = <int | NAME | a * b>;` in dora-compiler/src/abi.rs of the working tree"""
    import os
    src = open(os.path.join(repo, "dora-compiler/src/abi.rs")).read()
    m = re.search(r"^pub const %s: usize = ([^;]+);" % re.escape(name), src, flags=re.M)
    if not m or _depth > 4:
        raise Inconclusive("constant dora_compiler::%s not found in dora-compiler/src/abi.rs" % name)
    val = 1
    for f in m.group(1).split("*"):
        f = f.strip().replace("_", "") if re.fullmatch(r"[0-9_]+", f.strip()) else f.strip()
        if re.fullmatch(r"\d+", f):
            val *= int(f)
        elif re.fullmatch(r"[A-Z][A-Z0-9_]*", f):
            val *= abi_const(repo, f, _depth + 1)
        else:
            raise Inconclusive("constant expression `%s` of dora_compiler::%s" % (m.group(1), name))
    return val


ALLOC_TAGS = {"box-slice", "box", "array-object"}     # cells standing for well-aligned, non-null allocations


class GcInterp(Interp):
    def __init__(self, prog, models, extra_progs=()):
        Interp.__init__(self, prog, models, extra_progs)
        self._const_cache = {}

    def const(self, ctx, fr, text, ty_hint=None):
        t = text.strip()
        m = re.fullmatch(r"<(.+) as (?:std|core)::mem::SizedTypeProperties>::(SIZE|ALIGN)", t)
        if m:
            ty = m.group(1)
            if ty == "T":
                return Int(8, "usize")         # the table's value type is instantiated with u64 by the check
            s, a = size_align_of(ty)
            return Int(s if m.group(2) == "SIZE" else a, "usize")
        m = re.fullmatch(r"(?:core::num::<impl )?(i8|i16|i32|i64|isize|u8|u16|u32|u64|usize)>?::(MIN|MAX)", t)
        if m:
            from .interp import INT_W
            w, sg = INT_W[m.group(1)], is_signed(m.group(1))
            if m.group(2) == "MIN":
                return Int((1 << (w - 1)) if sg else 0, m.group(1))
            return Int((1 << (w - 1)) - 1 if sg else (1 << w) - 1, m.group(1))
        return Interp.const(self, ctx, fr, text, ty_hint)

    def lookup_const(self, fr, name):
        if name not in self._const_cache:
            v = None
            m = re.fullmatch(r"dora_compiler::([A-Z][A-Z0-9_]*)", name.strip())
            if m:
                # constants of another crate print without their value: read from the working tree's source
                v = Int(abi_const(self.prog.repo, m.group(1)), "usize")
            self._const_cache[name] = v if v is not None else Interp.lookup_const(self, fr, name)
        return self._const_cache[name]

    def cast(self, a, ty, kind):
        # address of a modelled heap allocation (Box / Vec buffer): the allocator contract gives a non-null address
        # aligned for the element type; only rustc's debug alignment / null checks look at it
        if kind == "Transmute" and ty.strip() == "usize" and isinstance(a, Ref) and a.cell.tag in ALLOC_TAGS:
            return Int(0x10000, "usize")
        return Interp.cast(self, a, ty, kind)
