"""C13 (part a) - an array allocation of impossible size is refused, never mis-sized.

Unit: the machine code both code generators emit for kernels
`@NeverInline fn k(n: Int64): Array[T] { Array[T]::zero(n) | ::fill(n, v) | ::new_default(n) }`
per element-size class.  Symbolic: n over all of Int64, TLAB top/end, result of the slow-path
allocation.  Assertion per path: the path ends in a trap, or its allocation (inline TLAB bump or
slow-path call) has exactly size align8(header + n*elem) computed without wrap, n >= 0,
0 < size <= tlab_end - tlab_top on the inline path, the length word of the object equals n, the
result is the object, and no store leaves [obj, obj+size) (first loop iteration; complete
zero-initialisation is proved for n <= K).  Negated assertions are decided by z3 and cvc5;
witnesses are replayed with the real executables before anything is reported."""
import os
import re
import time

import z3

from .. import common
from ..common import Inconclusive, Reporter, log
from ..x64 import build, models, par, sem, smt
from ..x64.sem import BV, Unsupported

PID = "C13"
HEADER = 16
CLASSES = ("negative", "wrap", "huge-nonwrapping", "valid")

_PROGS = {}
_CTX = {}


def kernel_list(tier):
    # (name, element type, element bytes, constructor, value expression, family)
    ks = [
        ("zu8", "UInt8", 1, "zero", None, "zero"),
        ("zbool", "Bool", 1, "zero", None, "zero"),
        ("zi32", "Int32", 4, "zero", None, "zero"),
        ("zi64", "Int64", 8, "zero", None, "zero"),
        ("ft16", "(Int64, Int64)", 16, "fill", "(1, 2)", "fill"),
        ("ft24", "(Int64, Int64, Int64)", 24, "fill", "(1, 2, 3)", "fill"),
        ("funit", "()", 0, "fill", "()", "fill"),
    ]
    if tier == "thorough":
        ks += [
            ("zf64", "Float64", 8, "zero", None, "zero"),
            ("zf32", "Float32", 4, "zero", None, "zero"),
            ("zchar", "Char", 4, "zero", None, "zero"),
            ("fi64", "Int64", 8, "fill", "7", "fill"),
            ("fi32", "Int32", 4, "fill", "7i32", "fill"),
            ("fu8", "UInt8", 1, "fill", "7u8", "fill"),
            ("fbool", "Bool", 1, "fill", "true", "fill"),
            ("di64", "Int64", 8, "new_default", None, "new_default"),
            ("di32", "Int32", 4, "new_default", None, "new_default"),
            ("du8", "UInt8", 1, "new_default", None, "new_default"),
            ("ft12", "(Int32, Int64)", 16, "fill", "(1i32, 2)", "fill"),
        ]
    return [dict(name=k[0], ty=k[1], elem=k[2], ctor=k[3], val=k[4], family=k[5]) for k in ks]


def source(kernels):
    out = ["@NeverInline fn id(x: Int64): Int64 { x }",
           "fn arg(i: Int32): Int64 { std::argv(i).to_int64().get_or_panic() }"]
    for i, k in enumerate(kernels):
        if k["ctor"] == "fill":
            call = "Array[%s]::fill(n, %s)" % (k["ty"], k["val"])
        else:
            call = "Array[%s]::%s(n)" % (k["ty"], k["ctor"])
        out.append("@NeverInline fn k%s(n: Int64): Array[%s] { %s }" % (k["name"], k["ty"], call))
    out.append("fn main() {")
    out.append("  let which = arg(0i32);")
    out.append("  let n = id(arg(1i32));")
    ones = {"UInt8": "255u8", "Bool": "true", "Int32": "(-1i32)", "Int64": "(-1)", "Float64": "1.5", "Float32": "1.5f32", "Char": "'z'"}
    for i, k in enumerate(kernels):
        one = k["val"] if k["val"] not in (None, "()") else ones.get(k["ty"])
        probe = ""
        if one is not None and k["elem"] > 0:
            # a second object allocated right after the first one: writing every element of the
            # first must not reach it (observable evidence of an allocation that is too small)
            probe = (" if n > 0 && n <= 100000 { let b = k%s(n); let mut j = 0; while j < n { a(j) = %s; j = j + 1; } "
                     "println(\"size2=${b.size()}\"); }" % (k["name"], one))
        out.append("  if which == %d { let a = k%s(n); println(\"size=${a.size()}\");%s }" % (i, k["name"], probe))
    out.append("}")
    return "\n".join(out) + "\n"


def array_header():
    """header bytes of an array object, from dora-compiler/src/layout.rs"""
    src = open(os.path.join(common.REPO, "dora-compiler/src/layout.rs")).read()
    m1 = re.search(r"fn object_header_size\(\)\s*->\s*i32\s*\{\s*std::mem::size_of::<usize>\(\) as i32\s*\}", src)
    m2 = re.search(r"fn array_header_size\(\)\s*->\s*i32\s*\{\s*object_header_size\(\)\s*\+\s*ptr_width\(\)\s*\}", src)
    if not (m1 and m2):
        raise Inconclusive("array header layout in dora-compiler/src/layout.rs is not the modelled one "
                           "(object header word + length word)")
    return 16


# ---------------------------------------------------------------------------------------

def class_cond(n, elem, cls):
    w = z3.ZeroExt(64, n) * BV(elem, 128) + BV(HEADER + 7, 128)
    nonneg = n >= BV(0, 64)
    if cls == "negative":
        return n < BV(0, 64)
    if cls == "wrap":
        return z3.And(nonneg, z3.UGE(w, BV(1 << 63, 128)))
    if cls == "huge-nonwrapping":
        return z3.And(nonneg, z3.ULT(w, BV(1 << 63, 128)), z3.UGE(w, BV(_CTX["refuse"], 128)))
    return z3.And(nonneg, z3.ULT(w, BV(_CTX["refuse"], 128)))


def want_size(n, elem):
    w = z3.ZeroExt(64, n) * BV(elem, 128) + BV(HEADER + 7, 128)
    return w & BV(((1 << 128) - 1) ^ 7, 128)


def make_env(n, small=None):
    env = sem.Env(_CTX["layout"])
    models.install_alloc(env, _CTX["traps"]["OOM"], _CTX["refuse"])
    env.init_regs = {"rdi": n}
    if small is not None:
        env.assume(z3.And(n >= BV(0, 64), n <= BV(small, 64)), "0 <= n <= %d (zero-initialisation family only)" % small)
    # contract of gc_alloc for impossible sizes (the routing itself is C13 part b)
    return env


def alloc_events(p):
    return [e for e in p.events if e[0] in ("alloc_fast", "alloc_slow")]


def bad_conditions(p, n, elem):
    """[(name, condition)] - satisfiable together with the path condition = assertion violated"""
    t = p.term
    out = []
    al = alloc_events(p)
    if len(al) > 1:
        raise Unsupported("more than one allocation on a path")
    if t.kind == "fault":
        out.append(("fault:" + t.what, z3.BoolVal(True)))
        return out
    if t.kind == "rtcall":
        out.append(("runtime-call:" + t.name, z3.BoolVal(True)))
        return out
    want = want_size(n, elem)
    obj = None
    for e in al:
        if e[0] == "alloc_fast":
            _, obj, size, end = e
            ok = z3.And(n >= BV(0, 64), z3.ZeroExt(64, size) == want, size != BV(0, 64), z3.ULE(size, end - obj))
            out.append(("inline-allocation-size", z3.Not(ok)))
        else:
            _, size, res = e
            if res is None:
                continue                       # the runtime ended the process with the OOM trap
            obj = res
            # sizes from 2^40 on are refused by the runtime (assumption): only smaller requests must be exact
            ok = z3.Or(z3.UGE(size, BV(_CTX["refuse"], 64)),
                       z3.And(n >= BV(0, 64), z3.ZeroExt(64, size) == want))
            out.append(("slow-path-size", z3.Not(ok)))
    if t.kind in ("return", "loopcut"):
        if obj is None:
            if t.kind == "return":
                out.append(("return-without-allocation", z3.BoolVal(True)))
        else:
            out.append(("length-word", sem.heap_load(p.heap, obj + BV(8, 64), 8) != n))
            if t.kind == "return":
                out.append(("result-is-not-the-object", t.rax != obj))
    return out


def group_of(p):
    al = alloc_events(p)
    if not al:
        return "noalloc"
    return "inline" if al[0][0] == "alloc_fast" else "slowpath"


def class_candidates(paths, n, elem, base, verd, tag=""):
    """the negated assertions, one query per length class x allocation kind.
    -> (query records, candidates [{class, group, n, why}])"""
    queries, cands = [], []
    bads = [(p, bad_conditions(p, n, elem)) for p in paths]
    for cls in CLASSES:
        cc = class_cond(n, elem, cls)
        for grp in ("inline", "slowpath", "noalloc"):
            alts, small = [], []
            for p, bl in bads:
                if group_of(p) != grp:
                    continue
                for name, c in bl:
                    alts.append(z3.And(p.pc(), c))
                for e in alloc_events(p):
                    if e[0] == "alloc_slow":
                        small.append(z3.ULT(e[1], BV(1 << 20, 64)))
            if not alts:
                continue
            r, m = verd.check("%s%s-%s" % (tag, cls, grp), base + [cc, z3.Or(*alts)])
            queries.append({"class": cls, "group": grp, "result": r})
            if r != "sat":
                continue
            if small:
                # a witness whose slow-path request is small is served by the real runtime
                # whatever the heap state: preferred for the replay
                r2, m2 = verd.check("%s%s-%s-small" % (tag, cls, grp), base + [cc, z3.Or(*alts)] + small, cross=False)
                if r2 == "sat":
                    m = m2
            nv = sem.model_int(m, n, 64)
            why = []
            for p, bl in bads:
                if group_of(p) != grp or not z3.is_true(m.eval(p.pc(), model_completion=True)):
                    continue
                for name, c in bl:
                    if z3.is_true(m.eval(c, model_completion=True)):
                        d = name
                        for e in alloc_events(p):
                            d += " (requested %d bytes)" % m.eval(e[2] if e[0] == "alloc_fast" else e[1], model_completion=True).as_long()
                        why.append(d)
            cands.append({"class": cls, "group": grp, "n": nv, "why": sorted(set(why))})
    return queries, cands


def analyse(job):
    """worker: one kernel x one back end"""
    kidx, backend, tier = job
    k = _CTX["kernels"][kidx]
    prog = _PROGS[backend]
    traps = _CTX["traps"]
    t0 = time.time()
    res = {"kernel": k["name"], "backend": backend, "elem": k["elem"], "family": k["family"], "status": "ok",
           "candidates": [], "vacuity": {}, "queries": [], "validation_inputs": [], "notes": []}
    n = z3.BitVec("n", 64)
    fn = build.mangle("k" + k["name"])
    verd = smt.Verdicts("c13/%s-%s" % (k["name"], backend), tier)
    try:
        env = make_env(n)
        ex = sem.Explorer(prog, env, sem.Limits(max_visits=2, max_paths=200, deadline_s=240))
        paths = ex.explore(fn)
        res["paths"] = len(paths)
        res["steps"] = ex.stats["steps"]
        res["explore_queries"] = ex.stats["queries"]
        res["explore_solver_s"] = round(ex.stats["solver_time_s"], 2)
        res["pruned"] = ex.stats["pruned"]
        res["unknown_feasibility"] = ex.stats["unknown_feasibility"]
        res["mnemonics"] = sorted(ex.stats["mnemonics"])
        res["terminals"] = {}
        for p in paths:
            key = p.term.kind + (":%s" % p.term.trap if p.term.kind == "trap" else "")
            res["terminals"][key] = res["terminals"].get(key, 0) + 1
        base = list(env.assumptions)
        # ---- the verdict queries, per length class and allocation kind
        qs, cands = class_candidates(paths, n, k["elem"], base, verd)
        res["queries"] += qs
        res["candidates"] += cands
        # ---- vacuity
        def reach(pred, extra=()):
            alts = [p.pc() for p in paths if pred(p)]
            if not alts:
                return None
            r, m = verd.check("vacuity", base + list(extra) + [z3.Or(*alts)], cross=False)
            return sem.model_int(m, n, 64) if r == "sat" else None
        valid = class_cond(n, k["elem"], "valid")
        res["vacuity"]["inline_allocation_reachable_n"] = reach(
            lambda p: group_of(p) == "inline" and p.term.kind in ("return", "loopcut"), [valid])
        res["vacuity"]["slow_path_reachable_n"] = reach(
            lambda p: group_of(p) == "slowpath" and p.term.kind in ("return", "loopcut"), [valid])
        for tname in ("OVERFLOW", "OOM"):
            res["vacuity"]["trap_%s_reachable_n" % tname] = reach(
                lambda p: p.term.kind == "trap" and z3.is_bv_value(p.term.trap) and p.term.trap.as_long() == traps[tname])
        # ---- inputs for the translator validation: one per trap path kind + valid lengths
        for p in paths:
            if p.term.kind == "trap" and z3.is_bv_value(p.term.trap) and p.term.trap.as_long() != traps["OOM"]:
                r, m = verd.check("validation-input", base + [p.pc()], cross=False)
                if r == "sat":
                    res["validation_inputs"].append({"n": sem.model_int(m, n, 64), "expect": ["trap", p.term.trap.as_long()]})
        for v in (0, 1, 3, 100, 1100, 70000):
            outs = set()
            for p in paths:
                if p.term.kind in ("return", "loopcut"):
                    al = alloc_events(p)
                    if not al:
                        continue
                    obj = al[0][1] if al[0][0] == "alloc_fast" else al[0][2]
                    s = z3.Solver()
                    s.set("timeout", 20000)
                    s.add(*base)
                    s.add(p.pc(), n == BV(v, 64))
                    if s.check() == z3.sat:
                        lw = s.model().eval(sem.heap_load(p.heap, obj + BV(8, 64), 8), model_completion=True).as_long()
                        outs.add(("size", sem.signed(lw, 64)))
                elif p.term.kind == "trap":
                    s = z3.Solver()
                    s.set("timeout", 20000)
                    s.add(*base)
                    s.add(p.pc(), n == BV(v, 64))
                    if s.check() == z3.sat and z3.is_bv_value(p.term.trap):
                        outs.add(("trap", p.term.trap.as_long()))
            res["validation_inputs"].append({"n": v, "expect_any": sorted(list(o) for o in outs)})
        # ---- complete zero-initialisation for small n
        K = 3 if tier == "quick" else 6
        if k["family"] in ("zero", "new_default") and k["elem"] > 0:
            env2 = make_env(n, small=K)
            ex2 = sem.Explorer(prog, env2, sem.Limits(max_visits=K + 3, max_paths=400, deadline_s=240))
            paths2 = ex2.explore(fn)
            j = z3.BitVec("j", 64)
            worst = "unsat"
            nq = 0
            for p in paths2:
                if p.term.kind == "loopcut":
                    raise Unsupported("zero-initialisation loop not finished within the bound")
                if p.term.kind != "return":
                    continue
                al = alloc_events(p)
                if not al:
                    continue
                obj = al[0][1] if al[0][0] == "alloc_fast" else al[0][2]
                q = [p.pc(), z3.UGE(j, BV(HEADER, 64)), z3.ULT(j, BV(HEADER, 64) + n * BV(k["elem"], 64)),
                     z3.Select(p.heap, obj + j) != BV(0, 8)]
                r, m = verd.check("zero-init-n<=%d-path%d" % (K, nq), list(env2.assumptions) + q)
                nq += 1
                if r == "sat":
                    worst = "sat"
                    res["candidates"].append({"class": "valid", "group": "zero-init", "n": sem.model_int(m, n, 64),
                                              "why": ["element byte %d not zero-initialised" % sem.model_int(m, j)]})
                    break
                if r == "unknown":
                    worst = "unknown"
            if nq:
                res["queries"].append({"class": "valid", "group": "zero-init<=%d (%d paths)" % (K, nq), "result": worst})
            res["zero_init_paths"] = len(paths2)
            res["steps"] += ex2.stats["steps"]
        # ---- real executable: translator validation inputs and replays of the candidates
        for vi in res["validation_inputs"]:
            vi["observed"] = list(classify_run(build.run_exe(prog.exe, [kidx, vi["n"]], timeout=60), vi["n"], traps))
        for c in res["candidates"]:
            c["observed"] = list(classify_run(build.run_exe(prog.exe, [kidx, c["n"]], timeout=120), c["n"], traps))
    except Unsupported as e:
        res["status"] = "unsupported"
        res["reason"] = str(e)
    res["verdicts"] = verd.summary()
    res["verdict_log"] = verd.log
    res["wall_s"] = round(time.time() - t0, 2)
    return res


# ---------------------------------------------------------------------------------------

def classify_run(out, n, traps):
    """real run of `k(n)` -> ('refused', trap) | ('accepted', size) | ('crash', signal) | ('hang',) | ('other', ..)"""
    if out.get("timeout"):
        return ("hang",)
    if out["signal"] is not None:
        return ("crash", out["signal"])
    st = out["status"]
    if st is not None and 101 <= st < 101 + len(traps):
        return ("refused", st - 101)
    m = re.search(r"size=(-?\d+)", out["stdout"])
    if st == 0 and m:
        m2 = re.search(r"size2=(-?\d+)", out["stdout"])
        if m2 and int(m2.group(1)) != int(m.group(1)):
            return ("corrupt", int(m.group(1)), int(m2.group(1)))
        return ("accepted", int(m.group(1)))
    return ("other", st, out["stdout"][:80], out["stderr"][:120])


def run_check(tier, repo_note=""):
    t0 = time.time()
    common.ensure_dirs()
    import shutil
    shutil.rmtree(os.path.join(common.WORK, "x64", "smt2", "c13"), ignore_errors=True)   # dumps of this run only
    build.toolchain()
    traps = build.trap_kinds()
    for need in ("OVERFLOW", "OOM", "INDEX_OUT_OF_BOUNDS"):
        if need not in traps:
            raise Inconclusive("trap kind %s missing from dora-compiler/src/abi.rs" % need)
    global HEADER
    HEADER = array_header()
    kernels = kernel_list(tier)
    wd = build.workdir("c13")
    src = os.path.join(wd, "c13.dora")
    with open(src, "w") as f:
        f.write(source(kernels))
    _CTX.update(kernels=kernels, traps=traps, layout=build.tld_layout(), refuse=build.default_max_heap())
    tb = time.time()
    for be, pr in zip(build.BACKENDS, build.compile_all([(src, be) for be in build.BACKENDS])):
        _PROGS[be] = pr
    log("[C13] compiled %d kernels with both back ends in %.1fs" % (len(kernels), time.time() - tb))
    jobs = [(i, be, tier) for i in range(len(kernels)) for be in build.BACKENDS]
    results = par.run_jobs(analyse, jobs)
    rep = Reporter(PID)
    analysed, unsupported, undecided_total, q_total, st_total = [], [], 0, 0, 0.0
    samples, replays, vac_missing, validated = [], 0, [], 0
    cvc5_checked = 0
    reported = {}
    unrepro = []
    mnemonics = set()
    for (kidx, be, _), (st, r) in zip(jobs, results):
        k = kernels[kidx]
        if st == "err":
            raise Inconclusive("worker failed for %s/%s: %s" % (k["name"], be, r))
        if r["status"] != "ok":
            unsupported.append("%s/%s: %s" % (k["name"], be, r.get("reason")))
            continue
        analysed.append(r)
        mnemonics.update(r["mnemonics"])
        q_total += r["verdicts"]["queries"] + r["explore_queries"]
        st_total += r["verdicts"]["solver_time_s"] + r["explore_solver_s"]
        cvc5_checked += r["verdicts"]["cvc5_cross_checked"]
        und = [q for q in r["queries"] if q["result"] == "unknown"]
        undecided_total += len(und)
        which = kidx
        exe = _PROGS[be].exe
        # translator validation: lifted outcome set must contain the real outcome
        for vi in r["validation_inputs"]:
            got = tuple(vi["observed"])
            if "expect" in vi:
                ok = got == ("refused", vi["expect"][1])
            else:
                exp = [tuple(e) for e in vi["expect_any"]]
                ok = (got[0] == "accepted" and ("size", got[1]) in exp) or (got[0] == "refused" and ("trap", got[1]) in exp)
                if not exp:
                    ok = True      # no path admits this n with a modelled outcome (cannot validate)
            if not ok:
                # a wrong-size candidate explains a crash; anything else is an encoding problem
                if r["candidates"]:
                    continue
                raise Inconclusive("encoding wrong? %s/%s n=%d: real run %s, lifted code predicts %s"
                                   % (k["name"], be, vi["n"], got, vi.get("expect", vi.get("expect_any"))))
            validated += 1
        # vacuity
        for vk in ("inline_allocation_reachable_n", "slow_path_reachable_n"):
            if r["vacuity"].get(vk) is None:
                vac_missing.append("%s/%s: %s" % (k["name"], be, vk))
        # candidates -> replay
        by_class = {}
        for c in r["candidates"]:
            by_class.setdefault(c["class"], []).append(c)
        for cls, cs in by_class.items():
            reproduced = None
            tried = []
            for c in cs:
                got = tuple(c["observed"])
                replays += 1
                tried.append({"n": c["n"], "group": c["group"], "why": c["why"], "observed": list(got)})
                bad = got[0] in ("crash", "hang", "corrupt") or (got[0] == "accepted" and cls != "valid") or \
                    (got[0] == "accepted" and cls == "valid" and got[1] != c["n"]) or got[0] == "other"
                if cls == "valid" and c["group"] == "zero-init":
                    bad = False      # needs a content dump to observe; handled as inconclusive below
                if bad and reproduced is None:
                    reproduced = tried[-1]
            key = "newarray/%s/elem%d/%s" % (be, k["elem"], cls)
            if reproduced is None:
                unrepro.append("%s kernel %s: %s" % (key, k["name"], tried))
                continue
            obs = reproduced["observed"]
            what = ("%s code generator, Array[%s]::%s(n) with n=%d (%s length): %s; real executable: %s"
                    % ("baseline" if be == "cannon" else "optimizing", k["ty"], k["ctor"], reproduced["n"], cls,
                       "; ".join(reproduced["why"]) or "assertion violated",
                       {"crash": "killed by signal %s" % (obs[1] if len(obs) > 1 else "?"), "hang": "hangs",
                        "corrupt": "writing the elements of the array overwrites the next object (its size reads %s)" % (obs[2] if len(obs) > 2 else "?"),
                        "accepted": "allocation accepted, reports size %s, exit 0" % (obs[1] if len(obs) > 1 else "?"),
                        "other": "unexpected exit %s" % (obs[1:],)}[obs[0]]))
            if key in reported:
                reported[key].append(k["name"])
                continue
            reported[key] = [k["name"]]
            rep.violation(key, what, {"check": PID, "kernel": k, "backend": be, "source": source(kernels), "which": which,
                                      "n": reproduced["n"], "class": cls, "observed": obs, "tried": tried})
            samples.append({"kernel": k["name"], "backend": be, "class": cls, "witness_n": reproduced["n"],
                            "observed": obs, "why": reproduced["why"]})
    if not analysed:
        raise Inconclusive("no kernel could be analysed: " + "; ".join(unsupported)[:600])
    if unrepro and not rep.new:
        raise Inconclusive("counterexample does not reproduce: " + " | ".join(unrepro[:3]))
    if vac_missing and not rep.new:
        raise Inconclusive("vacuity witness missing: " + "; ".join(vac_missing))
    # every element-size class must be covered with both back ends (quick never drops units)
    covered = set((r["elem"], r["backend"]) for r in analysed)
    missing = [(k["elem"], be) for k in kernels for be in build.BACKENDS if (k["elem"], be) not in covered]
    nq = sum(len(r["queries"]) for r in analysed)
    if missing:
        raise Inconclusive("element-size classes without an analysable kernel: %s (%s)" % (missing, "; ".join(unsupported)[:400]))
    if nq and undecided_total == nq:
        raise Inconclusive("all verdict queries undecided")
    for r in analysed[:6]:
        samples.append({"kernel": r["kernel"], "backend": r["backend"], "paths": r["paths"], "terminals": r["terminals"],
                        "verdicts": r["queries"][:6], "vacuity": r["vacuity"]})
    env_texts = sem.Env(_CTX["layout"])
    models.install_alloc(env_texts, traps["OOM"], _CTX["refuse"])
    assumptions = env_texts.assumption_texts + [
        "stack, thread-local block and heap are disjoint; llvm-objdump-14 decodes correctly; instruction semantics of vsym/x64/sem.py",
        "gc_alloc(size) never returns null: it returns an 8-aligned pointer to `size` usable bytes or ends the process with the OOM trap (dora-runtime/src/gc.rs); requests >= the default max heap size (%d bytes, dora-runtime/src/runtime/flags.rs) always end in that trap; claim and replays are for the default heap configuration (the routing itself is C13 part b, MIR)" % _CTX["refuse"] + "",
        "element sizes by type: Bool/UInt8 1, Int32/Char/Float32 4, Int64/Float64 8, tuples = sum of aligned fields, () 0; header %d bytes from dora-compiler/src/layout.rs" % HEADER,
        "symbolic trip-count loops are cut after the first iteration (stores of that iteration must stay inside the object); complete zero-initialisation proved only for n <= %d" % (3 if tier == "quick" else 6),
        "replay classification: signal / hang / accepted impossible length = reproduced; documented trap = refused",
    ]
    cov = {
        "programs": len(analysed),
        "disagreements_checked": replays,
        "samples": samples,
        "functions_encoded": sorted(set("k%s/%s" % (r["kernel"], r["backend"]) for r in analysed)),
        "bounds": {"n": "all of Int64", "loop_cut": "2 visits per instruction", "zero_init_full_for_n_le": 3 if tier == "quick" else 6,
                   "element_sizes": sorted(set(k["elem"] for k in kernels))},
        "queries": q_total, "solver_time_s": round(st_total, 2),
        "verdict_queries": nq, "verdict_queries_undecided": undecided_total, "cvc5_cross_checked": cvc5_checked,
        "vacuity_witnesses": {"%s/%s" % (r["kernel"], r["backend"]): r["vacuity"] for r in analysed},
        "translator_validation_runs": validated,
        "witnesses_not_reproduced": unrepro,
        "unsupported_kernels": unsupported,
        "mnemonics_executed": sorted(mnemonics),
        "paths": sum(r["paths"] for r in analysed),
        "known_findings_hit": [k for k, _ in rep.known_hit],
        "outside_the_claim": ["stack-overflow guard", "live-data out-of-memory", "spawned threads", "runtime size routing (part b, MIR)",
                              "arm64 output", "loops beyond the first iteration for unrestricted n"],
    }
    common.write_evidence(PID, tier, "translation_validation", cov, assumptions, time.time() - t0, violations=len(rep.new))
    log("[C13] %d kernel x back end pairs, %d verdict queries (%d undecided), %d replays, %d validation runs, %.1fs"
        % (len(analysed), nq, undecided_total, replays, validated, time.time() - t0))
    return rep.exit_code()


def main(tier):
    return run_check(tier)


def replay(path):
    import json
    d = json.load(open(path))["replay"]
    build.toolchain()
    wd = build.workdir("c13-replay")
    src = os.path.join(wd, "c13.dora")
    with open(src, "w") as f:
        f.write(d["source"])
    prog = build.Program(src, d["backend"])
    out = prog.run([d["which"], d["n"]], timeout=120)
    got = classify_run(out, d["n"], build.trap_kinds())
    print("replay %s n=%d -> %s (recorded: %s)" % (d["backend"], d["n"], got, d["observed"]))
    bad = got[0] in ("crash", "hang", "other", "corrupt") or (got[0] == "accepted" and d["class"] != "valid")
    if bad:
        print("VIOLATION property=%s replay=%s" % (PID, path))
        return 1
    return 0
