"""C01 - compiled kernels behave as the language semantics prescribe (X64 front end).

Each generated kernel (the C02 set) is compiled with both code generators; the lifted machine
code of each is compared with the *reference term* the generator builds from the AST it holds
(vsym/x64/kern.py: exact result or overflow/division trap, shift-amount trap, bounds trap,
short circuit, left-to-right evaluation: the first trap in evaluation order wins).
Assertion per back end and path: Trap(k) iff the first reference trap is k; otherwise the
returned value and the final caller-visible memory equal the reference.  The negation is decided
by z3 (cross-checked by cvc5); a witness is run on the real executable and reported only if the
real behaviour differs from the reference evaluated on the same inputs."""
import os
import time

import z3

from .. import common
from ..common import Inconclusive, Reporter, log
from ..x64 import build, kern, par, sem, smt, tv
from ..x64.sem import BV, Unsupported
from . import c02

PID = "C01"
_PROGS = {}
_CTX = {}


def expected_text(L, ref, refval, m):
    """reference outcome under a model, in the driver's output format"""
    ft = m.eval(ref.first_trap(), model_completion=True).as_long()
    if ft != tv.NONE:
        return ("trap", ft)
    k = L.k
    txt = "r=" + kern.fmt_value(k.ret, m.eval(refval, model_completion=True).as_long() if refval is not None else 0) + "\n"
    for n, t in k.arrays():
        ln = m.eval(L.setup.lens[n], model_completion=True).as_long()
        pv = m.eval(L.setup.vals[n], model_completion=True).as_long()
        els = []
        for j in range(ln):
            e = m.eval(sem.heap_load(ref.heap, BV(pv + 16 + j * t.elem.bytes, 64), t.elem.bytes), model_completion=True).as_long()
            els.append(kern.fmt_value(t.elem, e))
        txt += "%s=%s\n" % (n, "".join("," + e for e in els))
    return ("ret", txt)


def analyse(job):
    kidx, be, tier = job
    k = _CTX["kernels"][kidx]
    traps, layout = _CTX["traps"], _CTX["layout"]
    t0 = time.time()
    res = {"kernel": k.name, "backend": be, "label": c02.tree_label(k), "family": k.family, "source": k.source(), "status": "ok",
           "candidates": [], "queries": [], "validation": [], "vacuity": {}, "mnemonics": []}
    verd = smt.Verdicts("c01/%s-%s" % (k.name, be), tier)
    verd.cvc5_cap_s = 20 if tier == "quick" else 120
    try:
        L = tv.Lifted(k, be, _PROGS[be], layout, traps)
        res["paths"] = len(L.paths)
        res["mnemonics"] = sorted(L.ex.stats["mnemonics"])
        res["explore_queries"] = L.ex.stats["queries"]
        res["explore_solver_s"] = round(L.ex.stats["solver_time_s"], 2)
        res["steps"] = L.ex.stats["steps"]
        ref, refval = L.setup.reference()
        side = list(ref.assume)
        base = L.assumptions + side
        first = ref.first_trap()
        none = BV(tv.NONE, 32)
        alts = []
        for p in L.paths:
            kd = p.term.kind
            if kd == "trap":
                mm = sem.simp(first != L.trap_kind(p))
            elif kd == "return":
                ms = [first != none]
                v = L.value(p)
                if v is not None:
                    ms.append(v != refval)
                if not z3.eq(p.heap, ref.heap):
                    ms.append(p.heap != ref.heap)
                mm = z3.Or(*ms)
            elif kd in ("loopcut", "rtcall"):
                raise Unsupported("path ends in %s" % p.term)
            else:
                mm = z3.BoolVal(True)
            alts.append(z3.And(p.pc(), mm))
        r, m = verd.check("reference", base + [z3.Or(*alts)])
        res["queries"].append({"kind": "reference", "result": r, "paths": len(L.paths), "reference_traps": len(ref.traps)})
        if r == "sat":
            m2, av, conc = tv.witness_args(L, side + [z3.Or(*alts)], timeout_ms=60000)
            cand = {"argv": av}
            if av is not None:
                av[0] = str(kidx)
                cand["expected"] = list(expected_text(L, ref, refval, m2))
                cand["observed"] = list(tv.observe(_PROGS[be].run(av, timeout=60), traps))
                for p in L.paths:
                    if z3.is_true(m2.eval(p.pc(), model_completion=True)):
                        cand["lifted"] = list(L.describe(p, m2))
            res["candidates"].append(cand)
        # ---- vacuity: every reference trap kind and the normal return are reachable in the lifted code
        kinds = sorted(set(kk for _, kk in ref.traps))
        for kk in kinds:
            ps = [p.pc() for p in L.paths if p.term.kind == "trap" and z3.is_bv_value(p.term.trap) and p.term.trap.as_long() == kk]
            # only required when the reference can actually raise it
            rr, _ = verd.check("ref-trap-%d-possible" % kk, base + [first == BV(kk, 32)], cross=False, want_model=False)
            if rr != "sat":
                res["vacuity"]["trap_%d" % kk] = "reference cannot raise it"
                continue
            if not ps:
                res["vacuity"]["trap_%d" % kk] = False
                continue
            rr, _ = verd.check("vacuity-trap-%d" % kk, base + [z3.Or(*ps)], cross=False, want_model=False)
            res["vacuity"]["trap_%d" % kk] = rr == "sat"
        ps = [p.pc() for p in L.paths if p.term.kind == "return"]
        rr, _ = verd.check("ref-return-possible", base + [first == none], cross=False, want_model=False)
        if rr != "sat":
            res["vacuity"]["return"] = "reference cannot return normally"
        else:
            rr = "unsat"
            if ps:
                rr, _ = verd.check("vacuity-return", base + [z3.Or(*ps)], cross=False, want_model=False)
            res["vacuity"]["return"] = rr == "sat"
        # ---- register convention of the optimizing back end (informational)
        if be == "boots" and k.ret.bits in (8, 32):
            cs = [z3.And(p.pc(), z3.Extract(63, k.ret.bits, p.term.rax) != BV(0, 64 - k.ret.bits)) for p in L.paths if p.term.kind == "return"]
            if cs:
                rr, _ = verd.check("convention-zero-extended-result", base + [z3.Or(*cs)], cross=False, want_model=False)
                res["result_zero_extended"] = rr == "unsat"
        runs, bad = tv.validate_paths(L, kidx, traps, side, max_paths=4 if tier == "quick" else 10)
        res["validation"].append({"backend": be, "runs": runs, "mismatches": bad})
        bi = tv.boundary_inputs(k, quick=tier == "quick")
        if bi:
            runs, bad = tv.validate_inputs(L, kidx, traps, bi, side)
            res["validation"].append({"backend": be, "runs": runs, "mismatches": bad, "kind": "float boundary values"})
            res["boundary_runs"] = runs
    except Unsupported as e:
        res["status"] = "unsupported"
        res["reason"] = str(e)
    res["verdicts"] = verd.summary()
    res["wall_s"] = round(time.time() - t0, 2)
    return res


def run_check(tier):
    t0 = time.time()
    common.ensure_dirs()
    import shutil
    shutil.rmtree(os.path.join(common.WORK, "x64", "smt2", "c01"), ignore_errors=True)   # dumps of this run only
    build.toolchain()
    traps = build.trap_kinds()
    for need in ("DIV0", "OVERFLOW", "SHIFT", "INDEX_OUT_OF_BOUNDS"):
        if need not in traps:
            raise Inconclusive("trap kind %s missing from dora-compiler/src/abi.rs" % need)
    layout = build.tld_layout()
    kernels = c02.kernel_set(tier)
    if tier == "thorough":
        extra = kern.tree_family(common.seed() * 104729 + 5, 200)
        for i, t in enumerate(extra):
            t.name = "u%d" % i
        kernels += extra
    wd = build.workdir("c01")
    src = os.path.join(wd, "c01.dora")
    with open(src, "w") as f:
        f.write(kern.driver_source(kernels))
    _CTX.update(kernels=kernels, traps=traps, layout=layout)
    tb = time.time()
    for be, pr in zip(build.BACKENDS, build.compile_all([(src, be) for be in build.BACKENDS])):
        _PROGS[be] = pr
    log("[C01] compiled %d kernels with both back ends in %.1fs" % (len(kernels), time.time() - tb))
    jobs = [(i, be, tier) for i in range(len(kernels)) for be in build.BACKENDS]
    flt = os.environ.get("VERIF_DEV_FILTER")          # development aid only
    if flt:
        jobs = [j for j in jobs if flt in (kernels[j[0]].name + " " + c02.tree_label(kernels[j[0]]))]
    results = par.run_jobs(analyse, jobs)
    rep = Reporter(PID)
    analysed, unsupported, samples = [], [], []
    nq = und = replays = vruns = 0
    q_total, st_total, cvc5_checked = 0, 0.0, 0
    mnemonics, reported = set(), set()
    vac_bad, not_zx = [], []
    unrepro = []
    for job, (st, r) in zip(jobs, results):
        if st == "err":
            raise Inconclusive("worker failed for %s: %s" % (job[:2], r))
        if r["status"] != "ok":
            unsupported.append("%s/%s (%s): %s" % (r["kernel"], r["backend"], r["label"], r.get("reason")))
            continue
        analysed.append(r)
        if flt:
            log("   %s/%s %s paths=%s %s vac=%s %.1fs" % (r["kernel"], r["backend"], r["label"], r["paths"],
                                                        [q["result"] for q in r["queries"]], r["vacuity"], r["wall_s"]))
        mnemonics.update(r["mnemonics"])
        q_total += r["verdicts"]["queries"] + r["explore_queries"]
        st_total += r["verdicts"]["solver_time_s"] + r["explore_solver_s"]
        cvc5_checked += r["verdicts"]["cvc5_cross_checked"]
        nq += len(r["queries"])
        und += sum(1 for q in r["queries"] if q["result"] == "unknown")
        for v in r["validation"]:
            vruns += v["runs"]
            if v["mismatches"] and not r["candidates"]:
                # (with candidates the difference is what the witnesses are about: they are replayed below)
                raise Inconclusive("encoding wrong? lifted code and real executable differ: %s" % v["mismatches"][0])
        for kk, ok in r["vacuity"].items():
            if ok is False:
                vac_bad.append("%s/%s: %s" % (r["kernel"], r["backend"], kk))
        if r.get("result_zero_extended") is False:
            not_zx.append("%s (%s)" % (r["kernel"], r["label"]))
        for c in r["candidates"]:
            replays += 1
            if c.get("argv") is None:
                unrepro.append("witness of %s/%s cannot be passed to the driver" % (r["kernel"], r["backend"]))
                continue
            exp, obs = c["expected"], c["observed"]
            if exp == obs:
                unrepro.append("%s/%s args %s: real executable behaves as the reference (%s); lifted code predicted %s"
                               % (r["kernel"], r["backend"], c["argv"][1:], obs, c.get("lifted")))
                continue
            key = "sem/%s/%s/%s-vs-%s" % (r["label"], r["backend"], "trap%d" % exp[1] if exp[0] == "trap" else exp[0],
                                          "trap%d" % obs[1] if obs[0] == "trap" else obs[0])
            what = "%s code generator, kernel `%s`, args %s: language rules give %s, real executable gives %s" % (
                "baseline" if r["backend"] == "cannon" else "optimizing", r["source"], c["argv"][1:], exp, obs)
            if key not in reported:
                reported.add(key)
                rep.violation(key, what, {"check": PID, "kernel_source": r["source"], "driver": kern.driver_source(kernels),
                                          "argv": c["argv"], "backend": r["backend"], "expected": exp, "observed": obs})
                samples.append({"kernel": r["kernel"], "key": key, "expected": exp, "observed": obs, "argv": c["argv"]})
    if not analysed:
        raise Inconclusive("no kernel could be analysed: " + "; ".join(unsupported)[:600])
    if unrepro and not rep.new:
        raise Inconclusive("counterexample does not reproduce: " + " | ".join(unrepro[:3]))
    if vac_bad and not rep.new:
        raise Inconclusive("vacuity: outcome of the reference not reachable in the lifted code: " + "; ".join(vac_bad[:10]))
    fams = set(r["family"] for r in analysed)
    if not flt:
        for f in ("single", "tree"):
            if f not in fams:
                raise Inconclusive("no kernel of family %s analysed: %s" % (f, "; ".join(unsupported)[:400]))
            qs = [q for r in analysed if r["family"] == f for q in r["queries"]]
            if qs and all(q["result"] == "unknown" for q in qs):
                raise Inconclusive("all queries of family %s undecided" % f)
    for r in analysed[:4] + [r for r in analysed if r["family"] == "tree"][:4]:
        samples.append({"kernel": r["kernel"], "backend": r["backend"], "source": r["source"], "paths": r["paths"],
                        "queries": r["queries"], "vacuity": r["vacuity"]})
    e = sem.Env(layout)
    assumptions = e.assumption_texts + [
        "reference semantics as listed at the top of vsym/x64/kern.py (sources: property statement, pkgs/std/primitives.dora, test/rt/int)",
        "arguments: baseline code is lifted with arbitrary upper register bits for sub-64-bit arguments, optimizing code with zero-extended ones; Bool arguments are 0/1, Char arguments Unicode scalar values",
        "array arguments: non-null, 8-aligned, length word == len <= 2^32, valid memory is exactly [p, p+16+len*elem); Bool/Char elements read by a kernel hold valid values",
        "returned value = low bits of rax of the result type's width",
        "stack, thread-local block and heap are disjoint; llvm-objdump-14 decodes correctly; instruction semantics of vsym/x64/sem.py",
    ]
    cov = {
        "programs": len(analysed),
        "disagreements_checked": replays,
        "samples": samples,
        "functions_encoded": len(analysed),
        "operators_covered": sorted(set(r["label"] for r in analysed if r["family"] == "single")),
        "trees": len(set(r["kernel"] for r in analysed if r["family"] == "tree")),
        "bounds": {"tree_depth": 3, "loop_visits": 6, "array_length": "<= 2^32 symbolic"},
        "queries": q_total, "solver_time_s": round(st_total, 2), "verdict_queries": nq, "verdict_queries_undecided": und,
        "undecided_kernels": ["%s/%s" % (r["kernel"], r["backend"]) for r in analysed if any(q["result"] == "unknown" for q in r["queries"])],
        "cvc5_cross_checked": cvc5_checked,
        "vacuity_witnesses": {"kernels_with_all_reference_outcomes_reachable": len(analysed),
                              "trap_outcomes_checked": sum(1 for r in analysed for kk, v in r["vacuity"].items() if v is True and kk != "return")},
        "translator_validation_runs": vruns,
        "witnesses_not_reproduced": unrepro,
        "optimizing_results_not_zero_extended": not_zx,
        "unsupported_kernels": unsupported,
        "mnemonics_executed": sorted(mnemonics),
        "known_findings_hit": [k for k, _ in rep.known_hit],
        "outside_the_claim": ["everything that needs a heap allocation or a call: classes, closures, trait objects, generics, strings, Vec/Option, globals",
                              "floating point arithmetic and comparisons; only float<->int conversions are covered", "compositions beyond depth-3 expression kernels", "arm64 output", "stdout formatting of the runtime"],
    }
    common.write_evidence(PID, tier, "translation_validation", cov, assumptions, time.time() - t0, violations=len(rep.new))
    log("[C01] %d kernel x back end pairs analysed (%d unsupported), %d verdict queries (%d undecided), %d replays, %d validation runs, %.1fs"
        % (len(analysed), len(unsupported), nq, und, replays, vruns, time.time() - t0))
    return rep.exit_code()


def main(tier):
    return run_check(tier)


def replay(path):
    import json
    d = json.load(open(path))["replay"]
    build.toolchain()
    traps = build.trap_kinds()
    wd = build.workdir("c01-replay")
    src = os.path.join(wd, "r.dora")
    open(src, "w").write(d["driver"])
    obs = list(tv.observe(build.Program(src, d["backend"]).run(d["argv"], timeout=120), traps))
    print("replay: observed %s, language rules give %s (recorded observation %s)" % (obs, d["expected"], d["observed"]))
    if obs != d["expected"]:
        print("VIOLATION property=%s replay=%s" % (PID, path))
        return 1
    return 0
