"""Models of the concurrency primitives for mode bmc (sequentially consistent memory):
std atomics, parking_lot Mutex / Condvar.  Shared objects are value trees inside root cells:

  Atomic<T>      Tup(name="Atomic",  fields=(Int,))
  Mutex<T>       Tup(name="Mutex",   fields=(locked: Bool, data))
  Condvar        Opaque("condvar:<id>")
  scheduler      root "sched": Tup of per-thread wait words (u8): 0 running, c blocked on condvar c, 0x80 notified
"""
import re

import z3

from ..common import Inconclusive
from .interp import Adt, Cell, Int, Opaque, Panic, PathAbort, Ref, Tup, UNIT, get_path, set_path
from .models import deref, model, write_ref, MODELS
from .bmc import YieldAt, NCHOICE

CMODELS = []


def cmodel(pat):
    def deco(fn):
        CMODELS.append((re.compile(pat), fn))
        return fn
    return deco


VISIBLE_RE = re.compile(r"(std::sync::atomic::)?Atomic(Usize|U8|U32|U64|Bool|I32|I64|Isize)?::(load|store|swap|fetch_\w+|compare_exchange(_weak)?)"
                        r"|(parking_lot::)?(lock_api::)?Mutex::lock|(parking_lot::)?Condvar::(wait|notify_one|notify_all)"
                        r"|verif_\w+|(\w+::)*verif_\w+")


def visible(callee):
    return VISIBLE_RE.fullmatch(callee) is not None


def atomic_cell(a):
    """a: Ref to an Atomic -> (ref to the inner Int)"""
    if not isinstance(a, Ref):
        raise Inconclusive("atomic receiver %r" % (a,))
    v = get_path(a.cell.v, a.path)
    if isinstance(v, Tup) and v.name == "Atomic":
        return Ref(a.cell, a.path + (0,))
    raise Inconclusive("not an atomic: %r" % (v,))


def rd(r):
    return get_path(r.cell.v, r.path)


@cmodel(r"(std::sync::atomic::)?Atomic(Usize|U8|U32|U64|Bool|I32|I64|Isize)?::load")
def a_load(it, ctx, callee, args):
    return rd(atomic_cell(args[0]))


@cmodel(r"(std::sync::atomic::)?Atomic(Usize|U8|U32|U64|Bool|I32|I64|Isize)?::store")
def a_store(it, ctx, callee, args):
    write_ref(atomic_cell(args[0]), args[1])
    return UNIT


@cmodel(r"(std::sync::atomic::)?Atomic(Usize|U8|U32|U64|Bool|I32|I64|Isize)?::swap")
def a_swap(it, ctx, callee, args):
    r = atomic_cell(args[0])
    old = rd(r)
    write_ref(r, args[1])
    return old


@cmodel(r"(std::sync::atomic::)?Atomic(Usize|U8|U32|U64|Bool|I32|I64|Isize)?::fetch_(add|sub|or|and|xor)")
def a_fetch(it, ctx, callee, args):
    op = re.search(r"fetch_(\w+)", callee).group(1)
    r = atomic_cell(args[0])
    old = rd(r)
    b = args[1]
    if isinstance(old, Int):
        t = {"add": old.t + b.t, "sub": old.t - b.t, "or": old.t | b.t, "and": old.t & b.t, "xor": old.t ^ b.t}[op]
        write_ref(r, Int(t, old.ty))
    else:
        t = {"or": z3.Or(old, b), "and": z3.And(old, b), "xor": z3.Xor(old, b)}[op]
        write_ref(r, t)
    return old


@cmodel(r"(std::sync::atomic::)?Atomic(Usize|U8|U32|U64|Bool|I32|I64|Isize)?::compare_exchange(_weak)?")
def a_cas(it, ctx, callee, args):
    r = atomic_cell(args[0])
    old = rd(r)
    exp, new = args[1], args[2]
    eq = (old.t == exp.t) if isinstance(old, Int) else (old == exp)
    # compare_exchange_weak may fail spuriously; callers loop; modelled as strong (no spurious failure)
    if ctx.branch(eq):
        write_ref(r, new)
        return Adt("Result", "Ok", (old,))
    return Adt("Result", "Err", (old,))


def mutex_of(m):
    if not isinstance(m, Ref):
        raise Inconclusive("mutex receiver %r" % (m,))
    v = get_path(m.cell.v, m.path)
    if isinstance(v, Tup) and v.name == "Mutex":
        return m
    raise Inconclusive("not a mutex: %r" % (v,))


@cmodel(r"(parking_lot::)?(lock_api::)?Mutex::lock")
def m_lock(it, ctx, callee, args):
    m = mutex_of(args[0])
    locked = Ref(m.cell, m.path + (0,))
    ctx.assume(z3.Not(rd(locked)))          # blocking: the edge is enabled only when the mutex is free
    write_ref(locked, z3.BoolVal(True))
    return Tup((m,), name="MutexGuard")


def unlock_guard(g):
    m = g.fields[0]
    write_ref(Ref(m.cell, m.path + (0,)), z3.BoolVal(False))


@cmodel(r"<(parking_lot::)?(lock_api::)?MutexGuard<.*> as (std::ops::|core::ops::)?Deref(Mut)?>::deref(_mut)?")
def m_guard_deref(it, ctx, callee, args):
    g = deref(args[0])
    m = g.fields[0]
    return Ref(m.cell, m.path + (1,))


def sched(it):
    return it.system.roots["sched"]


def wq_ref(it, t):
    return Ref(sched(it), (t,))


def cv_id(cv):
    v = deref(cv)
    if isinstance(v, Opaque) and v.what.startswith("condvar:"):
        return int(v.what.split(":")[1])
    raise Inconclusive("not a condvar: %r" % (v,))


@cmodel(r"(parking_lot::)?Condvar::wait")
def c_wait(it, ctx, callee, args):
    c = cv_id(args[0])
    g = deref(args[1])
    me = wq_ref(it, it.thread)
    w = rd(me)
    if ctx.branch(w.t == 0):
        # first half: release the mutex and block
        unlock_guard(g)
        write_ref(me, Int(c, "u8"))
        raise YieldAt()
    # second half: notified, re-acquire the mutex
    ctx.assume(w.t == 0x80)
    m = g.fields[0]
    locked = Ref(m.cell, m.path + (0,))
    ctx.assume(z3.Not(rd(locked)))
    write_ref(locked, z3.BoolVal(True))
    write_ref(me, Int(0, "u8"))
    return UNIT


def take_choice(ctx, it):
    i = ctx.choice_n
    if i >= NCHOICE:
        raise Inconclusive("more than %d nondeterministic choices in one step" % NCHOICE)
    ctx.choice_n += 1
    rc = getattr(ctx, "replay_choices", None)
    if rc is not None:
        return z3.BitVecVal(rc[i], 8)
    return it.system.choice_const(i)


@cmodel(r"(parking_lot::)?Condvar::notify_one")
def c_notify_one(it, ctx, callee, args):
    c = cv_id(args[0])
    T = it.system.T
    ws = [rd(wq_ref(it, t)) for t in range(T)]
    anyw = z3.Or(*[w.t == c for w in ws])
    if not ctx.branch(anyw):
        return z3.BoolVal(False)
    ch = take_choice(ctx, it)
    # adversarial choice of the woken thread among those blocked on this condvar; a choice value that
    # names no waiter falls back to the lowest waiter, so enabledness never depends on the choice variable
    valid = z3.Or(*[z3.And(ch == t, ws[t].t == c) for t in range(T)])
    for t in range(T):
        lowest = z3.And(ws[t].t == c, *[ws[u].t != c for u in range(t)])
        pick = z3.Or(z3.And(ch == t, ws[t].t == c), z3.And(z3.Not(valid), lowest))
        write_ref(wq_ref(it, t), Int(z3.If(pick, z3.BitVecVal(0x80, 8), ws[t].t), "u8"))
    return z3.BoolVal(True)


@cmodel(r"(parking_lot::)?Condvar::notify_all")
def c_notify_all(it, ctx, callee, args):
    c = cv_id(args[0])
    T = it.system.T
    for t in range(T):
        w = rd(wq_ref(it, t))
        write_ref(wq_ref(it, t), Int(z3.If(w.t == c, z3.BitVecVal(0x80, 8), w.t), "u8"))
    return Int(0, "usize")


def mk_atomic(v):
    return Tup((v,), name="Atomic")


def mk_mutex(data=UNIT):
    return Tup((z3.BoolVal(False), data), name="Mutex")


def mk_condvar(i):
    return Opaque("condvar:%d" % i)


def all_models():
    return CMODELS + MODELS
