"""Parser for rustc's -Zunpretty=mir text (rustc 1.9x nightly).

Only syntax; no semantics.  Produces Fn objects with blocks of statements / terminators whose
places, operands and rvalues are small tuples (see the constructors below)."""
import re
from collections import namedtuple

Place = namedtuple("Place", "local projs")        # projs: tuple of proj tuples
# proj: ('deref',) ('field', idx, ty) ('downcast', variant) ('index', local)
#       ('constindex', i, minlen, from_end) ('subslice', a, b, from_end)
Stmt = namedtuple("Stmt", "kind a b text")          # kind: assign(a=place,b=rvalue) | setdiscr(a=place,b=idx) | nop
Term = namedtuple("Term", "kind f text")            # f: dict of fields


class Block:
    __slots__ = ("idx", "stmts", "term", "cleanup")

    def __init__(self, idx, cleanup):
        self.idx, self.cleanup, self.stmts, self.term = idx, cleanup, [], None


class Fn:
    def __init__(self, name, rawname, params, ret, kind):
        self.name, self.rawname, self.params, self.ret, self.kind = name, rawname, params, ret, kind
        self.locals = {}     # idx -> type text
        self.debug = {}      # idx -> source name
        self.blocks = {}
        self.header_line = 0

    def __repr__(self):
        return "<Fn %s>" % self.name


def split_top(s, sep=","):
    """split on sep at bracket depth 0 (brackets () [] {} <>; '->' and '=>' are not brackets)"""
    out, depth, cur, i, n = [], 0, [], 0, len(s)
    instr = None
    while i < n:
        c = s[i]
        if instr:
            cur.append(c)
            if c == "\\" and i + 1 < n:
                cur.append(s[i + 1]); i += 2; continue
            if c == instr:
                instr = None
            i += 1; continue
        if c == '"':
            instr = '"'; cur.append(c); i += 1; continue
        if c == "'" and _is_char_lit(s, i):
            j = _char_lit_end(s, i)
            cur.append(s[i:j]); i = j; continue
        if c in "([{":
            depth += 1
        elif c in ")]}":
            depth -= 1
        elif c == "<":
            if _angle_opens(s, i):
                depth += 1
        elif c == ">":
            if i > 0 and s[i - 1] in "-=":
                pass
            elif _angle_closes(s, i, depth):
                depth -= 1
        if c == sep and depth == 0:
            out.append("".join(cur).strip()); cur = []
        else:
            cur.append(c)
        i += 1
    last = "".join(cur).strip()
    if last or out:
        out.append(last)
    return out


def _is_char_lit(s, i):
    # 'x' or '\n' or '\u{..}' ; lifetimes look like 'a without closing quote soon
    m = re.match(r"'(\\u\{[0-9a-fA-F]+\}|\\.|[^'\\])'", s[i:i + 14])
    return m is not None


def _char_lit_end(s, i):
    m = re.match(r"'(\\u\{[0-9a-fA-F]+\}|\\.|[^'\\])'", s[i:i + 14])
    return i + m.end()


def _angle_opens(s, i):
    # '<' is a bracket in type/path context: preceded by '::', identifier char, '&', '(' , ',' , ' ' + next is not ' ' or '='
    nxt = s[i + 1] if i + 1 < len(s) else ""
    if nxt in " =<":
        return False
    return True


def _angle_closes(s, i, depth):
    prev = s[i - 1] if i else ""
    if prev == " " and (i + 1 < len(s) and s[i + 1] in " ="):
        return False
    return depth > 0


_IMPL_RE = re.compile(r"<impl at ([^>]*?):(\d+):(\d+): (\d+):(\d+)>")
_src_cache = {}


def _impl_header(repo, path, l1, c1, l2, c2):
    key = (path, l1, c1, l2, c2)
    if key in _src_cache:
        return _src_cache[key]
    txt = None
    try:
        import os
        lines = open(os.path.join(repo, path)).read().split("\n")
        if l1 == l2:
            txt = lines[l1 - 1][c1 - 1:c2 - 1]
        else:
            parts = [lines[l1 - 1][c1 - 1:]] + lines[l1:l2 - 1] + [lines[l2 - 1][:c2 - 1]]
            txt = " ".join(p.strip() for p in parts)
    except Exception:
        txt = None
    _src_cache[key] = txt
    return txt


def normalise_name(raw, repo, first_param=None):
    """`terminator::<impl at f.rs:17:1: 17:16>::wake_up` -> `Terminator::wake_up`
    `x::<impl at ..>::m` for `impl Tr for Ty` -> `<Ty as Tr>::m`."""
    m = _IMPL_RE.search(raw)
    if not m:
        return raw
    hdr = _impl_header(repo, m.group(1), int(m.group(2)), int(m.group(3)), int(m.group(4)), int(m.group(5)))
    rest = raw[m.end():]
    if not hdr:
        return "<impl?>" + rest
    h = hdr.strip()
    if not re.match(r"^(unsafe\s+)?impl\b", h):
        # #[derive(Trait)]: the span covers the trait name; the self type is the first parameter's type
        ty = (first_param or "Self").strip()
        ty = re.sub(r"^&(mut )?", "", ty)
        if h.startswith("#["):
            # attribute macro generating an inherent impl (e.g. #[dora_object]): `Type::method`
            return re.sub(r"<.*>$", "", split_path(ty)[-1]) + rest
        return "<%s as %s>%s" % (ty, h, rest)
    h = re.sub(r"^unsafe\s+", "", h)
    h = re.sub(r"^impl\s*", "", h)
    if h.startswith("<"):
        # generic params of the impl: skip balanced
        d = 0
        for i, c in enumerate(h):
            if c == "<": d += 1
            elif c == ">":
                d -= 1
                if d == 0:
                    h = h[i + 1:].strip(); break
    h = re.sub(r"\s+where\s.*$", "", h).strip()
    if " for " in h:
        tr, ty = h.split(" for ", 1)
        return "<%s as %s>%s" % (ty.strip(), tr.strip(), rest)
    # inherent impl of a generic type: calls print as `Type::<Args>::method`, i.e. `Type::method` without generics
    h = re.sub(r"^([A-Za-z_][\w:]*)<.*>$", r"\1", h)
    return h + rest


_FN_RE = re.compile(r"^(fn|const|static|static mut) (.+)$")
_BB_RE = re.compile(r"^    bb(\d+)( \(cleanup\))?: \{$")
_LET_RE = re.compile(r"^\s*let (mut )?_(\d+): (.*);$")
_DEBUG_RE = re.compile(r"^\s*debug (.+?) => (.+);$")


def parse_file(path, repo):
    text = open(path).read()
    return parse_text(text, repo)


def parse_text(text, repo):
    fns = {}
    order = []
    consts = {}     # name -> const text (one-line consts: `const X: T = const V;`)
    allocs = {}     # allocN -> bytes
    lines = text.split("\n")
    i, n = 0, len(lines)
    while i < n:
        ln = lines[i]
        if ln.startswith("fn ") and ln.endswith("{"):
            i = _parse_fn(lines, i, fns, order, repo, "fn")
            continue
        if (ln.startswith("const ") or ln.startswith("static ")) and ln.endswith("= {"):
            i = _parse_fn(lines, i, fns, order, repo, "const")
            continue
        if (ln.startswith("const ") or ln.startswith("static ")) and ln.endswith(";") and " = " in ln:
            m = re.match(r"^(?:const|static(?: mut)?) (.+?): (.+?) = (.*);$", ln)
            if m:
                consts[m.group(1)] = (m.group(2), m.group(3))
            i += 1
            continue
        m = re.match(r"^(alloc\d+) \(.*size: (\d+), align: \d+\) \{", ln)
        if m:
            name, size = m.group(1), int(m.group(2))
            bs = []
            i += 1
            while i < n and lines[i] != "}":
                row = lines[i]
                row = row.split("│")
                hexpart = row[1] if len(row) >= 3 else row[0]
                for tok in hexpart.split():
                    if re.fullmatch(r"[0-9a-f]{2}", tok):
                        bs.append(int(tok, 16))
                    elif tok.startswith("__") or tok.startswith("╾"):
                        bs.append(None)
                i += 1
            allocs[name] = bs[:size]
            i += 1
            continue
        i += 1
    return Program(fns, order, consts, allocs, repo)


class Program:
    def __init__(self, fns, order, consts, allocs, repo):
        self.fns, self.order, self.consts, self.allocs, self.repo = fns, order, consts, allocs, repo
        self.by_last = {}
        for f in order:
            self.by_last.setdefault(last_segment(f.name), []).append(f)

    def find(self, name, nparams=None):
        """exact normalised name, else unique suffix match"""
        if name in self.fns:
            return self.fns[name]
        # `module::<impl path::Type>::method` (inherent impl in another module) -> `Type::method`
        m = re.match(r"^(?:\w+::)*<impl (?:\w+::)*(\w+)>::(.*)$", name)
        if m:
            name = m.group(1) + "::" + m.group(2)
            if name in self.fns:
                return self.fns[name]
        key = strip_generics(name)
        cands = [f for f in self.by_last.get(last_segment(key), [])
                 if strip_generics(f.name) == key or strip_generics(f.name).endswith("::" + key)
                 or key.endswith("::" + strip_generics(f.name))]
        if nparams is not None:
            c2 = [f for f in cands if len(f.params) == nparams]
            if c2:
                cands = c2
        if len(cands) == 1:
            return cands[0]
        if len(cands) > 1:
            ex = [f for f in cands if strip_generics(f.name) == key]
            if len(ex) == 1:
                return ex[0]
        # impls generated by derives are named after the first parameter's type, which is not the
        # self type for associated functions: match on trait + function name + arity
        m = re.match(r"^<(.*) as ([^<>]*)(<.*>)?>::(\w+)$", key)
        if m and not cands:
            tr, last = m.group(2).split("::")[-1], m.group(4)
            c3 = []
            for f in self.by_last.get(last, []):
                m2 = re.match(r"^<(.*) as ([^<>]*)(<.*>)?>::(\w+)(#\d+)?$", strip_generics(f.name))
                if m2 and m2.group(2).split("::")[-1] == tr and (nparams is None or len(f.params) == nparams):
                    c3.append(f)
            if len(c3) == 1:
                return c3[0]
        return None


def last_segment(name):
    parts = split_path(strip_generics(name))
    # closures: keep `f::{closure#0}` together
    out = parts[-1]
    k = len(parts) - 1
    while out.startswith("{closure") or out.startswith("{constant") or out.startswith("promoted["):
        k -= 1
        if k < 0:
            break
        out = parts[k] + "::" + out
    return out


def split_path(s):
    """split a::b::<T>::c on :: at depth 0"""
    out, depth, cur, i = [], 0, [], 0
    while i < len(s):
        c = s[i]
        if c in "<([{":
            depth += 1
        elif c in ">)]}":
            if not (c == ">" and i > 0 and s[i - 1] == "-"):
                depth -= 1
        if depth == 0 and s.startswith("::", i):
            out.append("".join(cur)); cur = []; i += 2; continue
        cur.append(c); i += 1
    out.append("".join(cur))
    return out


def strip_generics(s):
    """remove `::<...>` turbofish segments (balanced), keep `<T as Tr>` qualified-self prefixes"""
    out, i, n = [], 0, len(s)
    while i < n:
        if s.startswith("::<", i) and not s.startswith("::<impl", i):
            d, j = 0, i + 2
            while j < n:
                if s[j] == "<": d += 1
                elif s[j] == ">" and s[j - 1] != "-":
                    d -= 1
                    if d == 0:
                        break
                j += 1
            i = j + 1
            continue
        out.append(s[i]); i += 1
    return "".join(out)


def _parse_fn(lines, i, fns, order, repo, kind):
    hdr = lines[i]
    if kind == "fn":
        body = hdr[3:-1].rstrip()
        # name(params) -> ret
        p = _find_params_open(body)
        rawname = body[:p]
        depth, j = 0, p
        while j < len(body):
            if body[j] in "([{<": depth += 1
            elif body[j] in ")]}>" and not (body[j] == ">" and body[j - 1] == "-"):
                depth -= 1
                if depth == 0:
                    break
            j += 1
        ptxt = body[p + 1:j]
        rest = body[j + 1:].strip()
        ret = rest[2:].strip() if rest.startswith("->") else "()"
        params = []
        for part in split_top(ptxt):
            if not part:
                continue
            m = re.match(r"^_(\d+): (.*)$", part)
            params.append((int(m.group(1)), m.group(2)))
    else:
        # `<impl at file:l:c: l:c>` contains ": " itself: mask it while splitting name from type
        masked = _IMPL_RE.sub(lambda mm: "\x00" * len(mm.group(0)), hdr)
        m = re.match(r"^(?:const|static(?: mut)?) (.+?): (.+) = \{$", masked)
        rawname, ret, params = hdr[m.start(1):m.end(1)], hdr[m.start(2):m.end(2)], []
    name = normalise_name(rawname, repo, params[0][1] if params else None)
    fn = Fn(name, rawname, params, ret, kind)
    fn.header_line = i + 1
    for idx, ty in params:
        fn.locals[idx] = ty
    i += 1
    n = len(lines)
    cur = None
    while i < n:
        ln = lines[i]
        if ln == "}":
            i += 1
            break
        m = _BB_RE.match(ln)
        if m:
            cur = Block(int(m.group(1)), bool(m.group(2)))
            fn.blocks[cur.idx] = cur
            i += 1
            continue
        if cur is None:
            m = _LET_RE.match(ln)
            if m:
                fn.locals[int(m.group(2))] = m.group(3)
            else:
                m = _DEBUG_RE.match(ln)
                if m and re.fullmatch(r"_\d+", m.group(2)):
                    fn.debug[int(m.group(2)[1:])] = m.group(1)
            i += 1
            continue
        if ln == "    }":
            cur = None
            i += 1
            continue
        s = ln.strip()
        # statements may span a single line only in this dump format
        if s:
            try:
                _parse_line(fn, cur, s)
            except (ValueError, AssertionError, IndexError, KeyError) as e:
                # tolerated: only a function that actually executes this line becomes inconclusive
                if " -> " in s and cur.term is None and _TARGETS_RE.search(s.rstrip(";")):
                    cur.term = Term("unparsed", {"err": str(e)}, s)
                else:
                    cur.stmts.append(Stmt("unparsed", None, str(e), s))
        i += 1
    if name in fns:
        # duplicate normalised name (e.g. several impls): disambiguate by first parameter type
        k = 2
        alt = "%s#%d" % (name, k)
        while alt in fns:
            k += 1
            alt = "%s#%d" % (name, k)
        fn.name = alt
        name = alt
    fns[name] = fn
    order.append(fn)
    return i


def _find_params_open(body):
    """index of the '(' that opens the parameter list: first '(' at angle/brace depth 0"""
    depth = 0
    for k, c in enumerate(body):
        if c in "<{[":
            depth += 1
        elif c in ">}]":
            if not (c == ">" and k > 0 and body[k - 1] == "-"):
                depth -= 1
        elif c == "(" and depth == 0:
            return k
    raise ValueError("no parameter list: " + body)


_TARGETS_RE = re.compile(r" -> (\[.*\]|bb\d+|unwind .*)$")


def _parse_line(fn, blk, s):
    if s.endswith(";"):
        s = s[:-1]
    if s.startswith("//"):
        return
    # --- terminators
    if s == "return":
        blk.term = Term("return", {}, s); return
    if s == "unreachable":
        blk.term = Term("unreachable", {}, s); return
    if s in ("resume", "unwind resume", "terminate(cleanup)", "terminate(abi)", "abort"):
        blk.term = Term("resume", {}, s); return
    if s.startswith("goto -> "):
        blk.term = Term("goto", {"bb": int(s[10:])}, s); return
    if s.startswith("switchInt("):
        k = _match_paren(s, 9)
        op = parse_operand(s[10:k])
        tg = s[k + 1:].strip()
        assert tg.startswith("-> ["), s
        arms, other = [], None
        for part in split_top(tg[4:-1]):
            v, b = part.split(": ")
            b = int(b[2:])
            if v == "otherwise":
                other = b
            else:
                arms.append((int(v), b))
        blk.term = Term("switch", {"op": op, "arms": arms, "otherwise": other}, s); return
    if s.startswith("drop("):
        k = _match_paren(s, 4)
        pl = parse_place(s[5:k])
        m = re.search(r"return: bb(\d+)", s[k:])
        blk.term = Term("drop", {"place": pl, "bb": int(m.group(1)) if m else None}, s); return
    if s.startswith("assert("):
        k = _match_paren(s, 6)
        parts = split_top(s[7:k])
        c = parts[0]
        expected = True
        if c.startswith("!"):
            expected = False
            c = c[1:]
        m = re.search(r"success: bb(\d+)", s[k:])
        blk.term = Term("assert", {"cond": parse_operand(c), "expected": expected, "msg": parts[1] if len(parts) > 1 else "",
                                   "args": parts[2:], "bb": int(m.group(1)) if m else None}, s); return
    if s.startswith("falseEdge") or s.startswith("falseUnwind"):
        m = re.search(r"real: bb(\d+)", s)
        blk.term = Term("goto", {"bb": int(m.group(1))}, s); return
    # --- calls (with or without destination); detect by ' -> ' target suffix at top level
    tm = _TARGETS_RE.search(s)
    if tm and _is_call(s[:tm.start()]):
        head = s[:tm.start()]
        tgt = tm.group(1)
        dest = None
        eq = _find_top_assign(head)
        if eq is not None:
            dest = parse_place(head[:eq].strip())
            head = head[eq + 3:].strip()
        k = head.rfind(")")
        o = _match_paren_back(head, k)
        callee = head[:o].strip()
        args = [parse_operand(a) for a in split_top(head[o + 1:k]) if a]
        m = re.search(r"return: bb(\d+)", tgt)
        ret = int(m.group(1)) if m else None
        if ret is None:
            m2 = re.fullmatch(r"bb(\d+)", tgt)
            # `-> bbN` after a diverging call is the unwind/cleanup edge only when written 'unwind'
            ret = None
        blk.term = Term("call", {"dest": dest, "callee": callee, "args": args, "bb": ret}, s); return
    # --- statements
    if s.startswith(("StorageLive(", "StorageDead(", "nop", "FakeRead(", "PlaceMention(", "AscribeUserType(",
                     "Retag(", "Coverage", "ConstEvalCounter", "assume(", "Deinit(", "BackwardIncompatibleDropHint")):
        return
    m = re.match(r"^discriminant\((.*)\) = (\d+)$", s)
    if m:
        blk.stmts.append(Stmt("setdiscr", parse_place(m.group(1)), int(m.group(2)), s)); return
    eq = _find_top_assign(s)
    if eq is None:
        raise ValueError("unparsed MIR line in %s: %s" % (fn.name, s))
    pl = parse_place(s[:eq].strip())
    rv = parse_rvalue(s[eq + 3:].strip())
    blk.stmts.append(Stmt("assign", pl, rv, s))


def _is_call(head):
    return head.endswith(")")


def _find_top_assign(s):
    depth = 0
    instr = False
    i = 0
    while i < len(s) - 2:
        c = s[i]
        if instr:
            if c == "\\": i += 2; continue
            if c == '"': instr = False
        elif c == '"':
            instr = True
        elif c in "([{":
            depth += 1
        elif c in ")]}":
            depth -= 1
        elif depth == 0 and s.startswith(" = ", i):
            return i
        i += 1
    return None


def _match_paren(s, i):
    """s[i] == '(' -> index of the matching ')' (string aware)"""
    depth, instr = 0, False
    k = i
    while k < len(s):
        c = s[k]
        if instr:
            if c == "\\": k += 2; continue
            if c == '"': instr = False
        elif c == '"':
            instr = True
        elif c == "'" and _is_char_lit(s, k):
            k = _char_lit_end(s, k); continue
        elif c in "([{":
            depth += 1
        elif c in ")]}":
            depth -= 1
            if depth == 0:
                return k
        k += 1
    raise ValueError("unbalanced: " + s)


def _match_paren_back(s, k):
    """s[k] == ')' -> index of the matching '(' scanning backwards (strings: approximate via forward scan)"""
    # forward scan recording the opener of each closer
    stack, instr, i = [], False, 0
    match = {}
    while i < len(s):
        c = s[i]
        if instr:
            if c == "\\": i += 2; continue
            if c == '"': instr = False
        elif c == '"':
            instr = True
        elif c == "'" and _is_char_lit(s, i):
            i = _char_lit_end(s, i); continue
        elif c in "([{":
            stack.append(i)
        elif c in ")]}":
            o = stack.pop()
            match[i] = o
        i += 1
    return match[k]


# ------------------------------------------------------------------------------------------
# places / operands / rvalues

def parse_place(s):
    s = s.strip()
    projs = []
    # peel from the outside in; collect in reverse
    while True:
        if s.startswith("(") and s.endswith(")") and _match_paren(s, 0) == len(s) - 1:
            inner = s[1:-1].strip()
            if inner.startswith("*"):
                projs.append(("deref",))
                s = inner[1:].strip()
                continue
            m = re.match(r"^(.*) as (variant#\d+|[A-Za-z_][A-Za-z0-9_]*)$", inner)
            if m and _balanced(m.group(1)):
                projs.append(("downcast", m.group(2)))
                s = m.group(1).strip()
                continue
            # field: (<place>.<idx>: <ty>)
            k = _field_split(inner)
            if k is not None:
                base, idx, ty = k
                projs.append(("field", idx, ty))
                s = base
                continue
            raise ValueError("place? " + s)
        if s.startswith("*"):
            projs.append(("deref",))
            s = s[1:].strip()
            continue
        if s.endswith("]"):
            o = _match_bracket_back(s)
            inner = s[o + 1:-1]
            base = s[:o]
            m = re.fullmatch(r"_(\d+)", inner)
            if m:
                projs.append(("index", int(m.group(1))))
            else:
                m = re.fullmatch(r"(-?)(\d+) of (\d+)", inner)
                if m:
                    projs.append(("constindex", int(m.group(2)), int(m.group(3)), m.group(1) == "-"))
                else:
                    m = re.fullmatch(r"(\d+):(-?)(\d*)", inner) or re.fullmatch(r"(\d+)\.\.(-?)(\d*)", inner)
                    if not m:
                        raise ValueError("index? " + s)
                    projs.append(("subslice", int(m.group(1)), int(m.group(3) or 0), m.group(2) == "-"))
            s = base.strip()
            continue
        m = re.fullmatch(r"_(\d+)", s)
        if m:
            return Place(int(m.group(1)), tuple(reversed(projs)))
        raise ValueError("place? " + s)


def _balanced(s):
    d = 0
    for c in s:
        if c in "([{": d += 1
        elif c in ")]}": d -= 1
        if d < 0:
            return False
    return d == 0


def _field_split(inner):
    """`_7.1: bool` / `(*_1).2: Foo<A, B>` / `((_2 as Some).0: T).3: U` -> (base, idx, ty)"""
    # find the last top-level '.<digits>: ' occurrence
    depth, cand = 0, None
    i = 0
    while i < len(inner):
        c = inner[i]
        if c in "([{<":
            depth += 1
        elif c in ")]}":
            depth -= 1
        elif c == ">" and not (i and inner[i - 1] in "-="):
            depth -= 1
        elif c == "." and depth == 0:
            m = re.match(r"\.(\d+): ", inner[i:])
            if m and cand is None:
                cand = (i, int(m.group(1)), i + m.end())
                # the first top-level match is the right one: the type follows to the end
                break
        i += 1
    if cand is None:
        return None
    return inner[:cand[0]].strip(), cand[1], inner[cand[2]:].strip()


def _match_bracket_back(s):
    d = 0
    for i in range(len(s) - 1, -1, -1):
        if s[i] == "]": d += 1
        elif s[i] == "[":
            d -= 1
            if d == 0:
                return i
    raise ValueError(s)


def parse_operand(s):
    s = s.strip()
    if s.startswith("copy "):
        return ("copy", parse_place(s[5:]))
    if s.startswith("move "):
        return ("move", parse_place(s[5:]))
    if s.startswith("no_retag "):
        return parse_operand(s[9:])
    if s.startswith("const "):
        return ("const", s[6:].strip())
    # function items used as values (`hex_value`) or bare places in some positions
    if re.fullmatch(r"_\d+", s) or s.startswith("(") and re.match(r"^\(\*?_", s):
        try:
            return ("copy", parse_place(s))
        except ValueError:
            pass
    return ("const", s)


_BINOPS = {"Add", "Sub", "Mul", "Div", "Rem", "BitXor", "BitAnd", "BitOr", "Shl", "Shr", "Eq", "Lt", "Le", "Ne", "Ge", "Gt",
           "Cmp", "Offset", "AddWithOverflow", "SubWithOverflow", "MulWithOverflow", "AddUnchecked", "SubUnchecked",
           "MulUnchecked", "ShlUnchecked", "ShrUnchecked"}
_UNOPS = {"Not", "Neg", "PtrMetadata"}


def parse_rvalue(s):
    s = s.strip()
    if s.startswith("no_retag "):
        s = s[9:].strip()
    if s.startswith("&raw const ") or s.startswith("&raw mut "):
        mut = s.startswith("&raw mut ")
        rest = s[(9 if mut else 11):].strip()
        if rest.startswith("(fake) "):
            rest = rest[7:]
        return ("rawptr", mut, parse_place(rest))
    if s.startswith("&fake shallow "):
        return ("ref", False, parse_place(s[14:]))
    if s.startswith("&mut "):
        return ("ref", True, parse_place(s[5:]))
    if s.startswith("&'") :
        s2 = re.sub(r"^&'\w+ (mut )?", lambda m: "&mut " if m.group(1) else "&", s)
        return parse_rvalue(s2)
    if s.startswith("&") and not s.startswith("&&"):
        try:
            return ("ref", False, parse_place(s[1:]))
        except ValueError:
            pass
    m = re.match(r"^([A-Za-z]+)\(", s)
    if m and s.endswith(")") and _match_paren(s, m.end() - 1) == len(s) - 1:
        op = m.group(1)
        inner = s[m.end():-1]
        if op in _BINOPS:
            a, b = split_top(inner)
            return ("binop", op, parse_operand(a), parse_operand(b))
        if op in _UNOPS:
            return ("unop", op, parse_operand(inner))
        if op == "discriminant":
            return ("discr", parse_place(inner))
        if op == "Len":
            return ("len", parse_place(inner))
        if op in ("SizeOf", "AlignOf", "OffsetOf", "UbChecks", "ContractChecks"):
            return ("nullop", op, inner)
        if op == "deref_copy" or op == "CopyForDeref":
            return ("use", ("copy", parse_place(inner)))
        if op == "ShallowInitBox":
            a, b = split_top(inner)
            return ("shallowbox", parse_operand(a), b)
        if op == "wrap_binder" or op == "WrapUnsafeBinder":
            return ("use", parse_operand(split_top(inner)[0]))
    if s.startswith("deref_copy "):
        return ("use", ("copy", parse_place(s[11:])))
    # cast: `<operand> as <ty> (<Kind>)`
    m = re.match(r"^(.*) as (.*) \(([A-Za-z]+(?:\([^()]*(?:\([^()]*\))?[^()]*\))?)\)$", s)
    if m and (m.group(1).startswith(("copy ", "move ", "const ")) or re.fullmatch(r"_\d+", m.group(1))):
        return ("cast", parse_operand(m.group(1)), m.group(2), m.group(3))
    if s.startswith(("copy ", "move ", "const ")):
        return ("use", parse_operand(s))
    # repeat / array
    if s.startswith("[") and s.endswith("]"):
        inner = s[1:-1]
        parts = split_top(inner, ";")
        if len(parts) == 2:
            return ("repeat", parse_operand(parts[0]), parts[1].strip())
        return ("aggregate", "array", None, [(None, parse_operand(p)) for p in split_top(inner) if p])
    # tuple
    if s.startswith("(") and s.endswith(")") and _match_paren(s, 0) == len(s) - 1:
        inner = s[1:-1]
        items = [p for p in split_top(inner) if p]
        return ("aggregate", "tuple", None, [(None, parse_operand(p)) for p in items])
    # closure / coroutine aggregate: {closure@...} { a: x } or bare
    if s.startswith("{closure@") or s.startswith("{coroutine@"):
        k = s.index("}")
        name = s[:k + 1]
        rest = s[k + 1:].strip()
        fields = []
        if rest.startswith("{") and rest.endswith("}"):
            for p in split_top(rest[1:-1]):
                if not p:
                    continue
                fname, v = p.split(": ", 1)
                fields.append((fname.strip(), parse_operand(v)))
        return ("aggregate", "closure", name, fields)
    # struct aggregate: Path { f: op, .. }
    if s.endswith("}") and "{" in s:
        o = _match_brace_back(s)
        name = s[:o].strip()
        inner = s[o + 1:-1].strip()
        fields = []
        for p in split_top(inner):
            if not p:
                continue
            fname, v = p.split(": ", 1)
            fields.append((fname.strip(), parse_operand(v)))
        return ("aggregate", "struct", name, fields)
    # enum / tuple-struct aggregate: Path::Variant(op, ..) or unit variant Path::Variant
    if s.endswith(")"):
        o = _match_paren_back(s, len(s) - 1)
        name = s[:o].strip()
        if name and re.match(r"^[<A-Za-z_]", name):
            return ("aggregate", "adt", name, [(None, parse_operand(p)) for p in split_top(s[o + 1:-1]) if p])
    if re.match(r"^[<A-Za-z_][\w:<>, &'\[\]\(\)]*$", s):
        return ("aggregate", "adt", s, [])
    raise ValueError("rvalue? " + s)


def _match_brace_back(s):
    d = 0
    for i in range(len(s) - 1, -1, -1):
        if s[i] == "}": d += 1
        elif s[i] == "{":
            d -= 1
            if d == 0:
                return i
    raise ValueError(s)
