"""C14 (partial) - the first line of a trap report names the operation that failed.

Unit: kernels written ONE OPERATION PER LINE (several operations that trap with different kinds
and with the same kind on different lines, array accesses, callers of inlinable callees), both
code generators.  For every call of the trap trampoline the lifted code reaches (a *trap site*)
the solver holds the input condition; the reference semantics (vsym/x64/kern.py: first trap in
evaluation order) give, for the same inputs, the source function and line of the operation
that fails and the trap kind.  The runtime's lookup "return address -> stack trace lines" is
mirrored over the `.dora.functions/.dora.locations/.dora.inlined_functions/.dora.function_info/
.dora.strings` tables parsed from the same `.s` (vsym/x64/loctab.py).
Assertion per site: for ALL inputs reaching it, table function == reference function, table
line == reference line, lifted `edi` == reference kind (exit status 101 + kind).  A sat answer
is replayed: the real executable's first stack-trace line and exit status are compared with the
reference; only a reproduced mismatch is reported.  Lookup-model validation: for every site a
witness is run and the real first trace lines must equal the lookup result."""
import os
import random
import time

import z3

from .. import common
from ..common import Inconclusive, Reporter, log
from ..x64 import build, kern, loctab, par, sem, smt, tv
from ..x64.kern import (ARR, BOOL, I32, I64, UNIT, Arg, ArrGet, ArrSet, Bin, CallK, Const, Conv, Kernel, Let, Un)
from ..x64.sem import BV, Unsupported

PID = "C14"
_PROGS = {}
_TABS = {}
_CTX = {}


# ---------------------------------------------------------------------------------------
# kernels: one operation per line

class Builder:
    def __init__(self, name, params, never_inline=True, family="fixed", label=None):
        self.k = Kernel(name, params, UNIT, [], None, family, label or name)
        self.k.never_inline = never_inline
        self.n = 0

    def let(self, expr):
        nm = "t%d" % self.n
        self.n += 1
        self.k.stmts.append(Let(nm, expr))
        return Arg(nm, expr.ty)

    def set(self, arr, idx, val):
        self.k.stmts.append(ArrSet(arr, idx, val))

    def done(self, result):
        self.k.result = result
        self.k.ret = result.ty
        return self.k


def fixed_kernels():
    """-> (runnable kernels, helper callees)"""
    ks, helpers = [], []
    for t, tag in ((I32, "w"), (I64, "q")):
        a, b = Arg("a", t), Arg("b", t)
        # two divisions, an add and a multiply: DIV0 on two lines, OVERFLOW on four
        B = Builder("twodiv" + tag, [("a", t), ("b", t)], label="twodiv" + t.name)
        t0 = B.let(Bin("/", a, b))
        t1 = B.let(Bin("/", b, a))
        t2 = B.let(Bin("+", t0, t1))
        t3 = B.let(Bin("*", t0, a))
        t4 = B.let(Bin("-", t3, t2))
        ks.append(B.done(t4))
        # same kind on five lines
        B = Builder("ovf" + tag, [("a", t), ("b", t)], label="overflow6" + t.name)
        t0 = B.let(Bin("+", a, b))
        t1 = B.let(Bin("-", a, b))
        t2 = B.let(Bin("*", a, b))
        t3 = B.let(Un("-", t0))
        t4 = B.let(Bin("+", t1, t3))
        t5 = B.let(Bin("-", t2, t4))
        ks.append(B.done(t5))
        # shifts, modulo, negation
        s = Arg("s", I32)
        B = Builder("shm" + tag, [("a", t), ("b", t), ("s", I32)], label="shiftmod" + t.name)
        t0 = B.let(Bin("<<", a, s))
        t1 = B.let(Bin("%", t0, b))
        t2 = B.let(Bin(">>", t1, s))
        t3 = B.let(Bin("%", b, t2))
        ks.append(B.done(t3))
    # two array reads, a store, a division
    for t, tag in ((I64, "q"), (I32, "w")):
        v = Arg("v", ARR(t))
        i, j = Arg("i", I64), Arg("j", I64)
        B = Builder("arr" + tag, [("v", ARR(t)), ("i", I64), ("j", I64)], label="array" + t.name)
        t0 = B.let(ArrGet(v, i))
        t1 = B.let(ArrGet(v, j))
        t2 = B.let(Bin("+", t0, t1))
        B.set(v, j, t2)
        t3 = B.let(Bin("/", t2, t0))
        B.set(v, i, t3)
        ks.append(B.done(t3))
    # caller of an inlinable callee, twice on different lines
    a, b = Arg("a", I32), Arg("b", I32)
    H = Builder("innerdiv", [("a", I32), ("b", I32)], never_inline=False)
    u0 = H.let(Bin("/", a, b))
    u1 = H.let(Bin("*", u0, a))
    inner = H.done(u1)
    helpers.append(inner)
    B = Builder("callera", [("a", I32), ("b", I32)], label="caller-inlined")
    t0 = B.let(Bin("+", a, b))
    t1 = B.let(CallK(inner, [t0, b]))
    t2 = B.let(CallK(inner, [b, t0]))
    t3 = B.let(Bin("-", t1, t2))
    ks.append(B.done(t3))
    # three levels (light arithmetic: the subject is the attribution, not the multiplier)
    x, y = Arg("a", I32), Arg("b", I32)
    H1 = Builder("leafw", [("a", I32), ("b", I32)], never_inline=False)
    w0 = H1.let(Bin("%", x, y))
    w1 = H1.let(Bin("+", w0, x))
    leaf = H1.done(w1)
    H2 = Builder("midw", [("a", I32), ("b", I32)], never_inline=False)
    m0 = H2.let(Bin("-", x, y))
    m1 = H2.let(CallK(leaf, [m0, y]))
    m2 = H2.let(Bin("+", m1, x))
    mid = H2.done(m2)
    helpers += [leaf, mid]
    B = Builder("callerb", [("a", I32), ("b", I32)], label="caller-nested")
    t0 = B.let(CallK(mid, [x, y]))
    t1 = B.let(Un("-", t0))
    t2 = B.let(CallK(leaf, [y, x]))
    t3 = B.let(Bin("+", t1, t2))
    ks.append(B.done(t3))
    # callee with an array access
    v = Arg("v", ARR(I64))
    H3 = Builder("geta", [("v", ARR(I64)), ("i", I64)], never_inline=False)
    g0 = H3.let(ArrGet(v, Arg("i", I64)))
    g1 = H3.let(Bin("+", g0, Arg("i", I64)))
    geta = H3.done(g1)
    helpers.append(geta)
    B = Builder("callerc", [("v", ARR(I64)), ("i", I64), ("j", I64)], label="caller-array")
    t0 = B.let(CallK(geta, [v, Arg("i", I64)]))
    t1 = B.let(CallK(geta, [v, Arg("j", I64)]))
    t2 = B.let(Bin("/", t0, t1))
    ks.append(B.done(t2))
    return ks, helpers


def random_kernels(seed, count):
    r = random.Random(seed)
    ks = []
    for n in range(count):
        with_arr = r.random() < 0.4
        params = [("a", I32), ("b", I32), ("c", I64), ("d", I64)]
        at = r.choice([I32, I64])
        if with_arr:
            params.append(("v", ARR(at)))
        B = Builder("rnd%d" % n, params, family="random", label="random")
        pool = {I32.name: [Arg("a", I32), Arg("b", I32)], I64.name: [Arg("c", I64), Arg("d", I64)]}
        cheap = {I32.name: list(pool[I32.name]), I64.name: list(pool[I64.name])}
        last = None
        for _ in range(r.randint(4, 8)):
            t = r.choice([I32, I64])
            c = r.random()
            pick = lambda ty: r.choice(pool[ty.name])
            light = lambda ty: r.choice(cheap[ty.name])     # arguments and results of cheap operations
            heavy = False
            if with_arr and c < 0.18:
                e = ArrGet(Arg("v", ARR(at)), light(I64))
            elif with_arr and c < 0.28:
                B.set(Arg("v", ARR(at)), light(I64), pick(at))
                continue
            elif c < 0.40:
                e = Bin(r.choice(["+", "-"]), pick(t), pick(t))
            elif c < 0.62:
                # multiplier/divider terms are kept one level deep (solver cost), 64-bit ones rare
                tt = I32 if r.random() < 0.8 else I64
                t = tt
                e = Bin(r.choice(["*", "/", "%"]), light(tt), light(tt))
                heavy = True
            elif c < 0.76:
                e = Bin(r.choice(["<<", ">>", ">>>"]), pick(t), light(I32))
            elif c < 0.86:
                e = Un("-", pick(t))
            elif c < 0.93:
                e = Conv("to_int64", pick(I32)) if t is I64 else Conv("to_int32", pick(I64))
            else:
                e = Bin(r.choice(["&", "|", "^"]), pick(t), pick(t))
            last = B.let(e)
            pool[last.ty.name].append(last)
            if not heavy and len(cheap[last.ty.name]) < 4 and isinstance(e, (Conv, Un)) is False and e.kids and all(isinstance(q, Arg) and q.name in "abcd" for q in e.kids) and getattr(e, "op", "") in ("+", "-", "&", "|", "^"):
                cheap[last.ty.name].append(last)
        if last is None:
            last = B.let(Bin("+", Arg("a", I32), Arg("b", I32)))
        ks.append(B.done(last))
    return ks


def emit(kernels, helpers):
    """kernel text with one statement per line at the top of the file; assigns lines and ids"""
    lines = []
    allk = helpers + kernels
    for fid, k in enumerate(allk):
        k.func_id = fid + 1
        ps = ", ".join("%s: %s" % (n, t.name) for n, t in k.params)
        rt = "" if k.ret is UNIT else ": " + k.ret.name
        lines.append("%sfn %s(%s)%s {" % ("@NeverInline " if k.never_inline else "", k.name, ps, rt))
        k.decl_line = len(lines)
        for st in k.stmts:
            lines.append("  " + st.src())
            st.line = len(lines)
        lines.append("  " + k.result.src())
        k.result_line = len(lines)
        lines.append("}")
    return "\n".join(lines) + "\n"


def kernel_set(tier):
    ks, helpers = fixed_kernels()
    ks += random_kernels(common.seed() * 31337 + 3, 10 if tier == "quick" else 70)
    return ks, helpers


# ---------------------------------------------------------------------------------------

def first_frame(out):
    msg, frames = loctab.parse_trace(out.get("stderr_full", ""))
    return msg, frames


def analyse(job):
    kidx, be, tier = job
    k = _CTX["kernels"][kidx]
    traps, layout = _CTX["traps"], _CTX["layout"]
    names = _CTX["names"]                    # function id -> name
    ids = {v: i for i, v in names.items()}
    tab = _TABS[be]
    prog = _PROGS[be]
    t0 = time.time()
    res = {"kernel": k.name, "backend": be, "label": k.label, "family": k.family, "status": "ok", "sites": [], "queries": [],
           "candidates": [], "validation": [], "mnemonics": [], "lookup_mismatches": []}
    verd = smt.Verdicts("c14/%s-%s" % (k.name, be), tier)
    verd.cvc5_cap_s = 20 if tier == "quick" else 120
    try:
        L = tv.Lifted(k, be, prog, layout, traps)
        res["paths"] = len(L.paths)
        res["mnemonics"] = sorted(L.ex.stats["mnemonics"])
        res["explore_queries"] = L.ex.stats["queries"]
        res["explore_solver_s"] = round(L.ex.stats["solver_time_s"], 2)
        ref, refval = L.setup.reference()
        side = list(ref.assume)
        base = L.assumptions + side
        ff, fl = ref.first_where()
        fk = ref.first_trap()
        none = BV(tv.NONE, 32)
        sites = {}
        rets = []
        for p in L.paths:
            if p.term.kind == "trap":
                if p.term.site[0] == "runtime":
                    raise Unsupported("runtime trap")
                sites.setdefault(p.term.site, []).append(p)
            elif p.term.kind == "return":
                rets.append(p)
            else:
                raise Unsupported("path ends in %s" % p.term)

        def real_run(extra):
            m, av, conc = tv.witness_args(L, side + list(extra), timeout_ms=60000)
            if av is None:
                return None, None, None
            av[0] = str(kidx)
            out = prog.run(av, timeout=60)
            return m, av, out
        for (fsym, off), ps in sorted(sites.items()):
            insn = [i for i in prog.insns(fsym) if i.off == off][0]
            ret_off = off + insn.size
            frames, meta = tab.frames(fsym, ret_off)
            tname, tfile, tline, tcol = frames[0]
            tfid = ids.get(tname, 0xFFFFFFFE)
            kinds = set()
            alts = []
            for p in ps:
                kd = L.trap_kind(p)
                if z3.is_bv_value(sem.simp(kd)):
                    kinds.add(sem.simp(kd).as_long())
                alts.append(z3.And(p.pc(), z3.Or(ff != BV(tfid, 32), fl != BV(tline, 32), fk != kd)))
            site = {"function": fsym, "call_offset": off, "return_offset": ret_off, "table": [list(f) for f in frames],
                    "table_entry": meta["entry"], "inlined_depth": meta["inlined_depth"], "kinds": sorted(kinds), "paths": len(ps)}
            r, m = verd.check("site-%s+%#x" % (fsym[5:], off), base + [z3.Or(*alts)], abstract=True)
            site["result"] = r
            res["queries"].append({"kind": "site", "site": "%s+%#x" % (fsym, off), "result": r})
            # reference lines that reach this site (for the sample): evaluate on a witness
            mm, av, out = real_run([z3.Or(*[p.pc() for p in ps])])
            if mm is not None:
                site["reachable"] = True
                site["reference"] = [names.get(mm.eval(ff, model_completion=True).as_long(), "?"),
                                     mm.eval(fl, model_completion=True).as_long(), mm.eval(fk, model_completion=True).as_long()]
                msg, fr = first_frame(out)
                obs = tv.observe(out, traps)
                site["real"] = {"status": list(obs), "frames": [list(f) for f in fr[:len(frames)]], "argv": av}
                want_status = ("trap", sorted(kinds)[0]) if len(kinds) == 1 else None
                ok = [tuple(f) for f in fr[:len(frames)]] == [tuple(f) for f in frames] and (want_status is None or tuple(obs) == want_status)
                if not ok:
                    res["lookup_mismatches"].append({"site": "%s+%#x" % (fsym, off), "lookup": [list(f) for f in frames],
                                                     "real": [list(f) for f in fr[:len(frames) + 1]], "status": list(obs), "argv": av})
            else:
                # no passable witness: is the site reachable at all under the typing assumptions?
                rr, _ = verd.check("site-reachable", base + [z3.Or(*[p.pc() for p in ps])], cross=False, want_model=False)
                if rr == "unsat":
                    continue                  # dead site (the explorer could not decide the branch): listed as not reached
                site["reachable"] = "undecided"
            if r == "sat":
                m2, av2, out2 = real_run([z3.Or(*alts)])
                cand = {"site": "%s+%#x" % (fsym, off), "argv": av2, "table": [list(f) for f in frames]}
                if av2 is not None:
                    msg, fr = first_frame(out2)
                    obs = tv.observe(out2, traps)
                    ek = m2.eval(fk, model_completion=True).as_long()
                    cand["expected"] = {"function": names.get(m2.eval(ff, model_completion=True).as_long(), "?"),
                                        "line": m2.eval(fl, model_completion=True).as_long(),
                                        "status": ["trap", ek] if ek != tv.NONE else ["ret"]}
                    cand["observed"] = {"function": fr[0][0] if fr else None, "line": fr[0][2] if fr else None, "status": list(obs)[:2],
                                        "frames": [list(f) for f in fr[:4]]}
                res["candidates"].append(cand)
            res["sites"].append(site)
        if rets:
            r, m = verd.check("return-paths", base + [z3.Or(*[p.pc() for p in rets]), fk != none], abstract=True)
            res["queries"].append({"kind": "return", "result": r})
            if r == "sat":
                m2, av2, out2 = real_run([z3.Or(*[p.pc() for p in rets]), fk != none])
                cand = {"site": "return", "argv": av2}
                if av2 is not None:
                    msg, fr = first_frame(out2)
                    ek = m2.eval(fk, model_completion=True).as_long()
                    cand["expected"] = {"function": names.get(m2.eval(ff, model_completion=True).as_long(), "?"),
                                        "line": m2.eval(fl, model_completion=True).as_long(), "status": ["trap", ek]}
                    cand["observed"] = {"function": fr[0][0] if fr else None, "line": fr[0][2] if fr else None,
                                        "status": list(tv.observe(out2, traps))[:2], "frames": [list(f) for f in fr[:4]]}
                res["candidates"].append(cand)
        # every outcome of the reference that can happen is owned by a reached site
        outcomes = sorted(set((fn, ln, kk) for (_, kk), (fn, ln) in zip(ref.traps, ref.where)))
        have = set()
        for s_ in res["sites"]:
            fid = ids.get(s_["table"][0][0])
            for kk in s_["kinds"]:
                have.add((fid, s_["table"][0][2], kk))
        res["reference_outcomes"] = len(outcomes)
        missing = []
        for (fn, ln, kk) in outcomes:
            if (fn, ln, kk) in have:
                continue
            rr, _ = verd.check("ref-outcome-possible", base + [ff == BV(fn, 32), fl == BV(ln, 32), fk == BV(kk, 32)], cross=False, want_model=False)
            if rr == "sat":
                missing.append([names.get(fn), ln, kk])
        res["reference_outcomes_without_site"] = missing
        # trap call sites of the functions involved that no path reaches (e.g. nil checks)
        funcs = set([build.mangle(k.name)] + [s_["function"] for s_ in res["sites"]])
        allsites = [(f, o) for f in funcs for o in tab.trap_sites(f)]
        kept = set((s_["function"], s_["call_offset"]) for s_ in res["sites"])
        res["sites_not_reached"] = ["%s+%#x" % (f, o) for f, o in allsites if (f, o) not in kept]
    except Unsupported as e:
        res["status"] = "unsupported"
        res["reason"] = str(e)
    res["verdicts"] = verd.summary()
    res["verdict_log"] = verd.log
    res["wall_s"] = round(time.time() - t0, 2)
    return res


def run_check(tier):
    t0 = time.time()
    common.ensure_dirs()
    import shutil
    shutil.rmtree(os.path.join(common.WORK, "x64", "smt2", "c14"), ignore_errors=True)
    build.toolchain()
    loctab.verify_layout()
    traps = build.trap_kinds()
    layout = build.tld_layout()
    kernels, helpers = kernel_set(tier)
    text = emit(kernels, helpers)
    wd = build.workdir("c14")
    src = os.path.join(wd, "c14.dora")
    with open(src, "w") as f:
        f.write(text + kern.driver_source(kernels, kernel_sources=False))
    names = {k.func_id: k.name for k in kernels + helpers}
    _CTX.update(kernels=kernels, traps=traps, layout=layout, names=names)
    tb = time.time()
    for be, pr in zip(build.BACKENDS, build.compile_all([(src, be) for be in build.BACKENDS])):
        _PROGS[be] = pr
        _TABS[be] = loctab.LocTab(pr.asm)
    log("[C14] compiled %d kernels (+%d callees) with both back ends in %.1fs" % (len(kernels), len(helpers), time.time() - tb))
    jobs = [(i, be, tier) for i in range(len(kernels)) for be in build.BACKENDS]
    flt = os.environ.get("VERIF_DEV_FILTER")
    if flt:
        jobs = [j for j in jobs if flt in kernels[j[0]].name + " " + kernels[j[0]].label]
    results = par.run_jobs(analyse, jobs)
    rep = Reporter(PID)
    analysed, unsupported, samples, unrepro, lookup_bad, novac, missing = [], [], [], [], [], [], []
    nq = und = replays = vruns = nsites = ninl = 0
    q_total, st_total, cvc5_checked = 0, 0.0, 0
    mnemonics, reported = set(), set()
    for job, (st, r) in zip(jobs, results):
        if st == "err":
            raise Inconclusive("worker failed for %s: %s" % (job[:2], r))
        if r["status"] != "ok":
            unsupported.append("%s/%s: %s" % (r["kernel"], r["backend"], r.get("reason")))
            continue
        analysed.append(r)
        if flt:
            log("   %s/%s paths=%s sites=%s %s notreached=%s %.1fs" % (
                r["kernel"], r["backend"], r["paths"],
                [(s["call_offset"], s["table"][0][0], s["table"][0][2], s["kinds"], s["inlined_depth"], s["result"]) for s in r["sites"]],
                [q["result"] for q in r["queries"] if q["kind"] == "return"], r["sites_not_reached"], r["wall_s"]))
        mnemonics.update(r["mnemonics"])
        q_total += r["verdicts"]["queries"] + r["explore_queries"]
        st_total += r["verdicts"]["solver_time_s"] + r["explore_solver_s"]
        cvc5_checked += r["verdicts"]["cvc5_cross_checked"]
        nq += len(r["queries"])
        und += sum(1 for q in r["queries"] if q["result"] == "unknown")
        for s in r["sites"]:
            nsites += 1
            ninl += 1 if s["inlined_depth"] else 0
            if s.get("real"):
                vruns += 1
            if s.get("reachable") is not True:
                novac.append("%s/%s %s+%#x" % (r["kernel"], r["backend"], s["function"], s["call_offset"]))
        missing += ["%s/%s: %s" % (r["kernel"], r["backend"], m) for m in r["reference_outcomes_without_site"]]
        if r["lookup_mismatches"] and not r["candidates"]:
            lookup_bad.append("%s/%s: %s" % (r["kernel"], r["backend"], r["lookup_mismatches"][0]))
        for c in r["candidates"]:
            replays += 1
            if c.get("argv") is None or "observed" not in c:
                unrepro.append("witness of %s/%s %s cannot be passed to the driver" % (r["kernel"], r["backend"], c["site"]))
                continue
            exp, obs = c["expected"], c["observed"]
            diffs = []
            if exp["status"] != obs["status"]:
                diffs.append("status")
            if exp["status"][0] == "trap" and obs["status"][0] == "trap":
                if exp["function"] != obs["function"]:
                    diffs.append("function")
                if exp["line"] != obs["line"]:
                    diffs.append("line")
            if not diffs:
                unrepro.append("%s/%s site %s args %s: real report (%s) equals the reference" % (r["kernel"], r["backend"], c["site"], c["argv"][1:], obs))
                continue
            key = "trapsite/%s/%s/%s" % (r["label"], r["backend"], "+".join(diffs))
            what = ("%s code generator, kernel %s (one operation per line), args %s: the language rules make `%s` line %s fail with %s; "
                    "the real report says %s line %s, status %s (first trace lines %s)"
                    % ("baseline" if r["backend"] == "cannon" else "optimizing", r["kernel"], c["argv"][1:], exp["function"], exp["line"],
                       exp["status"], obs["function"], obs["line"], obs["status"], obs.get("frames")))
            if key not in reported:
                reported.add(key)
                rep.violation(key, what, {"check": PID, "source": open(src).read(), "argv": c["argv"], "backend": r["backend"],
                                          "expected": exp, "observed": obs})
                samples.append({"kernel": r["kernel"], "backend": r["backend"], "key": key, "expected": exp, "observed": obs})
    if not analysed:
        raise Inconclusive("no kernel could be analysed: " + "; ".join(unsupported)[:600])
    if not rep.new:
        if lookup_bad:
            raise Inconclusive("lookup model wrong? the real stack trace differs from the table lookup: " + lookup_bad[0][:700])
        if unrepro:
            raise Inconclusive("counterexample does not reproduce: " + " | ".join(unrepro[:3]))
        if len(novac) > max(2, nsites // 20):
            raise Inconclusive("vacuity: too many trap sites without a witness (%d of %d): %s" % (len(novac), nsites, "; ".join(novac[:6])))
        if missing:
            raise Inconclusive("reference outcomes owned by no reached trap site: " + "; ".join(missing[:6]))
        if not flt:
            for fam in ("fixed", "random"):
                qs = [q for r in analysed if r["family"] == fam for q in r["queries"]]
                if not qs:
                    raise Inconclusive("no kernel of family %s analysed: %s" % (fam, "; ".join(unsupported)[:300]))
                if all(q["result"] == "unknown" for q in qs):
                    raise Inconclusive("all queries of family %s undecided" % fam)
            if not any(s["inlined_depth"] for r in analysed if r["backend"] == "boots" for s in r["sites"]):
                raise Inconclusive("vacuity: no trap site inside an inlined callee (the optimizing back end inlined nothing)")
    for r in analysed:
        for s in r["sites"][:2]:
            if len(samples) < 40:
                samples.append({"kernel": r["kernel"], "backend": r["backend"], "site_offset": s["call_offset"], "function_symbol": s["function"],
                                "table": s["table"], "reference": s.get("reference"), "kinds": s["kinds"], "real": s.get("real", {}).get("frames"),
                                "result": s["result"]})
    e = sem.Env(layout)
    assumptions = e.assumption_texts + [
        "reference semantics of vsym/x64/kern.py (first trap in evaluation order); one operation per source line, so the failing operation determines the line",
        "runtime lookup mirrored from dora-runtime/src/{stdlib,stack,startup}.rs and dora-compiler LocationTable::get: first entry = return address of the trap call, exact-match lookup, inlined chain innermost first; struct layouts re-verified textually on every run",
        "only function name and line of the FIRST trace line and the exit status are claimed; columns are recorded, not asserted",
        "argument conventions, array arguments, stack/heap disjointness as in C01",
    ]
    cov = {
        "programs": len(analysed),
        "disagreements_checked": replays,
        "samples": samples,
        "functions_encoded": len(analysed),
        "trap_sites": nsites, "trap_sites_in_inlined_callees": ninl,
        "sites_not_reached": sorted(set(x for r in analysed for x in r["sites_not_reached"]))[:60],
        "bounds": {"lines_per_kernel": "4-8", "callee_depth": 2, "array_length": "<= 2^32 symbolic"},
        "queries": q_total, "solver_time_s": round(st_total, 2), "verdict_queries": nq, "verdict_queries_undecided": und,
        "cvc5_cross_checked": cvc5_checked,
        "undecided_queries": ["%s/%s %s" % (r["kernel"], r["backend"], q.get("site", q["kind"])) for r in analysed for q in r["queries"] if q["result"] == "unknown"],
        "proved_on_abstraction": sum(r["verdicts"].get("proved_on_abstraction", 0) for r in analysed),
        "vacuity_witnesses": {"sites_with_real_run": vruns, "sites_without_witness": novac, "reference_outcomes": sum(r["reference_outcomes"] for r in analysed)},
        "translator_validation_runs": vruns,
        "witnesses_not_reproduced": unrepro,
        "unsupported_kernels": unsupported,
        "mnemonics_executed": sorted(mnemonics),
        "known_findings_hit": [k for k, _ in rep.known_hit],
        "outside_the_claim": ["the chain of callers beyond the first line (inlined chain is compared with the real run as validation only)",
                              "frame walking", "stdout flushing before the trap", "closures, trait objects, generics, methods", "arm64",
                              "columns", "collectors other than the default"],
    }
    common.write_evidence(PID, tier, "translation_validation", cov, assumptions, time.time() - t0, violations=len(rep.new))
    log("[C14] %d kernel x back end pairs (%d unsupported), %d trap sites (%d inlined), %d verdict queries (%d undecided), %d replays, %.1fs"
        % (len(analysed), len(unsupported), nsites, ninl, nq, und, replays, time.time() - t0))
    return rep.exit_code()


def main(tier):
    return run_check(tier)


def replay(path):
    import json
    d = json.load(open(path))["replay"]
    build.toolchain()
    traps = build.trap_kinds()
    wd = build.workdir("c14-replay")
    src = os.path.join(wd, "r.dora")
    open(src, "w").write(d["source"])
    out = build.Program(src, d["backend"]).run(d["argv"], timeout=120)
    msg, fr = loctab.parse_trace(out.get("stderr_full", ""))
    obs = {"function": fr[0][0] if fr else None, "line": fr[0][2] if fr else None, "status": list(tv.observe(out, traps))[:2]}
    exp = d["expected"]
    print("replay: observed %s, reference %s" % (obs, exp))
    bad = exp["status"] != obs["status"] or (exp["status"][0] == "trap" and (exp["function"] != obs["function"] or exp["line"] != obs["line"]))
    if bad:
        print("VIOLATION property=%s replay=%s" % (PID, path))
        return 1
    return 0
