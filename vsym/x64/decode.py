"""Decoder: bytes of the object file -> instruction list, by llvm-objdump (an independent
decoder, not dora-asm).  AT&T syntax operands are parsed into small tuples."""
import re
import subprocess

from ..common import Inconclusive

OBJDUMP = "llvm-objdump-14"


class Insn:
    __slots__ = ("off", "size", "mn", "ops", "text", "prefixes")

    def __init__(self, off, mn, ops, text, prefixes=()):
        self.off = off
        self.size = 0
        self.mn = mn
        self.ops = ops
        self.text = text
        self.prefixes = prefixes

    def __repr__(self):
        return "+%#x %s" % (self.off, self.text)


_HDR = re.compile(r"^([0-9a-f]+) <([^>]+)>:$")
_LINE = re.compile(r"^\s*([0-9a-f]+):\s+(.*)$")
_MEM = re.compile(r"^(?:%(\w+):)?(-?(?:0x)?[0-9a-fA-F]*)\((%\w+)?(?:,(%\w+))?(?:,(\d))?\)$")
_TARGET = re.compile(r"^(?:0x)?([0-9a-f]+)\s+<")


def _split_ops(s):
    out, depth, cur = [], 0, ""
    for ch in s:
        if ch == "(":
            depth += 1
        elif ch == ")":
            depth -= 1
        if ch == "," and depth == 0:
            out.append(cur.strip())
            cur = ""
        else:
            cur += ch
    if cur.strip():
        out.append(cur.strip())
    return out


def parse_operand(s, func_addr):
    """-> ('reg', name) | ('imm', int) | ('mem', disp, base, index, scale) | ('ireg', name)
    | ('imem', disp, base, index, scale) | ('target', function-relative offset)"""
    s = s.strip()
    if s.startswith("*"):
        inner = parse_operand(s[1:], func_addr)
        if inner[0] == "reg":
            return ("ireg", inner[1])
        if inner[0] == "mem":
            return ("imem",) + inner[1:]
        raise Inconclusive("decoder: indirect operand " + s)
    if s.startswith("$"):
        return ("imm", int(s[1:], 0))
    if s.startswith("%"):
        return ("reg", s[1:])
    m = _MEM.match(s)
    if m:
        seg, disp, base, index, scale = m.groups()
        if seg:
            raise Inconclusive("decoder: segment override " + s)
        d = int(disp, 0) if disp not in ("", "-") else 0
        return ("mem", d, base[1:] if base else None, index[1:] if index else None, int(scale) if scale else 1)
    m = _TARGET.match(s)
    if m:
        return ("target", int(m.group(1), 16) - func_addr)
    if re.match(r"^-?(0x)?[0-9a-fA-F]+$", s):
        # absolute memory operand without registers
        return ("mem", int(s, 0), None, None, 1)
    raise Inconclusive("decoder: cannot parse operand '%s'" % s)


PREFIXES = ("lock", "rep", "repz", "repe", "repne", "repnz", "data16", "notrack")


def disassemble(obj, names, sizes):
    """names: function symbols; sizes: name -> size in bytes from the .s (cross-check and size
    of the last instruction).  -> {name: [Insn]} sorted by offset"""
    out = {}
    names = list(names)
    for i in range(0, len(names), 40):
        chunk = names[i:i + 40]
        p = subprocess.run([OBJDUMP, "-d", "--no-show-raw-insn", "--x86-asm-syntax=att",
                            "--disassemble-symbols=" + ",".join(chunk), obj],
                           stdout=subprocess.PIPE, stderr=subprocess.PIPE, text=True, timeout=300)
        if p.returncode != 0:
            raise Inconclusive("llvm-objdump failed: " + p.stderr[-500:])
        cur = None
        addr0 = 0
        pending = None
        for line in p.stdout.splitlines():
            m = _HDR.match(line)
            if m:
                addr0 = int(m.group(1), 16)
                cur = m.group(2)
                out[cur] = []
                continue
            if cur is None:
                continue
            m = _LINE.match(line)
            if not m:
                continue
            addr = int(m.group(1), 16)
            rest = m.group(2).strip()
            if "#" in rest:
                rest = rest[:rest.index("#")].strip()
            parts = rest.split(None, 1)
            prefixes = []
            while parts and parts[0] in PREFIXES:
                prefixes.append(parts[0])
                parts = parts[1].split(None, 1) if len(parts) > 1 else []
            if not parts:
                # objdump prints `lock` on a line of its own: it belongs to the next instruction,
                # which then starts at the prefix byte
                pending = (addr - addr0, tuple(prefixes))
                continue
            mn = parts[0]
            opstr = parts[1] if len(parts) > 1 else ""
            if mn in ("(bad)", "<unknown>"):
                ops = []
            else:
                try:
                    ops = [parse_operand(o, addr0) for o in _split_ops(opstr)] if opstr else []
                except Inconclusive as e:      # only an error if the instruction is executed
                    ops = [("bad", str(e))]
            off = addr - addr0
            if pending is not None:
                off, pre = pending
                prefixes = list(pre) + prefixes
                rest = " ".join(pre) + " " + rest
                pending = None
            out[cur].append(Insn(off, mn, ops, rest, tuple(prefixes)))
    for n in names:
        if n not in out:
            raise Inconclusive("llvm-objdump: no disassembly for " + n)
        ins = out[n]
        # objdump continues into padding; cut at the function size known from the .s
        ins = [i for i in ins if i.off < sizes[n]]
        for a, b in zip(ins, ins[1:]):
            a.size = b.off - a.off
        if ins:
            ins[-1].size = sizes[n] - ins[-1].off
        out[n] = ins
    return out
