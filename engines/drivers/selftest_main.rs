// native side of tools/model_selftest.py: `rustc -C overflow-checks=on -C debug-assertions=on selftest_main.rs`
#![allow(unused, dead_code)]
#[path = "src/selftest.rs"]
mod selftest;

fn main() {
    std::panic::set_hook(Box::new(|_| {}));
    let inputs: Vec<(u64, u64)> = std::env::args().skip(1).map(|s| {
        let mut p = s.split(',');
        (p.next().unwrap().parse().unwrap(), p.next().unwrap().parse().unwrap())
    }).collect();
    for (name, f) in selftest::ST_FNS {
        for &(a, b) in &inputs {
            match std::panic::catch_unwind(|| f(a, b)) {
                Ok(v) => println!("{} {} {} {}", name, a, b, v),
                Err(_) => println!("{} {} {} PANIC", name, a, b),
            }
        }
    }
}
