"""Compilation of generated Dora sources with both code generators.

`dora compile -S` writes only the assembly; the executable used for translator validation
and for replays is assembled and linked here from *that same* `.s` with exactly the driver's
own commands (dora/src/driver/compile.rs: `gcc -c x.s`, `gcc x.o startup runtime -Wl,-x
-lpthread -ldl -lm`), so the code that is lifted is the code that is run.  Nothing is cached
across runs: every call recompiles into a fresh directory under /verif/.work/x64/."""
import os
import re
import shutil
import signal
import subprocess

from .. import common
from ..common import Inconclusive
from . import asmfile, decode

BACKENDS = ("cannon", "boots")
_dbg = None


def toolchain():
    global _dbg
    if _dbg is None:
        _dbg = common.build_dora()
    return _dbg


def workdir(*parts, clean=True):
    d = os.path.join(common.WORK, "x64", *parts)
    if clean and os.path.isdir(d):
        shutil.rmtree(d)
    os.makedirs(d, exist_ok=True)
    return d


def mangle(name):
    """linker symbol of a top level function of the program package.  Generated names use
    [a-z0-9] only, so no escaping rule of dora-symbol is involved"""
    if not re.match(r"^[a-z][a-z0-9]*$", name):
        raise Inconclusive("kernel names must be [a-z0-9]+: " + name)
    return "dora_" + name


class Program:
    """one Dora source compiled by one back end"""

    def __init__(self, src_path, backend, gc=None, link=True):
        dbg = toolchain()
        self.backend = backend
        self.src = src_path
        base = os.path.splitext(src_path)[0] + "_" + backend + ("_" + gc if gc else "")
        self.asm_path = base + ".s"
        self.obj = base + ".o"
        self.exe = base
        cmd = [os.path.join(dbg, "dora"), "compile", src_path, "-o", base, "-S"]
        if backend == "cannon":
            cmd.append("--cannon")
        if gc:
            cmd += ["--gc", gc]
        p = common.run(cmd, timeout=600, check=False)
        if p.returncode != 0 or not os.path.exists(self.asm_path):
            raise Inconclusive("dora compile (%s) failed for %s: %s" % (backend, src_path, (p.stdout + p.stderr)[-1500:]))
        common.run(["gcc", "-c", self.asm_path, "-o", self.obj], timeout=600)
        if link:
            common.run(["gcc", self.obj, os.path.join(dbg, "libdora_startup.a"), os.path.join(dbg, "libdora_runtime.a"),
                        "-Wl,-x", "-lpthread", "-ldl", "-lm", "-o", self.exe], timeout=600)
        self.asm = asmfile.AsmFile(self.asm_path)
        self._insns = {}

    def insns(self, fn):
        if fn not in self._insns:
            self.load([fn])
        return self._insns[fn]

    def load(self, fns):
        fns = [f for f in fns if f not in self._insns]
        for f in fns:
            if f not in self.asm.funcs:
                raise Inconclusive("function %s not in %s" % (f, self.asm_path))
        if fns:
            sizes = {f: self.asm.funcs[f].size for f in fns}
            self._insns.update(decode.disassemble(self.obj, fns, sizes))

    def run(self, args=(), timeout=60, env=None):
        """run the real executable -> (status, signal, stdout, stderr first line)"""
        return run_exe(self.exe, args, timeout, env)


def run_exe(exe, args=(), timeout=60, env=None):
    e = dict(common.ENV)
    if env:
        e.update(env)
    try:
        # address space cap: a wild allocation must not take the machine down
        p = subprocess.run(["bash", "-c", "ulimit -v 8000000; ulimit -c 0; exec \"$0\" \"$@\"", exe] + [str(a) for a in args],
                           stdout=subprocess.PIPE, stderr=subprocess.PIPE, timeout=timeout, env=e)
    except subprocess.TimeoutExpired:
        return {"status": None, "signal": None, "timeout": True, "stdout": "", "stderr": "", "stderr_full": ""}
    rc = p.returncode
    sig = None
    if rc < 0:
        sig = -rc
        rc = None
    elif rc >= 128 and rc - 128 in (signal.SIGSEGV, signal.SIGBUS, signal.SIGILL, signal.SIGFPE, signal.SIGABRT, signal.SIGTRAP):
        sig = rc - 128     # bash reports a child killed by a signal this way (exec keeps the pid, so normally rc<0)
        rc = None
    err = p.stderr.decode("utf-8", "replace")
    return {"status": rc, "signal": sig, "timeout": False, "stdout": p.stdout.decode("utf-8", "replace"),
            "stderr": err.strip().split("\n")[0][:200] if err.strip() else "", "stderr_full": err[:4000]}


# ---------------------------------------------------------------------------------------
# facts read from the repository on every run (never hard-coded)

def trap_kinds():
    """`pub enum Trap` of dora-compiler/src/abi.rs -> {name: number}"""
    src = open(os.path.join(common.REPO, "dora-compiler/src/abi.rs")).read()
    m = re.search(r"pub enum Trap\s*\{(.*?)\}", src, re.S)
    if not m:
        raise Inconclusive("cannot find `pub enum Trap` in dora-compiler/src/abi.rs")
    names = [x.strip() for x in m.group(1).split(",") if x.strip()]
    out = {}
    nxt = 0
    for n in names:
        if "=" in n:
            n, v = [y.strip() for y in n.split("=")]
            nxt = int(v, 0)
        out[n] = nxt
        nxt += 1
    return out


def tld_layout():
    """field offsets of the #[repr(C)] ThreadLocalDataLayout in dora-compiler/src/abi.rs"""
    src = open(os.path.join(common.REPO, "dora-compiler/src/abi.rs")).read()
    m = re.search(r"#\[repr\(C\)\]\s*struct ThreadLocalDataLayout\s*\{(.*?)\}", src, re.S)
    if not m:
        raise Inconclusive("cannot find repr(C) ThreadLocalDataLayout in dora-compiler/src/abi.rs")
    sizes = {"AtomicUsize": 8, "usize": 8, "AtomicBool": 1, "AtomicU8": 1, "u8": 1, "bool": 1, "AtomicU32": 4, "u32": 4,
             "AtomicU64": 8, "u64": 8}
    off = 0
    out = {}
    for fld in m.group(1).split(","):
        fld = fld.strip()
        if not fld:
            continue
        name, ty = [x.strip() for x in fld.replace("pub ", "").split(":")]
        if ty not in sizes:
            raise Inconclusive("ThreadLocalDataLayout: unknown field type " + ty)
        sz = sizes[ty]
        off = (off + sz - 1) // sz * sz
        out[name] = (off, sz)
        off += sz
    for need in ("tlab_top", "tlab_end", "stack_limit", "state"):
        if need not in out:
            raise Inconclusive("ThreadLocalDataLayout lacks field " + need)
    return out


def default_max_heap():
    """default maximal heap size of the runtime (dora-runtime/src/runtime/flags.rs): a single
    allocation request of at least this many bytes can only end in the out-of-memory trap"""
    src = open(os.path.join(common.REPO, "dora-runtime/src/runtime/flags.rs")).read()
    m = re.search(r"fn max_heap_size\(&self\)\s*->\s*usize\s*\{.*?unwrap_or\((\d+)\s*\*\s*([KMG])\)", src, re.S)
    if not m:
        raise Inconclusive("cannot read the default max heap size from dora-runtime/src/runtime/flags.rs")
    return int(m.group(1)) * {"K": 1 << 10, "M": 1 << 20, "G": 1 << 30}[m.group(2)]


def compile_all(sources):
    """[(source path, backend)] -> [Program] compiled concurrently"""
    from concurrent.futures import ThreadPoolExecutor
    toolchain()
    with ThreadPoolExecutor(max_workers=4) as ex:
        return list(ex.map(lambda sb: Program(sb[0], sb[1]), sources))
