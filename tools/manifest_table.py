# edited as checks get built; consumed by tools/gen_manifest.py
CHECKS = {
 "C19": dict(engine="vsym", category="proof",
   technique="symbolic execution of the rustc MIR of dora-symbol (path exploration, z3) over all valid UTF-8 names up to a byte bound; 128-bit FNV step lemmas by z3+cvc5",
   text="Bounded proof over the real MIR of mangle_name / mangle_name_with_max_len / demangle_name / fnv1a_128: for EVERY valid UTF-8 name of length <= N bytes (quick N=3, thorough N=5) demangle(mangle(s)) == s and the symbol is dora_ + [A-Za-z0-9] / _XX escapes; for names straddling the length limit (small limits 34..46 symbolic and the production limit read from aot_compile.rs) the result is within the limit, unchanged when it fits, otherwise <prefix>_H<32 hex> and never readable as the unshortened symbol of another name; the FNV-1a loop body is injective in the state and in the byte (so equal-length names differing in one byte keep different hashes). Counterexamples are replayed on the natively compiled functions before being reported.",
   note="Trusted: rustc's MIR dump, the vsym MIR interpreter and its std models (String/Vec/str/Option/format!, validated per run against the real functions on concrete inputs), z3 (cvc5 cross-check on the lemmas). Outside the claim: names longer than the bound, collision freedom of the 128-bit hash for arbitrary pairs, symbol sets of whole programs."),
}
NOT_APPLICABLE = {}
