"""Models (documented contracts) of the runtime entries that emitted kernels reach, and the
allocation bookkeeping shared by C13/C02/C01.

* `dora_aot_gc_allocation_trampoline(size in rdi)` -> calls the Rust `gc_alloc(size)` with the
  System V convention.  dora-runtime/src/gc.rs `Gc::alloc` either returns the address of `size`
  fresh bytes (never null) or ends the process with the OOM trap itself; requests of at
  least the default maximal heap size (read from dora-runtime/src/runtime/flags.rs, 128 MiB)
  always end in that trap - the claim and the replays are for the default heap configuration.  Two
  successors: Trap(OOM), or rax = non-null 8-aligned pointer with rbx/rbp/r12-r15 preserved and
  the other registers and xmm clobbered.
  Recorded event: ('alloc_slow', size, result).
* inline TLAB bump: a store to tld.tlab_top.  Recorded event:
  ('alloc_fast', object = old top, size = new top - old top, end); the object becomes a valid
  region of `size` bytes.
"""
import z3

from .sem import BV, SYSV_CLOBBERED, XMM, CaseSplit, Terminal, fresh, simp

ALLOC_SYMBOL = "dora_aot_gc_allocation_trampoline"


def install_alloc(env, oom_kind, refuse_from):
    lo = env.tld_layout
    top_off = lo["tlab_top"][0]
    end_off = lo["tlab_end"][0]

    def alloc_slow(ex, st, insn):
        size = st.regs["rdi"]
        if st.hint is None:
            raise CaseSplit([(z3.BoolVal(True), "oom"), (z3.ULT(size, BV(refuse_from, 64)), "ok")])
        h, st.hint = st.hint, None
        if h == "oom":
            st.events.append(("alloc_slow", size, None))
            return Terminal("trap", trap=BV(oom_kind, 32), site=("runtime", "gc_alloc"))
        res = fresh("slow_obj")
        st.events.append(("alloc_slow", size, res))
        for r in SYSV_CLOBBERED:
            st.regs[r] = fresh("clob_" + r)
        for x in XMM:
            st.xmm[x] = fresh("clob_" + x)
        st.regs["rax"] = res
        # contract of the runtime: null, or `size` usable bytes at an 8-aligned user-space address
        st.cond.append(z3.And(z3.Extract(2, 0, res) == BV(0, 3), z3.UGE(res, BV(1 << 16, 64)),
                              z3.ULE(res, BV(1 << 47, 64))))
        st.regions.append((res, size, "slow-path object", None))
        return None

    def tld_store(ex, st, off, val, n):
        if off == top_off and n == 8:
            old = st.tld.read(top_off, 8)
            end = st.tld.read(end_off, 8)
            size = simp(val - old)
            st.events.append(("alloc_fast", old, size, end))
            st.regions.append((old, size, "tlab object", None))

    env.call_models[ALLOC_SYMBOL] = alloc_slow
    env.tld_store_hook = tld_store
    env.assume(z3.ULE(env.tlab_top, env.tlab_end), "tlab_top <= tlab_end")
    env.assume(z3.UGE(env.tlab_top, BV(1 << 16, 64)), "tlab_top >= 2^16")
    env.assume(z3.ULE(env.tlab_end, BV(1 << 47, 64)), "tlab_end <= 2^47 (user space)")
    env.assume(z3.And(z3.Extract(2, 0, env.tlab_top) == BV(0, 3), z3.Extract(2, 0, env.tlab_end) == BV(0, 3)),
               "TLAB bounds 8-byte aligned")
