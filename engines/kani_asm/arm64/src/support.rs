//! Glue between the operand codes used by harnesses / replay and dora-asm's API types, plus
//! the constructors the spec table (`/verif/spec/arm64.toml`) uses to state the expected
//! instruction.
//!
//! Operand codes (plain integers, so that the very same generated functions run under Kani with
//! symbolic values and natively with concrete ones):
//!   Register      u8 0..=30 = R0..R30, 31 = REG_ZERO, 32 = REG_SP   (the complete API domain:
//!                 `Register(u8)` has a private field; `Register::new` asserts < 31)
//!   NeonRegister  u8 0..=31
//!   Cond          u8 0..=15 in declaration order EQ NE CS HS CC LO MI PL VS VC HI LS GE LT GT LE
//!   Shift         u8 0..=3  LSL LSR ASR ROR
//!   Extend        u8 0..=8  UXTB UXTH LSL UXTW UXTX SXTB SXTH SXTW SXTX

pub use crate::decoder::Form::*;
pub use crate::decoder::Op::*;
pub use crate::decoder::{decode, mk, pk, Form, Insn, Op, Reg, INVALID, NOREG, RK};
use crate::decoder::{AMT, COND, IMM2, RA, RD, RM, RN, SH};
pub use dora_asm::arm64::{AssemblerArm64, Cond, Extend, MemOperand, NeonRegister, Register, Shift, REG_SP, REG_ZERO};

pub const MAXW: usize = 6;

#[derive(Clone, Copy, Debug)]
pub struct Words {
    pub n: usize,
    pub w: [u32; MAXW],
}

pub fn words(a: AssemblerArm64) -> Words {
    words_of(a.finalize(4).code())
}

// ---- overwrite mode ------------------------------------------------------------------------
// Composite helpers (mov_imm, ldr_mem_*, ...) and label sequences emit a SYMBOLIC number of words.
// Appending a symbolic number of words to a Vec makes its length, capacity and data pointer
// symbolic, which the bounded model checker cannot handle (measured: > 15 min per harness).
// Those harnesses therefore run the assembler in its overwrite mode, which is part of the public
// API (set_position is what dora uses for patching): the buffer is pre-filled with a few
// NOPs, the position is set back, and the method under test overwrites words through the
// `position != code.len()` branch of `AssemblerBuffer::emit_u32`.  The append branch of
// `emit_u32` is covered by every single-instruction harness.  Under Kani `Vec::reserve` is
// stubbed by `reserve_once` (one exact up-front reservation, then an assertion that no growth is
// needed), which makes the infeasible append branch end at a constant-false assumption instead of
// re-growing the buffer symbolically.
/// pre-fill sizes (words): composite helpers emit at most 5 words; label harnesses need
/// 1 + 2 + NEAR filler + 1 words.  Small on purpose: the cost of the model checker's array
/// reasoning grows steeply with the size of the buffer (measured 262 s vs 30 s for 40 vs 8 words).
pub const PREFILL_SMALL: usize = 8;
pub const PREFILL_LABEL: usize = 16;
pub const NOP_WORD: u32 = 0xD503201F;

#[cfg(kani)]
pub fn reserve_once_small<T, A: std::alloc::Allocator>(v: &mut Vec<T, A>, additional: usize) {
    if v.capacity() == 0 {
        v.reserve_exact(4 * PREFILL_SMALL);
    }
    assert!(v.capacity() - v.len() >= additional, "STUB buffer growth beyond the pre-filled words");
}

#[cfg(kani)]
pub fn reserve_once_label<T, A: std::alloc::Allocator>(v: &mut Vec<T, A>, additional: usize) {
    if v.capacity() == 0 {
        v.reserve_exact(4 * PREFILL_LABEL);
    }
    assert!(v.capacity() - v.len() >= additional, "STUB buffer growth beyond the pre-filled words");
}

pub fn prefilled_n(words: usize) -> AssemblerArm64 {
    let mut a = AssemblerArm64::new();
    let nops: u128 = (NOP_WORD as u128) | (NOP_WORD as u128) << 32 | (NOP_WORD as u128) << 64 | (NOP_WORD as u128) << 96;
    let mut i = 0;
    while i < words / 4 {
        a.emit_u128(nops);
        i += 1;
    }
    a.set_position(0);
    a
}

pub fn prefilled() -> AssemblerArm64 { prefilled_n(PREFILL_SMALL) }
pub fn prefilled_label() -> AssemblerArm64 { prefilled_n(PREFILL_LABEL) }

/// the words written since position 0 (overwrite mode)
pub fn words_written(mut a: AssemblerArm64) -> Words {
    let n = a.position();
    a.set_position_end();
    let code = a.finalize(4).code();
    let mut r = Words { n: n / 4, w: [0; MAXW] };
    if n % 4 != 0 || r.n > MAXW || code.len() != 4 * PREFILL_SMALL {
        r.n = usize::MAX;
        return r;
    }
    let mut i = 0;
    while i < MAXW {
        if i < r.n {
            r.w[i] = word_at(&code, i);
        }
        i += 1;
    }
    r
}

fn words_of(code: Vec<u8>) -> Words {
    let mut r = Words { n: code.len() / 4, w: [0; MAXW] };
    if code.len() % 4 != 0 || r.n > MAXW {
        r.n = usize::MAX;
        return r;
    }
    // concrete trip count: a loop bounded by the (possibly symbolic) length would be unwound
    // up to the unwind limit by the model checker
    let mut i = 0;
    while i < MAXW {
        if i < r.n {
            r.w[i] = u32::from_le_bytes([code[4 * i], code[4 * i + 1], code[4 * i + 2], code[4 * i + 3]]);
        }
        i += 1;
    }
    r
}

pub fn word_at(code: &[u8], idx: usize) -> u32 {
    u32::from_le_bytes([code[4 * idx], code[4 * idx + 1], code[4 * idx + 2], code[4 * idx + 3]])
}

// ---- API values from codes -------------------------------------------------------------

pub fn gpr(c: u8) -> Register {
    if c < 31 {
        Register::new(c)
    } else if c == 31 {
        REG_ZERO
    } else {
        REG_SP
    }
}

pub fn neon(c: u8) -> NeonRegister {
    NeonRegister::new(c)
}

pub fn mk_cond(c: u8) -> Cond {
    match c {
        0 => Cond::EQ, 1 => Cond::NE, 2 => Cond::CS, 3 => Cond::HS, 4 => Cond::CC, 5 => Cond::LO,
        6 => Cond::MI, 7 => Cond::PL, 8 => Cond::VS, 9 => Cond::VC, 10 => Cond::HI, 11 => Cond::LS,
        12 => Cond::GE, 13 => Cond::LT, 14 => Cond::GT, _ => Cond::LE,
    }
}

pub fn mk_shift(c: u8) -> Shift {
    match c { 0 => Shift::LSL, 1 => Shift::LSR, 2 => Shift::ASR, _ => Shift::ROR }
}

pub fn mk_extend(c: u8) -> Extend {
    match c {
        0 => Extend::UXTB, 1 => Extend::UXTH, 2 => Extend::LSL, 3 => Extend::UXTW, 4 => Extend::UXTX,
        5 => Extend::SXTB, 6 => Extend::SXTH, 7 => Extend::SXTW, _ => Extend::SXTX,
    }
}

// ---- architectural meaning of the codes (Arm ARM C1.2.4 condition codes, C6 operand tables) --

/// 4-bit condition encoding of the Cond variant with code `c` (CS==HS, CC==LO).
pub fn cond_enc(c: u8) -> u8 {
    match c {
        0 => 0, 1 => 1, 2 | 3 => 2, 4 | 5 => 3, 6 => 4, 7 => 5, 8 => 6, 9 => 7,
        10 => 8, 11 => 9, 12 => 10, 13 => 11, 14 => 12, _ => 13,
    }
}

/// Extend codes
pub const E_UXTB: u8 = 0;
pub const E_UXTH: u8 = 1;
pub const E_LSL: u8 = 2;
pub const E_UXTW: u8 = 3;
pub const E_UXTX: u8 = 4;
pub const E_SXTB: u8 = 5;
pub const E_SXTH: u8 = 6;
pub const E_SXTW: u8 = 7;
pub const E_SXTX: u8 = 8;

/// `option` field of add/sub (extended register) for the Extend code; LSL is the alias of
/// UXTX in the 64-bit variant and of UXTW in the 32-bit variant (C6.2.3 ADD (extended register)).
pub fn addsub_option(e: u8, sf: u8) -> u8 {
    match e {
        E_UXTB => 0, E_UXTH => 1, E_UXTW => 2, E_UXTX => 3,
        E_SXTB => 4, E_SXTH => 5, E_SXTW => 6, E_SXTX => 7,
        _ => if sf == 1 { 3 } else { 2 },
    }
}

/// kind of Rm in add/sub (extended register): X only for the 64-bit variant with option x11
pub fn addsub_rm(rm: u8, e: u8, sf: u8) -> Reg {
    let o = addsub_option(e, sf);
    if sf == 1 && o & 3 == 3 { xz(rm) } else { wz(rm) }
}

/// load/store register-offset: legal index modifiers are UXTW, LSL, SXTW, SXTX (C6.2.132 LDR (register))
pub fn ldst_ext_ok(e: u8) -> bool {
    e == E_UXTW || e == E_LSL || e == E_SXTW || e == E_SXTX
}

pub fn ldst_option(e: u8) -> u8 {
    match e { E_UXTW => 2, E_LSL => 3, E_SXTW => 6, _ => 7 }
}

pub fn ldst_rm(rm: u8, e: u8) -> Reg {
    if ldst_option(e) & 1 == 1 { xz(rm) } else { wz(rm) }
}

// register roles ---------------------------------------------------------------------------

fn num(c: u8) -> u8 { if c < 31 { c } else { 31 } }
/// the operand position reads encoding 31 as the zero register: REG_SP cannot be requested
pub fn zr_ok(c: u8) -> bool { c <= 31 }
/// the operand position reads encoding 31 as the stack pointer: REG_ZERO cannot be requested
pub fn sp_ok(c: u8) -> bool { c <= 30 || c == 32 }
pub fn is_gpr(c: u8) -> bool { c <= 30 }
pub fn is_sp(c: u8) -> bool { c == 32 }

pub fn xz(c: u8) -> Reg { Reg { n: num(c), k: RK::X } }
pub fn xs(c: u8) -> Reg { Reg { n: num(c), k: RK::XSP } }
pub fn wz(c: u8) -> Reg { Reg { n: num(c), k: RK::W } }
pub fn ws(c: u8) -> Reg { Reg { n: num(c), k: RK::WSP } }
pub fn gz(c: u8, sf: u8) -> Reg { if sf == 1 { xz(c) } else { wz(c) } }
pub fn gs(c: u8, sf: u8) -> Reg { if sf == 1 { xs(c) } else { ws(c) } }
pub fn fb(c: u8) -> Reg { Reg { n: c, k: RK::B } }
pub fn fh(c: u8) -> Reg { Reg { n: c, k: RK::H } }
pub fn fs(c: u8) -> Reg { Reg { n: c, k: RK::S } }
pub fn fd(c: u8) -> Reg { Reg { n: c, k: RK::D } }
pub fn vreg(c: u8, k: RK) -> Reg { Reg { n: c, k } }

// expected-instruction builder -------------------------------------------------------------

pub fn ins(op: Op, form: Form, size: u8) -> Insn {
    Insn { a: mk(op, form, size as u32), r: 0, imm: 0 }
}

impl Insn {
    pub fn set_rd(mut self, r: Reg) -> Insn { self.r |= pk(r.n as u32, r.k) << RD; self }
    pub fn set_rn(mut self, r: Reg) -> Insn { self.r |= pk(r.n as u32, r.k) << RN; self }
    pub fn set_rm(mut self, r: Reg) -> Insn { self.r |= pk(r.n as u32, r.k) << RM; self }
    pub fn set_ra(mut self, r: Reg) -> Insn { self.r |= pk(r.n as u32, r.k) << RA; self }
    pub fn set_imm(mut self, v: i64) -> Insn { self.imm = v; self }
    pub fn set_imm2(mut self, v: i64) -> Insn { self.a |= ((v as u64) & 0xff) << IMM2; self }
    pub fn set_sh(mut self, kind: u8, amt: u8) -> Insn { self.a |= ((kind & 15) as u64) << SH | (amt as u64) << AMT; self }
    pub fn set_cond(mut self, c: u8) -> Insn { self.a |= ((c & 15) as u64) << COND; self }
}

/// single-word post-condition (INVALID never equals an expected instruction: its op is 0)
pub fn one(w: &Words, e: Insn) -> bool {
    w.n == 1 && decode(w.w[0]) == e
}

// legality predicates from the Arm ARM --------------------------------------------------------

/// add/sub immediate: 12 bits, optionally shifted left by 12 (C6.2.4)
pub fn addsub_imm_ok(imm: u32) -> bool {
    imm < 4096 || (imm & 0xfff == 0 && (imm >> 12) < 4096)
}

/// Is `imm` a bitmask immediate for a `regsize`-bit logical instruction?  Stated as in
/// C6.2.12 AND (immediate): "<imm> is the bitmask immediate, encoded in N:imms:immr" -- i.e.
/// a rotated run of ones of an element of size 2,4,..,regsize replicated; all-zeros and
/// all-ones are not encodable.  Loop-free formulation: for the smallest element size e at which
/// the value is e-periodic, the element is a rotated contiguous run iff it has exactly one 0->1
/// transition cyclically.
pub fn bitmask_imm_ok(imm: u64, regsize: u32) -> bool {
    let v = if regsize == 32 {
        if imm >> 32 != 0 {
            return false;
        }
        imm | (imm << 32)
    } else {
        imm
    };
    if v == 0 || v == !0u64 {
        return false;
    }
    // A 64-bit value that is a replication of a rotated run has, seen as a cyclic 64-bit string,
    // k rising edges and is periodic with period 64/k, k a power of two; conversely a cyclic
    // string with k = 64/e rising edges that is e-periodic has exactly one run per element.
    let rises = (v & !v.rotate_left(1)).count_ones(); // positions where bit i = 1 and bit i-1 = 0
    if !rises.is_power_of_two() {
        return false;
    }
    // candidate element size e = 64 / rises (rises <= 32 because a rise needs two bits)
    let e = match rises { 1 => 0, 2 => 32, 4 => 16, 8 => 8, 16 => 4, _ => 2 };
    v == v.rotate_left(e) // e == 0 stands for the 64-bit element: trivially periodic
}

/// movz/movn/movk chain semantics, evaluated per 16-bit lane (no variable shifts: cheap for the
/// SAT solver).  Words 0 .. to-1 (at most 4) must all be move-wide instructions on `rd` of width
/// `sf`, the first MOVZ or MOVN, the others MOVK.  Returns (ok, final register value, 64-bit view).
pub fn mov_chain(w: &Words, to: usize, rd: Reg, sf: u8) -> (bool, u64) {
    if to == 0 || to > 4 {
        return (false, 0);
    }
    let (mut h0, mut h1, mut h2, mut h3) = (0u64, 0u64, 0u64, 0u64);
    let mut i = 0;
    while i < 4 {
        if i < to {
            let d = decode(w.w[i]);
            if !d.form_is(MovWide) || !d.rd_is(rd) || d.size() != sf {
                return (false, 0);
            }
            let lane = d.imm2(); // 0, 16, 32, 48
            let v = (d.imm as u64) & 0xffff;
            if i == 0 {
                let (hit, miss) = if d.op_is(MOVZ) { (v, 0u64) } else if d.op_is(MOVN) { (v ^ 0xffff, 0xffffu64) } else { return (false, 0); };
                h0 = if lane == 0 { hit } else { miss };
                h1 = if lane == 16 { hit } else { miss };
                h2 = if lane == 32 { hit } else { miss };
                h3 = if lane == 48 { hit } else { miss };
            } else {
                if !d.op_is(MOVK) {
                    return (false, 0);
                }
                if lane == 0 { h0 = v; }
                if lane == 16 { h1 = v; }
                if lane == 32 { h2 = v; }
                if lane == 48 { h3 = v; }
            }
            if sf == 0 {
                // a W write zero-extends
                h2 = 0;
                h3 = 0;
            }
        }
        i += 1;
    }
    (true, h0 | h1 << 16 | h2 << 32 | h3 << 48)
}

/// post-condition of `mov_imm` / `mov_imm_w`
pub fn mov_imm_post(w: &Words, rd: u8, sf: u8, want: u64) -> bool {
    if w.n == 0 || w.n > 4 {
        return false;
    }
    mov_chain(w, w.n, gz(rd, sf), sf) == (true, want)
}

/// post-condition of the `ldr_mem_*` / `str_mem_*` helpers: either one load/store word whose
/// effective offset is `offset`, or a move-wide chain building `offset` in `scratch` followed by
/// the register-offset form `[base, scratch]` (no extend, no shift).
pub fn mem_post(w: &Words, load: bool, size: u8, rt: Reg, base: u8, offset: i64, scratch: u8) -> bool {
    if w.n == 0 || w.n > 5 {
        return false;
    }
    let last = decode(w.w[(w.n - 1) % MAXW]);
    if last.size() != size || !last.rd_is(rt) || !last.rn_is(xs(base)) {
        return false;
    }
    if w.n == 1 {
        let op_ok = if last.form_is(LdStUImm) {
            last.op_is(if load { LDR } else { STR })
        } else if last.form_is(LdStUnscaled) {
            last.op_is(if load { LDUR } else { STUR })
        } else {
            false
        };
        return op_ok && last.imm == offset;
    }
    if !last.form_is(LdStRegOff) || !last.op_is(if load { LDR } else { STR }) {
        return false;
    }
    // [Xn, Xm] : option LSL (= 011), no shift
    if !last.rm_is(xz(scratch)) || last.sh() != 3 || last.amt() != 0 {
        return false;
    }
    mov_chain(w, w.n - 1, xz(scratch), 1) == (true, offset as u64)
}

// label / branch semantics --------------------------------------------------------------------

pub fn inverse(op: Op) -> Op {
    match op { CBZ => CBNZ, CBNZ => CBZ, TBZ => TBNZ, TBNZ => TBZ, o => o }
}

pub fn nop_insn() -> Insn { ins(NOP, Hint, 0) }

/// Post-condition of an unconditional / conditional / adr reference to a label: exactly the
/// expected instruction with byte offset target - pos.
pub fn reaches(w0: u32, pos: i64, target: i64, e: Insn) -> bool {
    decode(w0) == e.set_imm(target - pos)
}

/// Post-condition of a compare/test-and-branch to a label placed at byte position `pos`:
/// `w0` (at pos) and optionally `w1` (at pos+4, `None` if nothing was reserved) implement
/// "if <op>(rt[, bit]) goto target, else fall through to the code after the sequence".
/// `e` is the direct form with imm = 0.
pub fn cond_branch_reaches(w0: u32, w1: Option<u32>, reserved2: bool, pos: i64, target: i64, op: Op, e: Insn) -> bool {
    let d0 = decode(w0);
    if d0 == e.set_imm(target - pos) {
        // direct form; a reserved second slot must be a NOP
        return !reserved2 || match w1 { Some(x) => decode(x) == nop_insn(), None => false };
    }
    // inverted test skipping an unconditional branch
    let inv = Insn { a: (e.a & !0xff) | (inverse(op) as u64), r: e.r, imm: 8 };
    if d0 == inv {
        return match w1 { Some(x) => decode(x) == ins(B, BranchImm, 0).set_imm(target - (pos + 4)), None => false };
    }
    false
}

// SIMD arrangement helpers (C7.2 ADDV / CNT: size:Q -> <T>)
pub fn vec_arrangement(size: u32, q: u32) -> RK {
    match (size << 1) | (q & 1) {
        0 => RK::V8B, 1 => RK::V16B, 2 => RK::V4H, 3 => RK::V8H, 4 => RK::V2S, 5 => RK::V4S, _ => RK::V2D,
    }
}
pub fn addv_scalar(size: u32) -> RK {
    match size { 0 => RK::B, 1 => RK::H, _ => RK::S }
}
