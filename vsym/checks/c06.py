"""C06 — the front end never crashes, whatever text it is given: the LEXER-LEVEL claim (MIR-seq).

For every well-formed UTF-8 text within the bounds: no panic / unwrap / expect / index / overflow assertion of
`dora_parser::lex` (all `Lexer::*` methods and character-class helpers), `compute_line_starts`,
`compute_line_column`, `get_line_content` is reachable; the token loop makes progress (every token consumes
at least one byte, so lexing terminates with at most L + 1 tokens); every lexer error span lies inside the
text.  Parser, tree construction, semantic analysis and driver are outside this claim.
Implementation shared with C16: vsym/lexcheck.py (families, induction, replay are described there)."""
from .. import lexcheck

PID = "C06"


def main(tier):
    return lexcheck.run(PID, tier)


def replay(path):
    return lexcheck.replay(PID, path)
