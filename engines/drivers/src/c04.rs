//! Managed-thread environment for the stop-the-world protocol (C04).  Each thread runs a
//! nondeterministically chosen, budget-bounded sequence of the actions the property names
//! (safepoint poll, native call, stop-the-world request, thread start) with heap accesses in
//! between, and finally leaves (`remove_current_thread`).  All calls on the stand-in types below
//! are resolved to the REAL MIR of dora-runtime (safepoint.rs / threads.rs / runtime.rs).
use crate::stub;
use std::sync::Arc;

pub struct Runtime;
pub struct DoraThread;
pub struct Threads;

impl DoraThread {
    #[inline(never)]
    pub fn park(&self, rt: &Runtime) { unimplemented!() }
    #[inline(never)]
    pub fn unpark(&self, rt: &Runtime) { unimplemented!() }
}

impl Threads {
    #[inline(never)]
    pub fn remove_current_thread(&self) { unimplemented!() }
    #[inline(never)]
    pub fn add_thread(&self, thread: Arc<DoraThread>) { unimplemented!() }
}

#[inline(never)]
pub fn stop_the_world<F, R>(rt: &Runtime, operation: F) -> R
where
    F: FnOnce(&[Arc<DoraThread>]) -> R,
{
    unimplemented!()
}

#[inline(never)]
pub fn safepoint_slow() { unimplemented!() }

stub! {
    fn verif_rt() -> &'static Runtime;
    fn verif_threads() -> &'static Threads;
    fn verif_me(me: usize) -> &'static DoraThread;
    fn verif_wait_started(me: usize);
    fn verif_action(me: usize) -> u8;
    fn verif_poll(me: usize) -> u8;
    fn verif_native_code(me: usize);
    fn verif_operation_begin(me: usize);
    fn verif_operation_end(me: usize);
    fn verif_spawn_arc(me: usize) -> Arc<DoraThread>;
    fn verif_mark_started(me: usize);
    fn verif_heap_access(me: usize);
}

pub fn drv_c04_thread(me: usize, started: bool) {
    if !started {
        // a spawned thread: registered in state Parked by its parent, its first act is unpark()
        verif_wait_started(me);
        verif_me(me).unpark(verif_rt());
    }
    loop {
        match verif_action(me) {
            0 => break,
            1 => {
                // the safepoint poll compiled into function entries and loop back edges
                if verif_poll(me) != 0 {
                    safepoint_slow();
                }
            }
            2 => {
                // call into native code and back
                verif_me(me).park(verif_rt());
                verif_native_code(me);
                verif_me(me).unpark(verif_rt());
            }
            3 => {
                // a stop-the-world operation (collection, heap snapshot, out-of-memory report)
                stop_the_world(verif_rt(), |_threads| {
                    verif_operation_begin(me);
                    verif_operation_end(me);
                });
            }
            _ => {
                // start another thread
                verif_threads().add_thread(verif_spawn_arc(me));
                verif_mark_started(me);
            }
        }
        // managed code between two actions touches the heap
        verif_heap_access(me);
    }
    verif_threads().remove_current_thread();
}
