"""std models for text-walking code (char iteration, UTF-16 counting, binary search, `vec![..]`),
used by C20.  Same contract style as models.py; own list MODELS_TEXT — pass
`MODELS_TEXT + models.MODELS` to the interpreter (first match wins).

Contracts (all for `&str` values, whose type invariant is well-formed UTF-8; the harness states the
invariant as an assumption on the symbolic bytes, and every model re-checks what it relies on: a
lead byte that is a continuation byte, or a character running past the end of the slice, makes the
run inconclusive instead of being silently accepted):

* `str::chars` / `Chars::next` / `Iterator::peekable` / `Peekable::{next,peek}`: characters in order;
  the position inside the slice is concrete, the decoded scalar value is a term over the bytes; the
  width class of every lead byte is decided by `ctx.branch` (forks).
* `char::len_utf8`, `char::len_utf16`: by scalar value (`< 0x80, < 0x800, < 0x10000`), decided by `ctx.branch`.
* `str::encode_utf16().count()`: sum over the characters of 1, or 2 for scalar values >= 0x10000.
* `<[T]>::binary_search(&x)` for integer T: `Ok(i)` with `s[i] == x`, else `Err(i)` with
  `s[..i] < x < s[i..]`.  std leaves the result unspecified for unsorted slices and for duplicates:
  the model requires a strictly increasing slice (otherwise inconclusive).
* `Box::<[T; N]>::new_uninit` + `box_assume_init_into_vec_unsafe` (the expansion of `vec![a, b, …]`
  on this nightly): a fresh, non-null, suitably aligned allocation which is then read back as a Vec.
"""
import re

import z3

from ..common import Inconclusive
from .interp import Adt, Cell, Int, Interp, Opaque, Panic, Ref, Slice, Tup, UNIT, VecV, INT_W, get_path
from .models import NONE, deref, elems_of, some, usize, write_ref

MODELS_TEXT = []


def model(pat):
    def deco(fn):
        MODELS_TEXT.append((re.compile(pat), fn))
        return fn
    return deco


# ------------------------------------------------------------------------------------------
# decoding

def _memo(ctx):
    m = getattr(ctx, "_text_memo", None)
    if m is None:
        m = ctx._text_memo = {}
    return m


def lead_width(ctx, b):
    """number of bytes of the character starting with lead byte `b` (Int u8); forks; a decision is
    remembered per path and byte term (the decision is in the path condition, so reusing it is exact)"""
    memo = _memo(ctx)
    key = ("w", b.t.get_id())
    if key in memo:
        return memo[key]
    t = b.t
    if ctx.branch(z3.ULT(t, 0x80)):
        w = 1
    elif ctx.branch(z3.And(z3.UGE(t, 0xC0), z3.ULT(t, 0xE0))):
        w = 2
    elif ctx.branch(z3.And(z3.UGE(t, 0xE0), z3.ULT(t, 0xF0))):
        w = 3
    elif ctx.branch(z3.UGE(t, 0xF0)):
        w = 4
    else:
        raise Inconclusive("character iteration starts on a UTF-8 continuation byte (the &str invariant does not hold)")
    memo[key] = w
    return w


def decode_at(ctx, el, p):
    """-> (char Int, width) of the character starting at concrete position p of the byte tuple el"""
    w = lead_width(ctx, el[p])
    if p + w > len(el):
        raise Inconclusive("a character runs past the end of the string slice (the &str invariant does not hold)")
    b = [e.t for e in el[p:p + w]]
    x = lambda t, hi, lo: z3.Extract(hi, lo, t)
    if w == 1:
        c = z3.ZeroExt(24, b[0])
    elif w == 2:
        c = z3.ZeroExt(21, z3.Concat(x(b[0], 4, 0), x(b[1], 5, 0)))
    elif w == 3:
        c = z3.ZeroExt(16, z3.Concat(x(b[0], 3, 0), x(b[1], 5, 0), x(b[2], 5, 0)))
    else:
        c = z3.ZeroExt(11, z3.Concat(x(b[0], 2, 0), x(b[1], 5, 0), x(b[2], 5, 0), x(b[3], 5, 0)))
    return Int(z3.simplify(c), "char"), w


def chars_state(el, pos=0):
    return Tup((Slice(el, "str"), usize(pos)), name="Iter:chars")


def chars_next(ctx, st):
    """-> (Option<char>, new state)"""
    seq, pos = st.fields
    p = pos.conc()
    if p >= len(seq.elems):
        return NONE, st
    ch, w = decode_at(ctx, seq.elems, p)
    return some(ch), Tup((seq, usize(p + w)), name="Iter:chars")


@model(r"core::str::<impl str>::chars")
def m_chars(it, ctx, callee, args):
    return chars_state(elems_of(args[0]))


@model(r"<(std::str::|core::str::)?Chars as Iterator>::next")
def m_chars_next(it, ctx, callee, args):
    st = deref(args[0])
    if not (isinstance(st, Tup) and st.name == "Iter:chars"):
        raise Inconclusive("Chars state %r" % (st,))
    r, st2 = chars_next(ctx, st)
    write_ref(args[0], st2)
    return r


@model(r"core::str::<impl str>::char_indices")
def m_char_indices(it, ctx, callee, args):
    return Tup((Slice(elems_of(args[0]), "str"), usize(0)), name="Iter:char_indices")


@model(r"<(std::str::|core::str::)?CharIndices as Iterator>::next")
def m_char_indices_next(it, ctx, callee, args):
    st = deref(args[0])
    if not (isinstance(st, Tup) and st.name == "Iter:char_indices"):
        raise Inconclusive("CharIndices state %r" % (st,))
    seq, pos = st.fields
    p = pos.conc()
    if p >= len(seq.elems):
        return NONE
    ch, w = decode_at(ctx, seq.elems, p)
    write_ref(args[0], Tup((seq, usize(p + w)), name="Iter:char_indices"))
    return some(Tup((usize(p), ch)))


@model(r"<(std::str::|core::str::)?Chars as Iterator>::count|core::str::<impl str>::chars::count")
def m_chars_count(it, ctx, callee, args):
    st = args[0]
    if not (isinstance(st, Tup) and st.name == "Iter:chars"):
        raise Inconclusive("Chars state %r" % (st,))
    el, p, n = st.fields[0].elems, st.fields[1].conc(), 0
    while p < len(el):
        p += lead_width(ctx, el[p])
        n += 1
    if p != len(el):
        raise Inconclusive("a character runs past the end of the string slice (the &str invariant does not hold)")
    return usize(n)


@model(r"<(std::str::|core::str::)?Chars as Iterator>::peekable")
def m_peekable(it, ctx, callee, args):
    st = args[0]
    if not (isinstance(st, Tup) and st.name == "Iter:chars"):
        raise Inconclusive("peekable over %r" % (st,))
    # (inner iterator, peeked: None = nothing buffered | Some(Option<char>))
    return Tup((st, NONE), name="Peekable:chars")


def _peekable(v):
    st = deref(v)
    if not (isinstance(st, Tup) and st.name == "Peekable:chars"):
        raise Inconclusive("Peekable state %r" % (st,))
    return st


@model(r"<(std::iter::|core::iter::)?Peekable<(std::str::|core::str::)?Chars> as Iterator>::next")
def m_peekable_next(it, ctx, callee, args):
    st = _peekable(args[0])
    inner, peeked = st.fields
    if peeked.variant == "Some":
        write_ref(args[0], Tup((inner, NONE), name=st.name))
        return peeked.fields[0]
    r, inner2 = chars_next(ctx, inner)
    write_ref(args[0], Tup((inner2, NONE), name=st.name))
    return r


@model(r"(std::iter::|core::iter::)?Peekable::peek")
def m_peekable_peek(it, ctx, callee, args):
    st = _peekable(args[0])
    inner, peeked = st.fields
    if peeked.variant != "Some":
        r, inner = chars_next(ctx, inner)
        peeked = some(r)
        write_ref(args[0], Tup((inner, peeked), name=st.name))
    o = peeked.fields[0]
    if o.variant == "None":
        return NONE
    return some(Ref(Cell(o.fields[0], "peeked")))


@model(r"(core::)?char::methods::<impl char>::len_utf8")
def m_len_utf8(it, ctx, callee, args):
    c = deref(args[0])
    if ctx.branch(z3.ULT(c.t, 0x80)):
        return usize(1)
    if ctx.branch(z3.ULT(c.t, 0x800)):
        return usize(2)
    if ctx.branch(z3.ULT(c.t, 0x10000)):
        return usize(3)
    return usize(4)


@model(r"(core::)?char::methods::<impl char>::len_utf16")
def m_len_utf16(it, ctx, callee, args):
    c = deref(args[0])
    if ctx.branch(z3.ULT(c.t, 0x10000)):
        return usize(1)
    return usize(2)


@model(r"core::str::<impl str>::encode_utf16")
def m_encode_utf16(it, ctx, callee, args):
    return Tup((Slice(elems_of(args[0]), "str"), usize(0)), name="Iter:utf16")


@model(r"<(std::str::|core::str::)?EncodeUtf16 as Iterator>::count")
def m_utf16_count(it, ctx, callee, args):
    st = args[0]
    if not (isinstance(st, Tup) and st.name == "Iter:utf16"):
        raise Inconclusive("EncodeUtf16 state %r" % (st,))
    el, p, n = st.fields[0].elems, st.fields[1].conc(), 0
    while p < len(el):
        ch, w = decode_at(ctx, el, p)
        # a surrogate pair exactly for scalar values outside the BMP
        n += 1 if ctx.branch(z3.ULT(ch.t, 0x10000)) else 2
        p += w
    return usize(n)


# ------------------------------------------------------------------------------------------
# slices of integers

@model(r"core::slice::<impl \[(u8|u16|u32|u64|usize|i8|i16|i32|i64|isize)\]>::binary_search")
def m_binary_search(it, ctx, callee, args):
    el = elems_of(args[0])
    x = deref(args[1])
    signed = x.ty.startswith("i")
    lt = (lambda a, b: a < b) if signed else z3.ULT
    for a, b in zip(el, el[1:]):
        if ctx.can(z3.Not(lt(a.t, b.t))):
            raise Inconclusive("binary_search on a slice that is not strictly increasing (result unspecified by std)")
    for i, e in enumerate(el):
        if ctx.branch(e.t == x.t):
            return Adt("Result", "Ok", (usize(i),))
        if ctx.branch(lt(x.t, e.t)):
            return Adt("Result", "Err", (usize(i),))
    return Adt("Result", "Err", (usize(len(el)),))


# ------------------------------------------------------------------------------------------
# lsp_types (plain data, constructor only)

@model(r"(lsp_types::)?Position::new")
def m_position_new(it, ctx, callee, args):
    # pub struct Position { pub line: u32, pub character: u32 }
    return Tup((args[0], args[1]), name="lsp_types::Position", fnames=["line", "character"])


# ------------------------------------------------------------------------------------------
# vec![a, b, …]  (Box::new_uninit + write through the raw pointer + box_assume_init_into_vec_unsafe)

BOX_ADDR = 0x10000      # address of every modelled fresh allocation: non-null, aligned for every type up to 64 KiB


@model(r"(std::boxed::|alloc::boxed::)?Box::new_uninit")
def m_box_new_uninit(it, ctx, callee, args):
    # Box<MaybeUninit<T>> = (Unique(NonNull(ptr)), alloc)
    ptr = Ref(Cell(None, "box-uninit"))
    return Tup((Tup((ptr,)), Opaque("zst:Global")), name="Box")


@model(r"(std::boxed::|alloc::boxed::)?box_assume_init_into_vec_unsafe")
def m_box_into_vec(it, ctx, callee, args):
    b = args[0]
    try:
        ptr = b.fields[0].fields[0]
        v = ptr.cell.v
        # MaybeUninit<[T; N]> { uninit: (), value: ManuallyDrop { value: MaybeDangling([T; N]) } }
        while isinstance(v, Tup):
            inner = [f for f in v.fields if f is not None]
            if len(inner) != 1:
                raise Inconclusive("boxed array shape %r" % (v,))
            v = inner[0]
    except (AttributeError, IndexError):
        raise Inconclusive("box_assume_init_into_vec_unsafe of %r" % (b,))
    if not (isinstance(v, VecV) and v.kind == "array"):
        raise Inconclusive("box_assume_init_into_vec_unsafe: box holds %r" % (v,))
    return VecV(v.elems, "vec")


_PRIM = {"u8": 1, "i8": 1, "bool": 1, "u16": 2, "i16": 2, "u32": 4, "i32": 4, "char": 4, "u64": 8, "i64": 8, "usize": 8,
         "isize": 8, "u128": 16, "i128": 16}


def size_align(ty):
    ty = ty.strip()
    if ty in _PRIM:
        return _PRIM[ty], _PRIM[ty]
    m = re.fullmatch(r"\[(.+); (\d+)\]", ty)
    if m:
        s, a = size_align(m.group(1))
        return s * int(m.group(2)), a
    m = re.fullmatch(r"(?:std::mem::|core::mem::)?MaybeUninit<(.+)>", ty)
    if m:
        return size_align(m.group(1))
    raise Inconclusive("size/alignment of type " + ty)


class TextInterp(Interp):
    """Interp + the three things the `vec![…]` expansion needs that are not calls:
    `<T as SizedTypeProperties>::{SIZE,ALIGN}` constants, pointer→usize transmutes of a fresh allocation
    (only compared against alignment masks and null), and a per-instance cache of promoted constants."""

    def __init__(self, prog, models, extra_progs=()):
        Interp.__init__(self, prog, models, extra_progs)
        self._const_cache = {}

    def const(self, ctx, fr, text, ty_hint=None):
        t = text.strip()
        m = re.fullmatch(r"<(.+) as (?:std|core)::mem::SizedTypeProperties>::(SIZE|ALIGN)", t)
        if m:
            s, a = size_align(m.group(1))
            return Int(s if m.group(2) == "SIZE" else a, "usize")
        return Interp.const(self, ctx, fr, text, ty_hint)

    def lookup_const(self, fr, name):
        if name not in self._const_cache:
            self._const_cache[name] = Interp.lookup_const(self, fr, name)
        return self._const_cache[name]

    def cast(self, a, ty, kind):
        if kind == "Transmute" and ty.strip() == "usize" and isinstance(a, Ref) and a.cell.tag == "box-uninit" and not a.path:
            return Int(BOX_ADDR, "usize")
        return Interp.cast(self, a, ty, kind)
