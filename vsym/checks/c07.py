"""C07 -- every x86-64 instruction is encoded as the instruction that was requested.

Deciding step: Kani 0.68 / CBMC over the compiled code of /repo/dora-asm/src/x64.rs
(current working tree).  A harness crate is generated on every run
(engines/kani_asm/gen_x64.py: `pub fn` signatures x spec/x64.toml), every public instruction
method is called with symbolic operands and the emitted bytes are run through an independent
reference decoder (engines/kani_asm/x64/src/decoder.rs); one named check per (method,
variant) unit: `decode(bytes) == expected and length == bytes.len() and legal(operands)`.

A failing unit is re-run alone with concrete playback, the operand values are replayed
against the natively compiled assembler, decoded again and disassembled with llvm-mc-14;
only a reproduced mismatch is reported.

Environment: VERIF_JOBS (parallel CBMC processes, default 16), VERIF_MEM_GB (address space
cap per process, default 12), VERIF_ASM_SRC (dora-asm crate to check, default /repo/dora-asm),
C07_ONLY_METHODS=a,b (development: partial run, flagged in the evidence), C07_CACHE=1 (development:
content-addressed reuse of per-harness results; off by default).
"""
import concurrent.futures
import importlib.util
import json
import os
import re
import resource
import shutil
import subprocess
import time

from .. import common

PID = "C07"
GEN = os.path.join(common.VERIF, "engines", "kani_asm", "gen_x64.py")
CRATE = os.path.join(common.WORK, "kani_x64")
CEX_CRATE = os.path.join(common.WORK, "kani_x64_cex")
TARGET = os.path.join(common.WORK, "kani_x64_target")
CEX_TARGET = os.path.join(common.WORK, "kani_x64_cex_target")
NATIVE_TARGET = os.path.join(common.WORK, "kani_x64_native")
LOGS = os.path.join(common.WORK, "kani_x64_logs")
CACHE = os.path.join(common.WORK, "kani_x64_cache")
LLVM_MC = shutil.which("llvm-mc-14") or shutil.which("llvm-mc")

HARNESS_TIMEOUT = int(os.environ.get("C07_HARNESS_TIMEOUT", "2400"))


def jobs():
    try:
        return max(1, int(os.environ.get("VERIF_JOBS", "16")))
    except ValueError:
        return 16


def mem_bytes():
    try:
        return int(float(os.environ.get("VERIF_MEM_GB", "12")) * (1 << 30))
    except ValueError:
        return 12 << 30


def load_gen():
    spec = importlib.util.spec_from_file_location("gen_x64", GEN)
    mod = importlib.util.module_from_spec(spec)
    spec.loader.exec_module(mod)
    return mod


# ------------------------------------------------------------------------------------------
# running Kani

# `--output-format old`: CBMC's plain property list.  The JSON route (Kani's default) makes CBMC
# dump a full trace for every satisfied cover (~175 MB each), which dominated the run time.
# Kani's own assertion-reachability checks are replaced by one kani::cover! per unit.
KANI_FLAGS = ["-Z", "stubbing"]
KANI_RUN_FLAGS = ["--output-format", "old", "--no-assertion-reach-checks"]


def _limit():
    m = mem_bytes()
    resource.setrlimit(resource.RLIMIT_AS, (m, m))


def _limit_cex():
    # concrete playback makes CBMC build and print traces: needs about twice the memory;
    # only failing units are re-run this way, a few at a time
    m = max(2 * mem_bytes(), 24 << 30)
    resource.setrlimit(resource.RLIMIT_AS, (m, m))


def content_hash(crate, asm_src):
    """Hash of everything a harness verdict depends on: the generated crate (harnesses, decoder,
    comparison, Cargo.toml/lock), the dora-asm sources it is compiled against, the Kani/CBMC
    versions and the flags.  OFF by default; with `C07_CACHE=1` (development aid) a result is
    stored / reused under an identical hash only; nothing else is carried from one run to the next."""
    import hashlib
    h = hashlib.sha256()
    files = []
    for root in (os.path.join(crate, "src"), os.path.join(asm_src, "src")):
        for dp, _, fs in os.walk(root):
            for f in fs:
                files.append(os.path.join(dp, f))
    files += [os.path.join(crate, "Cargo.toml"), os.path.join(crate, "Cargo.lock"), os.path.join(asm_src, "Cargo.toml")]
    for f in sorted(files):
        if os.path.isfile(f):
            h.update(f.encode() + b"\0")
            h.update(open(f, "rb").read())
            h.update(b"\0")
    try:
        v = subprocess.run(["cargo", "kani", "--version"], stdout=subprocess.PIPE, stderr=subprocess.STDOUT, text=True, timeout=120).stdout
    except Exception:
        v = "?"
    h.update(v.encode())
    h.update(" ".join(KANI_FLAGS + KANI_RUN_FLAGS).encode())
    return h.hexdigest()


def cache_path(base, harness, kind="run"):
    import hashlib
    return os.path.join(CACHE, hashlib.sha256((base + "|" + harness + "|" + kind).encode()).hexdigest()[:40] + ".log")


def conclusive(r):
    return r["verdict"] is not None and not r["error"] and r["errors"] == 0


def kani_build(crate, target):
    t = time.time()
    p = common.run(["cargo", "kani"] + KANI_FLAGS + ["--only-codegen", "--target-dir", target], cwd=crate,
                   timeout=3600, check=False)
    if p.returncode != 0:
        raise common.Inconclusive("kani build of the harness crate failed:\n" + (p.stdout + p.stderr)[-3000:])
    return time.time() - t


def kani_run(crate, target, harness, log, playback=False):
    """-> (returncode or 'timeout', wall seconds); full output in `log`"""
    cmd = ["cargo", "kani"] + KANI_FLAGS + ["--target-dir", target, "--harness", "harnesses::" + harness, "--exact"]
    if playback:
        cmd += ["-Z", "concrete-playback", "--concrete-playback=print", "--no-assertion-reach-checks"]
    else:
        cmd += KANI_RUN_FLAGS
    t = time.time()
    with open(log, "w") as f:
        try:
            p = subprocess.run(cmd, cwd=crate, env=common.ENV, stdout=f, stderr=subprocess.STDOUT,
                               timeout=HARNESS_TIMEOUT, preexec_fn=_limit_cex if playback else _limit)
            rc = p.returncode
        except subprocess.TimeoutExpired:
            rc = "timeout"
            subprocess.run(["pkill", "cbmc"], check=False)  # children of the killed driver
    return rc, time.time() - t


PROP_RE = re.compile(r"^\[(\S+)\] line (\d+) (?:\[KANI_CHECK_ID[^\]]*\] )?(.*): (SUCCESS|FAILURE|ERROR|UNKNOWN)$")
HEAD_RE = re.compile(r"^(\S+) function (.+)$")


def parse_log(text):
    """Per-check statuses of one harness run (CBMC plain output)."""
    r = {"units": {}, "witness": {}, "refusals": [], "unwind_fail": [], "model_fail": [], "other_fail": [],
         "errors": 0, "checks": 0, "verdict": None, "symex_s": None, "solver_s": 0.0, "error": None}
    cur_file, cur_fn = "", ""
    for line in text.splitlines():
        m = PROP_RE.match(line)
        if not m:
            h = HEAD_RE.match(line)
            if h and not line.startswith("["):
                cur_file, cur_fn = h.group(1), h.group(2)
            continue
        name, lno, desc, status = m.groups()
        desc = desc.strip().strip('"')
        r["checks"] += 1
        if status in ("ERROR", "UNKNOWN"):
            r["errors"] += 1
        if desc.startswith("C07:m:"):
            r["units"][desc[6:]] = status
        elif desc.startswith("C07:witness:"):
            # a cover is encoded as assert(!cond): FAILURE = satisfiable
            r["witness"][desc[12:]] = {"FAILURE": "SATISFIED", "SUCCESS": "UNSATISFIABLE"}.get(status, status)
        elif status == "FAILURE":
            if ".unwind." in name or "unwinding assertion" in desc:
                r["unwind_fail"].append("%s:%s %s" % (cur_file, lno, cur_fn))
            elif desc.startswith("C07-model:"):
                r["model_fail"].append(desc)
            elif cur_file.startswith("src/") or "kani_x64" in cur_file or cur_fn.startswith("harnesses::") or cur_fn.startswith("decoder::"):
                # a failing check inside the harness crate itself (decoder, comparison): our bug
                r["other_fail"].append({"what": desc, "where": "%s:%s %s" % (cur_file, lno, cur_fn)})
            else:
                # assertion / panic inside dora-asm, or a std panic path reached from it
                # (unwrap, expect, index): the assembler refuses these operands
                r["refusals"].append({"what": desc, "where": "%s:%s" % (os.path.basename(cur_file), lno), "function": cur_fn})
    m = re.search(r"^VERIFICATION (\w+)", text, re.M)
    if m:
        r["verdict"] = m.group(1)
    m = re.search(r"Runtime Symex: ([\d.e+-]+)s", text)
    if m:
        r["symex_s"] = float(m.group(1))
    r["solver_s"] = round(sum(float(x) for x in re.findall(r"Runtime decision procedure: ([\d.e+-]+)s", text)), 2)
    low = text.lower()
    if "out of memory" in low or "bad_alloc" in low or "cbmc failed" in low or "cbmc crashed" in low:
        r["error"] = "cbmc failed / out of memory"
    elif r["errors"]:
        r["error"] = "%d checks with status ERROR/UNKNOWN" % r["errors"]
    elif r["verdict"] is None:
        e = re.search(r"^error.*$", text, re.M)
        r["error"] = ("kani error: " + e.group(0)[:300]) if e else "no verdict"
    return r


PLAYBACK_RE = re.compile(r"/// Check for `(\w+)`: \"(.*?)\"\s*\n(?:.*\n)*?\s*let concrete_vals: Vec<Vec<u8>> = vec!\[\n((?:.*\n)*?)\s*\];", re.M)


def parse_playback(text):
    """-> {check description: [raw byte vectors]}"""
    out = {}
    for m in PLAYBACK_RE.finditer(text):
        kind, desc, body = m.groups()
        vals = []
        for v in re.findall(r"vec!\[([\d, ]*)\]", body):
            vals.append([int(x) for x in v.replace(" ", "").split(",") if x != ""])
        out.setdefault(desc.strip('"'), vals)
    return out


def decode_vals(raw, types):
    vals = []
    for bs, t in zip(raw, types):
        v = int.from_bytes(bytes(bs), "little", signed=False)
        bits = 8 * len(bs)
        if t in ("i32", "i64") and v >= 1 << (bits - 1):
            v -= 1 << bits
        vals.append(v)
    return vals


# ------------------------------------------------------------------------------------------
# native replay + llvm-mc second opinion

def native_build(crate):
    p = common.run(["cargo", "build", "--offline", "-q", "--target-dir", NATIVE_TARGET], cwd=crate, timeout=1800, check=False)
    if p.returncode != 0:
        raise common.Inconclusive("native build of the replay binary failed:\n" + p.stderr[-3000:])
    return os.path.join(NATIVE_TARGET, "debug", "c07-replay")


def native_batch(binary, lines):
    p = subprocess.run([binary, "--batch"], input="\n".join(lines) + "\n", stdout=subprocess.PIPE, stderr=subprocess.PIPE,
                       text=True, timeout=600)
    out = []
    for l in p.stdout.splitlines():
        l = l.strip()
        if l:
            out.append(json.loads(l))
    if len(out) != len(lines):
        raise common.Inconclusive("replay binary answered %d of %d requests: %s" % (len(out), len(lines), p.stderr[-500:]))
    return out


def llvm_disasm(hexbytes):
    """-> list of text lines (one per instruction / prefix line), comments stripped"""
    if not LLVM_MC:
        return None
    bs = " ".join("0x" + hexbytes[i:i + 2] for i in range(0, len(hexbytes), 2))
    p = subprocess.run([LLVM_MC, "--disassemble", "-triple=x86_64"], input=bs + "\n", stdout=subprocess.PIPE,
                       stderr=subprocess.PIPE, text=True, timeout=60)
    lines = []
    for l in p.stdout.splitlines():
        l = l.split("#")[0].strip()
        if not l or l.startswith("."):
            continue
        lines.append(re.sub(r"\s+", " ", l))
    if "invalid instruction" in p.stderr or "warning" in p.stderr:
        lines.append("<invalid>")
    return lines


GP64 = ["rax", "rcx", "rdx", "rbx", "rsp", "rbp", "rsi", "rdi"] + ["r%d" % i for i in range(8, 16)]
GP32 = ["eax", "ecx", "edx", "ebx", "esp", "ebp", "esi", "edi"] + ["r%dd" % i for i in range(8, 16)]
GP16 = ["ax", "cx", "dx", "bx", "sp", "bp", "si", "di"] + ["r%dw" % i for i in range(8, 16)]
GP8 = ["al", "cl", "dl", "bl", "spl", "bpl", "sil", "dil"] + ["r%db" % i for i in range(8, 16)]
HI8 = {20: "ah", 21: "ch", 22: "dh", 23: "bh"}
CC = ["o", "no", "b", "ae", "e", "ne", "be", "a", "s", "ns", "p", "np", "l", "ge", "le", "g"]
SUFFIX = {8: "b", 16: "w", 32: "l", 64: "q"}


def reg_name(cls, num):
    if cls == 64:
        return GP64[num]
    if cls == 32:
        return GP32[num]
    if cls == 16:
        return GP16[num]
    if cls == 8:
        return HI8[num] if num in HI8 else GP8[num]
    if cls == 128:
        return "xmm%d" % num
    if cls == 255:
        return "ymm%d" % num
    return "?%d.%d" % (cls, num)


def att_expected(e, rel):
    """Canonical (mnemonic, operands in AT&T order) of an expected/decoded instruction record."""
    mn, sz = e["mn"], e["opsize"]
    sfx = SUFFIX.get(sz, "")
    ops = []
    for k in ("o1", "o2", "o3", "o4"):
        o = e[k]
        if o["kind"] == 0:
            continue
        if o["kind"] == 1:
            ops.append(("reg", reg_name(o["class"], o["num"])))
        elif o["kind"] == 2:
            m = e["mem"]
            if m["rip"]:
                ops.append(("mem", m["disp"], "rip", None, 1))
            else:
                ops.append(("mem", m["disp"], GP64[m["base"]] if m["base"] != 255 else None,
                            GP64[m["index"]] if m["index"] != 255 else None, m["scale"]))
        elif o["kind"] == 3:
            bits = sz if mn not in ("rol", "ror", "shl", "shr", "sar", "roundss", "roundsd") else 8
            if bits in (128, 255, 0):
                bits = 8
            ops.append(("imm", e["imm"] % (1 << bits), bits))
        elif o["kind"] == 4:
            ops.append(("rel", rel))
    name = mn
    if mn in ("add", "or", "adc", "sbb", "and", "sub", "xor", "cmp", "test", "mov", "neg", "not", "idiv", "imul", "rol",
              "ror", "shl", "shr", "sar", "xchg", "xadd", "cmpxchg", "lzcnt", "tzcnt", "popcnt", "lea", "push", "pop", "inc", "dec"):
        name = mn + sfx
    elif mn == "movzx":
        name = "movz" + SUFFIX.get(e["o2"]["class"], "?") + sfx
    elif mn == "movsx":
        name = "movs" + SUFFIX.get(e["o2"]["class"], "?") + sfx
    elif mn == "movsxd":
        name = "movslq" if sz == 64 else "movsxd"
    elif mn == "ret":
        name = "retq"
    elif mn in ("call", "jmp"):
        if e["o1"]["kind"] == 4:
            name = "callq" if mn == "call" else "jmp"
        else:
            name = mn + "q"
            ops = [("ind",) + ops[0][1:]] if ops[0][0] == "reg" else [("indmem",) + ops[0][1:]]
    elif mn == "jcc":
        name = "j" + CC[e["cc"]]
    elif mn == "setcc":
        name = "set" + CC[e["cc"]]
    elif mn == "cmovcc":
        name = "cmov" + CC[e["cc"]] + sfx
    elif mn == "cdq":
        name = "cltd"
    elif mn == "cqo":
        name = "cqto"
    elif mn == "cwd":
        name = "cwtd"
    if e["vex"]:
        name = "v" + name
    if e["by_cl"]:
        pass
    ops.reverse()
    return name, ops, e["lock"]


def att_parse(lines):
    """llvm-mc text -> (mnemonic, operands, lock) or None"""
    if lines is None or not lines or "<invalid>" in lines:
        return None
    lock = False
    ls = list(lines)
    while ls and ls[0] in ("lock", "rep", "repne"):
        if ls[0] == "lock":
            lock = True
        else:
            return ("<" + ls[0] + ">", [], lock)
        ls = ls[1:]
    if len(ls) != 1:
        return ("<%d instructions>" % len(ls), [], lock)
    parts = ls[0].split(" ", 1)
    name = parts[0]
    ops = []
    if len(parts) > 1:
        depth, cur, toks = 0, "", []
        for ch in parts[1]:
            if ch == "(":
                depth += 1
            elif ch == ")":
                depth -= 1
            if ch == "," and depth == 0:
                toks.append(cur.strip())
                cur = ""
            else:
                cur += ch
        if cur.strip():
            toks.append(cur.strip())
        for t in toks:
            ind = t.startswith("*")
            if ind:
                t = t[1:]
            if t.startswith("$"):
                ops.append(("imm", int(t[1:], 0)))
            elif t.startswith("%"):
                ops.append(("ind" if ind else "reg", t[1:]))
            elif "(" in t:
                m = re.fullmatch(r"(-?\w+)?\((%\w+)?(?:,\s*(%\w+))?(?:,\s*(\d))?\)", t)
                if not m:
                    ops.append(("?", t))
                    continue
                disp = int(m.group(1), 0) if m.group(1) else 0
                base = m.group(2)[1:] if m.group(2) else None
                index = m.group(3)[1:] if m.group(3) else None
                scale = int(m.group(4)) if m.group(4) else 1
                ops.append(("indmem" if ind else "mem", disp, base, index, scale if index else 1))
            else:
                try:
                    ops.append(("rel", int(t, 0)))
                except ValueError:
                    ops.append(("?", t))
    return name, ops, lock


def att_agree(exp, rel, lines):
    """Does llvm-mc's reading of the bytes agree with the expected instruction?  -> (bool, expected text)"""
    want = att_expected(exp, rel)
    got = att_parse(lines)
    text = "%s%s %s" % ("lock " if want[2] else "", want[0], ", ".join(_fmt(o) for o in want[1]))
    if got is None:
        return False, text
    gname, gops, glock = got
    wname, wops, wlock = want
    if gname == "movabsq":
        gname = "movq"
    # register forms of cvtsi2s*/cvtts*2si may or may not carry the l/q suffix
    for stem in ("cvtsi2sd", "cvtsi2ss", "cvttsd2si", "cvttss2si"):
        for pre in ("", "v"):
            if gname in (pre + stem + "l", pre + stem + "q"):
                gname = pre + stem
    if gname != wname or glock != wlock:
        return False, text
    # shift by one: llvm prints the one-operand form
    if len(gops) + 1 == len(wops) and wops and wops[0][0] == "imm" and wops[0][1] == 1:
        wops = wops[1:]
    if len(gops) != len(wops):
        return False, text
    for g, w in zip(gops, wops):
        if w[0] == "imm":
            if g[0] != "imm" or g[1] % (1 << w[2]) != w[1]:
                return False, text
        elif w[0] == "rel":
            if g[0] != "rel" or g[1] != w[1]:
                return False, text
        elif tuple(g) != tuple(w):
            return False, text
    return True, text


def _fmt(o):
    if o[0] == "reg":
        return "%" + o[1]
    if o[0] == "ind":
        return "*%" + o[1]
    if o[0] == "imm":
        return "$%d" % o[1]
    if o[0] == "rel":
        return str(o[1])
    if o[0] in ("mem", "indmem"):
        s = "%d(" % o[1] + ("%" + o[2] if o[2] else "")
        if o[3]:
            s += ",%" + o[3] + ",%d" % o[4]
        return ("*" if o[0] == "indmem" else "") + s + ")"
    return str(o)


def exp_for_llvm(rec):
    """The expected instruction as llvm-mc should read it: the accepted alternative if that is
    what was emitted; for label units the displacement is whatever reaches the (checked) target."""
    e = rec["expected"]
    d = rec.get("decoded")
    if rec.get("alt") is not None and d is not None and d["opsize"] != e["opsize"]:
        e = rec["alt"]
    e = json.loads(json.dumps(e))
    if rec.get("target") is not None and d is not None:
        e["mem"]["disp"] = d["mem"]["disp"]
    return e, (d["rel"] if d is not None else 0)


def insn_bytes(rec):
    at, n = rec["at"], rec["insn_len"]
    if n == 0:
        n = min(15, len(rec["bytes"]) // 2 - at - rec["tail"])
    return rec["bytes"][2 * at:2 * (at + max(n, 1))]


# ------------------------------------------------------------------------------------------
# oracle validation: fixed boundary tuples, native run, llvm-mc must read what the spec says

REGV = [0, 4, 5, 7, 8, 12, 13, 15, 1, 3, 9]
I32V = [0, 1, -1, 127, 128, -128, -129, 0x7fffffff, -0x80000000, 0x1234]
I64V = [0, 1, -1, 127, 128, -128, -129, 255, 256, 0x7fffffff, -0x80000000, 0x80000000, 0xffffffff, 0x100000000,
        0x123456789abcdef0, -0x8000000000000000, 0x7fffffffffffffff]


def boundary_tuples(unit, avx, count, seed, nconds):
    draws = ([{"name": "avx_i", "type": "u8"}] if avx == "any" else []) + unit["draws"]
    out = []
    for t in range(count):
        vals = []
        for k, d in enumerate(draws):
            n = d["name"]
            if n == "avx_i":
                vals.append((t + seed) % 2)
            elif n.endswith("_i") and d["type"] == "u8":
                # enum selector (Condition / ScaleFactor): the generator assumes < number of variants
                lim = 4 if n.endswith("factor_i") else nconds
                vals.append((t * 5 + k + seed) % lim)
            elif n == "n":
                pads = [0, 1, 2, 5, 100, 121, 122, 123, 124, 125, 126, 127, 128, 129, 130, 140]
                vals.append(min(pads[(t * 3 + seed) % len(pads)], unit["pad"] or 0))
            elif d["type"] == "u8":
                if n == "mode":
                    vals.append([0, 1, 2, 3, 4, 8, 12, 255][(t + k + seed) % 8])
                else:
                    vals.append(REGV[(t * (k + 2) + k + seed) % len(REGV)])
            elif d["type"] == "i32":
                vals.append(I32V[(t * (k + 1) + seed) % len(I32V)])
            else:
                vals.append(I64V[(t * (k + 3) + k + seed) % len(I64V)])
        out.append(vals)
    return out


def oracle_validation(manifest, binary, per_unit=10):
    seed = common.seed()
    nconds = max(1, len(manifest["condition_variants"]))
    reqs, meta = [], []
    for u in manifest["units"]:
        for vals in boundary_tuples(u, u["avx"], per_unit, seed, nconds):
            reqs.append(u["name"] + " " + " ".join(str(v) for v in vals))
            meta.append((u, vals))
    recs = native_batch(binary, reqs)
    work = [(m, r) for m, r in zip(meta, recs) if r["status"] == "emitted" and not r["mismatch"]]
    stats = {"tuples": len(reqs), "emitted": sum(1 for r in recs if r["status"] == "emitted"),
             "outside_assumed_range": sum(1 for r in recs if r["status"] == "assumption_violated"),
             "refused": sum(1 for r in recs if r["status"] == "refused"),
             "decoder_mismatch_left_to_kani": sum(1 for r in recs if r["status"] == "emitted" and r["mismatch"]),
             "compared_with_llvm_mc": 0, "disagreements": []}

    def one(item):
        (u, vals), r = item
        lines = llvm_disasm(insn_bytes(r))
        e, rel = exp_for_llvm(r)
        ok, want = att_agree(e, rel, lines)
        return u["name"], vals, r["bytes"], lines, want, ok

    with concurrent.futures.ThreadPoolExecutor(max_workers=min(8, jobs())) as ex:
        for name, vals, hexb, lines, want, ok in ex.map(one, work):
            stats["compared_with_llvm_mc"] += 1
            if not ok:
                stats["disagreements"].append({"unit": name, "values": vals, "bytes": hexb, "llvm_mc": lines, "spec_says": want})
    return stats


# ------------------------------------------------------------------------------------------

def unit_types(manifest, group, unit):
    types = ["u8"]  # selector
    if group["avx"] == "any":
        types.append("u8")
    return types + [d["type"] for d in unit["draws"]]


def describe(rec, lines):
    d = rec.get("decoded")
    return "bytes %s; reference decoder: %s; llvm-mc: %s" % (
        insn_bytes(rec), ("%s/%d %s" % (d["mn"], d["opsize"], ",".join(rec["mismatch"]))) if d else "undecodable",
        " | ".join(lines or ["n/a"]))


def confirm_native(binary, unit, vals):
    """Replay one operand tuple natively.  -> (reproduced, record, llvm lines, llvm_confirms, expected text)"""
    rec = native_batch(binary, [unit + " " + " ".join(str(v) for v in vals)])[0]
    if rec["status"] != "emitted" or not rec["mismatch"]:
        return False, rec, None, False, ""
    lines = llvm_disasm(insn_bytes(rec))
    e, rel = exp_for_llvm(rec)
    if rec.get("target") is not None and "target" in rec["mismatch"]:
        # llvm-mc cannot know where the label is: the target computation is ours; the second
        # opinion is on the displacement value, shown in the report
        d = rec["decoded"]
        disp = d["rel"] if d["o1"]["kind"] == 4 else d["mem"]["disp"]
        agree, want = False, "%s with the displacement that reaches the label at position %s (emitted at offset %d, length %d, displacement %d reaches position %d)" % (
            att_agree(e, rel, lines)[1].split(" ")[0], rec["target"], rec["at"], d["len"], disp, rec["at"] + d["len"] + disp)
    else:
        agree, want = att_agree(e, rel, lines)
    only_legal = rec["mismatch"] == ["legal"]
    # llvm-mc confirms when it, too, does not read the expected instruction (or, for an
    # illegal operand that was accepted, when there is nothing for it to contradict)
    return True, rec, lines, (not agree) or only_legal, want


def main(tier):
    t0 = time.time()
    common.ensure_dirs()
    os.makedirs(LOGS, exist_ok=True)
    gen = load_gen()
    rep = common.Reporter(PID)
    with common.Lock("c07"):
        manifest = gen.generate(tier, CRATE)
        units = {u["name"]: u for u in manifest["units"]}
        groups = manifest["groups"]
        only = os.environ.get("C07_ONLY")       # development aid (regex on group harness names); NOT the registered command
        if only:
            groups = [g for g in groups if re.search(only, g["harness"])]
            keep = {u for g in groups for u in g["units"]}
            units = {k: v for k, v in units.items() if k in keep}
            manifest["restricted_to"] = "C07_ONLY=%s (development filter, not the registered command)" % only
            common.log("[C07] restricted by C07_ONLY to %d group harnesses" % len(groups))
        if not groups:
            raise common.Inconclusive("no harness could be generated (spec/x64.toml does not match x64.rs at all)")
        common.log("[C07] %d units in %d group harnesses, %d methods, %d unspecified" % (
            len(units), len(groups), len(manifest["functions_encoded"]), len(manifest["unspecified"])))
        # stale goto binaries of earlier source revisions accumulate under the target dir
        if _dir_size(TARGET) > 3 << 30:
            shutil.rmtree(TARGET, ignore_errors=True)
        binary = native_build(CRATE)
        os.makedirs(CACHE, exist_ok=True)
        # opt-in only: a registered run decides every harness afresh from the working tree
        use_cache = os.environ.get("C07_CACHE") == "1"
        base = content_hash(CRATE, manifest["asm_src"])
        cached = {}
        if use_cache:
            for g in groups:
                cp = cache_path(base, g["harness"])
                if os.path.exists(cp):
                    cached[g["name"]] = cp
        build_s = 0.0
        if len(cached) < len(groups):
            build_s = kani_build(CRATE, TARGET)
        common.log("[C07] kani build %.1fs; %d of %d harness results reused (identical content hash %s)" % (
            build_s, len(cached), len(groups), base[:12]))

        cost = {"branch": 0, "rl": 1, "mem": 2, "plain": 3}
        order = sorted(groups, key=lambda g: (cost.get(g["cat"], 9), -len(g["units"])))
        results = {}
        j = min(jobs(), len(order))

        def work(g):
            log = os.path.join(LOGS, g["harness"] + ".log")
            if g["name"] in cached:
                shutil.copyfile(cached[g["name"]], log)
                r = parse_log(open(log, errors="replace").read())
                m = re.search(r"^#C07 wall_s=([\d.]+)", open(log, errors="replace").read(), re.M)
                r["rc"], r["wall_s"], r["cached"] = "cached", float(m.group(1)) if m else 0.0, True
                return g, r
            rc, wall = kani_run(CRATE, TARGET, g["harness"], log)
            r = parse_log(open(log, errors="replace").read())
            r["rc"], r["wall_s"], r["cached"] = rc, round(wall, 1), False
            if use_cache and rc != "timeout" and conclusive(r):
                with open(log, "a") as f:
                    f.write("\n#C07 wall_s=%.1f\n" % wall)
                shutil.copyfile(log, cache_path(base, g["harness"]))
            return g, r

        with concurrent.futures.ThreadPoolExecutor(max_workers=j) as ex:
            for g, r in ex.map(work, order):
                results[g["name"]] = r
                common.log("[C07] %-40s %6.1fs rc=%s %d/%d units ok" % (
                    g["harness"], r["wall_s"], r["rc"], sum(1 for u in g["units"] if r["units"].get(u) == "SUCCESS"), len(g["units"])))

        # ---- classify ------------------------------------------------------------------
        inconclusive = []
        failing = []          # (group, unit name)
        discharged = 0
        vacuous = []
        refusal_only_ok = []
        refusals = {}
        for g in groups:
            r = results[g["name"]]
            if r["rc"] == "timeout":
                inconclusive.append("%s: timeout after %ds" % (g["harness"], HARNESS_TIMEOUT))
                continue
            if r["error"] or r["verdict"] is None:
                inconclusive.append("%s: %s" % (g["harness"], r["error"] or "no verdict (see %s)" % os.path.join(LOGS, g["harness"] + ".log")))
                continue
            if r["unwind_fail"]:
                inconclusive.append("%s: unwinding assertion failed at %s" % (g["harness"], r["unwind_fail"][0]))
                continue
            if r["model_fail"]:
                inconclusive.append("%s: %s" % (g["harness"], r["model_fail"][0]))
                continue
            if r["other_fail"]:
                inconclusive.append("%s: failed check outside dora-asm: %s @ %s" % (
                    g["harness"], r["other_fail"][0]["what"], r["other_fail"][0]["where"]))
                continue
            for rf in r["refusals"]:
                refusals.setdefault(g["name"], []).append(rf)
            for un in g["units"]:
                st = r["units"].get(un)
                wit = r["witness"].get(un)
                if st == "SUCCESS":
                    if wit == "SATISFIED":
                        discharged += 1
                    elif units[un].get("refusal_only") and wit == "UNSATISFIABLE":
                        # e.g. jmp_near over >= 128 bytes: refusing every tuple is what is required
                        discharged += 1
                        refusal_only_ok.append(un)
                    else:
                        vacuous.append(un)
                elif st == "FAILURE":
                    failing.append((g, un))
                else:
                    inconclusive.append("%s: check of unit %s has status %s" % (g["harness"], un, st))
        for un in vacuous:
            inconclusive.append("unit %s is vacuous: no operand tuple is accepted and decodes as specified (witness cover unsatisfiable)" % un)

        # ---- counterexamples: rerun failing units alone with concrete playback ---------------
        violations = 0
        cex_info = []
        if failing:
            common.log("[C07] %d failing unit(s): %s" % (len(failing), ", ".join(u for _, u in failing)))
            os.environ["C07_ONLY_UNITS"] = ",".join(un for _, un in failing)
            try:
                cman = gen.generate(tier, CEX_CRATE)
            finally:
                del os.environ["C07_ONLY_UNITS"]
            cgroups = {g["units"][0]: g for g in cman["groups"]}
            cex_cached = {un: cache_path(base, un, "cex") for _, un in failing}
            cex_cached = {un: cp for un, cp in cex_cached.items() if use_cache and os.path.exists(cp)}
            if len(cex_cached) < len(failing):
                kani_build(CEX_CRATE, CEX_TARGET)

            def cex(item):
                g, un = item
                cg = cgroups[un]
                log = os.path.join(LOGS, "cex_" + cg["harness"] + ".log")
                if un in cex_cached:
                    shutil.copyfile(cex_cached[un], log)
                    return un, cg, "cached", open(log, errors="replace").read()
                rc, wall = kani_run(CEX_CRATE, CEX_TARGET, cg["harness"], log, playback=True)
                text = open(log, errors="replace").read()
                if use_cache and rc != "timeout" and parse_playback(text).get("C07:m:" + un) is not None:
                    shutil.copyfile(log, cache_path(base, un, "cex"))
                return un, cg, rc, text

            with concurrent.futures.ThreadPoolExecutor(max_workers=max(1, min(j // 2, len(failing)))) as ex:
                for un, cg, rc, text in ex.map(cex, failing):
                    u = units[un]
                    pb = parse_playback(text)
                    raw = pb.get("C07:m:" + un)
                    key = "%s/%s" % (u["method"], u["variant"])
                    if rc == "timeout" or raw is None:
                        inconclusive.append("unit %s fails under Kani but no counterexample could be extracted (rc=%s)" % (un, rc))
                        continue
                    vals = decode_vals(raw, unit_types(cman, cg, u))[1:]  # drop the selector
                    ok, rec, lines, llvm_ok, want = confirm_native(binary, un, vals)
                    names = (["has_avx2"] if cg["avx"] == "any" else []) + [d["name"] for d in u["draws"]]
                    operands = dict(zip(names, vals))
                    if not ok:
                        inconclusive.append("unit %s: Kani counterexample %s does not reproduce natively (%s)" % (un, operands, rec.get("status")))
                        continue
                    if not llvm_ok:
                        inconclusive.append("unit %s: reference decoder rejects %s but llvm-mc reads the expected '%s' -- decoder/spec suspect" % (
                            un, insn_bytes(rec), want))
                        continue
                    what = "%s(%s) is asked to emit '%s' but: %s" % (
                        u["method"], ", ".join("%s=%s" % kv for kv in operands.items()), want, describe(rec, lines))
                    cex_info.append({"unit": un, "operands": operands, "bytes": insn_bytes(rec), "llvm_mc": lines, "expected": want,
                                     "mismatch": rec["mismatch"]})
                    if rep.violation(key, what, {"unit": un, "values": vals, "operands": operands, "tier": tier,
                                                 "bytes": rec["bytes"], "expected": want, "llvm_mc": lines,
                                                 "mismatch": rec["mismatch"], "asm_src": manifest["asm_src"]}):
                        violations += 1

        # ---- oracle validation (thorough): llvm-mc reads what the spec says --------------------
        oracle = None
        if tier == "thorough" or os.environ.get("C07_ORACLE") == "1":
            oracle = oracle_validation(manifest, binary)
            common.log("[C07] oracle validation: %d tuples, %d compared with llvm-mc, %d disagreements" % (
                oracle["tuples"], oracle["compared_with_llvm_mc"], len(oracle["disagreements"])))
            if oracle["disagreements"]:
                d = oracle["disagreements"][0]
                inconclusive.append("oracle validation: spec/decoder and llvm-mc disagree, e.g. %s %s: llvm-mc %s vs spec '%s'" % (
                    d["unit"], d["bytes"], d["llvm_mc"], d["spec_says"]))

        # ---- evidence ---------------------------------------------------------------------------
        wall = time.time() - t0
        times = sorted((r["wall_s"] for r in results.values()))
        samples = []
        for g in groups[:3] + groups[-2:]:
            r = results[g["name"]]
            samples.append({"harness": g["harness"], "units": g["units"][:4], "verdict": r["verdict"], "checks": r["checks"],
                            "witnesses": {k: v for k, v in list(r["witness"].items())[:4]}, "wall_s": r["wall_s"]})
        refusal_summary = {}
        for gname, lst in refusals.items():
            for rf in lst:
                refusal_summary.setdefault(rf["function"] + ": " + rf["what"], 0)
                refusal_summary[rf["function"] + ": " + rf["what"]] += 1
        # an obligation that fails exactly as an *open known finding* lists is reported as KNOWN-FINDING and is not
        # part of what this run claims proven: it is excluded from `obligations` and named separately
        known_units = sorted({u for _, u in failing}) if (failing and not rep.new) else []
        coverage = {
            "obligations": len(units) - len(known_units),
            "obligations_excluded_as_open_known_findings": known_units,
            "discharged": discharged,
            "checker_cmd": "cargo kani -Z stubbing --target-dir .work/kani_x64_target --harness harnesses::<group> --exact  (crate .work/kani_x64, %d group harnesses, CBMC 6.11 / CaDiCaL)" % len(groups),
            "trusted_base": [
                "reference decoder engines/kani_asm/x64/src/decoder.rs and spec table spec/x64.toml (calibrated against llvm-mc 14 in the thorough tier)",
                "Kani 0.68 / CBMC 6.11 / CaDiCaL; rustc MIR -> goto translation",
                "checked no-growth model of std Vec::new/push/extend_from_slice and <[u8]>::copy_from_slice (capacity 192, exceeding it is an asserted check): std's reallocation is not exercised",
                "llvm-mc 14 as second opinion on counterexamples",
            ],
            "functions_encoded": manifest["functions_encoded"],
            "unspecified": manifest["unspecified"],
            "spec_entries_without_method": manifest["spec_entries_without_method"],
            "restricted_to": manifest.get("restricted_to") or None,
            "harnesses": len(groups),
            "harness_results_reused_from_content_cache": sum(1 for r in results.values() if r.get("cached")),
            "failing_units": [u for _, u in failing],
            "not_discharged": [{"unit": u, "reason": "fails: see counterexamples / known_findings_hit"} for _, u in failing]
                              + [{"unit": u, "reason": "vacuous"} for u in vacuous],
            "refusal_only_units_all_refused": refusal_only_ok,
            "counterexamples": cex_info,
            "known_findings_hit": [k for k, _ in rep.known_hit],
            "inconclusive": inconclusive,
            "refusals_seen": refusal_summary,
            "bounds": manifest["bounds"],
            "queries": sum(r["checks"] for r in results.values()),
            "solver_time_s": {"sum_decision_procedure": round(sum(r["solver_s"] for r in results.values()), 1),
                              "sum_symex": round(sum(r["symex_s"] or 0 for r in results.values()), 1),
                              "harness_wall_min": times[0], "harness_wall_median": times[len(times) // 2], "harness_wall_max": times[-1],
                              "kani_build": round(build_s, 1), "jobs": j},
            "vacuity_witnesses": {"satisfied": sum(1 for r in results.values() for v in r["witness"].values() if v == "SATISFIED"),
                                  "total": sum(len(r["witness"]) for r in results.values())},
            "samples": samples,
            "oracle_validation": oracle,
            "address_constructors": manifest["address_constructors"],
            "condition_variants": manifest["condition_variants"],
            "outside_the_claim": [
                "the Dora-language assembler pkgs/boots/assembler/x64.dora: not covered",
                "instruction selection in the macro assemblers, trampolines",
                "branch distances beyond %d filler bytes" % manifest["bounds"]["branch_pad_max"],
                "register operands outside 0..15 (XmmRegister::new does not check)",
                "refusals (panics) of legal operands are recorded in refusals_seen, not reported as violations",
            ],
        }
        if manifest.get("restricted_to"):
            coverage["outside_the_claim"].insert(0, "PARTIAL RUN (C07_ONLY_METHODS): only %s were checked" % manifest["restricted_to"])
        assumptions = [
            "the spec table /verif/spec/x64.toml states what each method is asked to emit (naming convention + Intel SDM)",
            "an assertion failure inside dora-asm is a refusal, which the property allows",
            "has_avx2 is fixed per method as the spec requires (symbolic where the spec leaves it open)",
            "debug build of dora-asm (debug_assert and overflow checks active)",
        ]
        common.write_evidence(PID, tier, "proof", coverage, assumptions, wall, violations)
        if inconclusive:
            # a violation that was reproduced is still reported through the exit code
            if rep.exit_code():
                common.log("[C07] additionally inconclusive: " + "; ".join(inconclusive[:5]))
                return 1
            raise common.Inconclusive("; ".join(inconclusive[:6]) + (" (+%d more)" % (len(inconclusive) - 6) if len(inconclusive) > 6 else ""))
        return rep.exit_code()


def _dir_size(path):
    total = 0
    for dp, _, fs in os.walk(path):
        for f in fs:
            try:
                total += os.path.getsize(os.path.join(dp, f))
            except OSError:
                pass
    return total


def replay(path):
    """Re-run one recorded counterexample against the natively compiled assembler."""
    obj = json.load(open(path))
    r = obj.get("replay", obj)
    gen = load_gen()
    with common.Lock("c07"):
        manifest = gen.generate(r.get("tier", "thorough"), CRATE)
        if r["unit"] not in [u["name"] for u in manifest["units"]]:
            raise common.Inconclusive("unit %s is not generated for the current x64.rs / spec" % r["unit"])
        binary = native_build(CRATE)
        ok, rec, lines, llvm_ok, want = confirm_native(binary, r["unit"], r["values"])
    print("unit %s values %s" % (r["unit"], r["values"]))
    print("status: %s" % rec.get("status"))
    if rec.get("status") == "emitted":
        print("expected: %s" % want if want else "expected: (as specified)")
        print(describe(rec, lines if lines is not None else llvm_disasm(insn_bytes(rec))))
    if ok and llvm_ok:
        print("VIOLATION property=%s replay=%s" % (PID, path))
        return 1
    if ok:
        raise common.Inconclusive("reference decoder reports a mismatch but llvm-mc reads the expected instruction")
    print("does not reproduce: the emitted bytes decode to the requested instruction")
    return 0
