"""Std models needed by the dora-bytecode writer/reader (check C18) that are not in models.py.
Same decorator pattern as models.py, own list: pass `MODELS_BC + M.MODELS` to `Interp`."""
import re

import z3

from ..common import Inconclusive
from .interp import Adt, Cell, Int, Opaque, Panic, Ref, Slice, Tup, UNIT, VecV, get_path, set_path
from .models import NONE, deref, elems_of, some, usize, write_ref

MODELS_BC = []


def model(pat):
    def deco(fn):
        MODELS_BC.append((re.compile(pat), fn))
        return fn
    return deco


def _short_ty(t):
    """`data::BytecodeOpcode` -> `BytecodeOpcode` (the parser names impls by the header text)"""
    t = t.strip()
    if re.fullmatch(r"[\w:]+", t):
        return t.split("::")[-1]
    return t


@model(r"<(.+) as (core::convert::)?Into<(.+)>>::into")
def m_into(it, ctx, callee, args):
    """blanket `impl<T, U: From<T>> Into<U> for T`: delegates to the crate's `<U as From<T>>::from`"""
    m = re.fullmatch(r"<(.+) as (?:core::convert::)?Into<(.+)>>::into", callee.strip())
    src, dst = _short_ty(m.group(1)), _short_ty(m.group(2))
    return it.call(ctx, "<%s as From<%s>>::from" % (dst, src), args)


@model(r"<(.+) as (core::convert::)?TryInto<(.+)>>::try_into")
def m_try_into(it, ctx, callee, args):
    """blanket `impl<T, U: TryFrom<T>> TryInto<U> for T` for crate types (integer pairs are in models.py)"""
    m = re.fullmatch(r"<(.+) as (?:core::convert::)?TryInto<(.+)>>::try_into", callee.strip())
    src, dst = _short_ty(m.group(1)), _short_ty(m.group(2))
    return it.call(ctx, "<%s as TryFrom<%s>>::try_from" % (dst, src), args)


@model(r"(std|core)::mem::replace")
def m_mem_replace(it, ctx, callee, args):
    old = deref(args[0])
    write_ref(args[0], args[1])
    return old


@model(r"(std|core)::mem::take")
def m_mem_take(it, ctx, callee, args):
    old = deref(args[0])
    if isinstance(old, VecV):
        write_ref(args[0], VecV((), old.kind))
        return old
    raise Inconclusive("mem::take of %r" % (old,))


@model(r"<Vec<.*> as IntoIterator>::into_iter")
def m_vec_into_iter(it, ctx, callee, args):
    """by-value iteration: elements are yielded as values"""
    return Tup((Slice(elems_of(args[0])), usize(0)), name="Iter:copied")


@model(r"<(std::vec::IntoIter<.*>|alloc::vec::IntoIter<.*>|std::vec::into_iter::IntoIter<.*>) as Iterator>::next")
def m_vec_iter_next(it, ctx, callee, args):
    st = deref(args[0])
    if not (isinstance(st, Tup) and st.name == "Iter:copied"):
        raise Inconclusive("iterator state %r" % (st,))
    seq, pos = st.fields
    p = pos.conc()
    if p >= len(seq.elems):
        return NONE
    write_ref(args[0], Tup((seq, usize(p + 1)), name=st.name))
    return some(seq.elems[p])


@model(r"<(Vec<.*>|\[.*\]) as (std::ops::|core::ops::)?Index(Mut)?<usize>>::index(_mut)?")
def m_vec_index(it, ctx, callee, args):
    """v[i] / &mut v[i]: a reference INTO the container (so writes through it are seen), bounds-checked"""
    r = args[0]
    el = elems_of(r)
    i = ctx.concretize(args[1], 0, len(el) + 1, "vector index")
    if i >= len(el):
        raise Panic("panic: index out of bounds: the len is %d but the index is %d" % (len(el), i))
    if isinstance(r, Ref):
        # follow nested references to the cell that owns the sequence
        while True:
            v = get_path(r.cell.v, r.path)
            if isinstance(v, Ref):
                r = v
                continue
            break
        if isinstance(v, VecV):
            return Ref(r.cell, r.path + (i,))
    return Ref(Cell(el[i], "elem"))


@model(r"core::slice::<impl \[.*\]>::last|Vec::last")
def m_last_ref(it, ctx, callee, args):
    el = elems_of(args[0])
    if not el:
        return NONE
    return some(Ref(Cell(el[-1], "elem")))


@model(r"Option::is_some_and|Option::is_none_or")
def m_is_some_and(it, ctx, callee, args):
    o, f = args
    if o.variant == "None":
        return z3.BoolVal(callee.strip().endswith("is_none_or"))
    return it.call_value(ctx, f, [o.fields[0]])


@model(r"<Vec<.*> as (std::ops::|core::ops::)?DerefMut>::deref_mut|Vec::as_mut_slice")
def m_vec_deref_mut(it, ctx, callee, args):
    return args[0]


def _find_seq(v):
    """first sequence value below a MaybeUninit/ManuallyDrop/... wrapper (field layout differs between toolchains)"""
    if isinstance(v, (VecV, Slice)):
        return v
    if isinstance(v, (Tup, Adt)):
        for f in v.fields:
            r = _find_seq(f)
            if r is not None:
                return r
    return None


@model(r"Box::new_uninit")
def m_box_new_uninit(it, ctx, callee, args):
    """`vec![a, b, c]` = Box::<[T; N]>::new_uninit() + a store through the raw pointer `(box.0: Unique).0: NonNull`
    + box_assume_init_into_vec_unsafe.  The box is a fresh cell; the pointer is a Ref to it."""
    return Tup((Tup((Ref(Cell(None, "box")),), name="Unique"),), name="Box")


@model(r"(alloc|std)::boxed::box_assume_init_into_vec_unsafe")
def m_box_into_vec(it, ctx, callee, args):
    b = args[0]
    try:
        ptr = b.fields[0].fields[0]
        v = _find_seq(ptr.cell.v)
    except (AttributeError, IndexError):
        v = None
    if v is None:
        raise Inconclusive("box_assume_init_into_vec_unsafe of %r" % (b,))
    return VecV(v.elems, "vec")


# ------------------------------------------------------------------------------------------
# the consumer of the reader: a recording BytecodeVisitor (environment of `reader::read`)

def new_visitor():
    """value for the `&mut T` parameter of `reader::read::<T>`: records every callback"""
    return Ref(Cell(Opaque("visitor", []), "visitor"))


@model(r"<T as (reader::)?BytecodeVisitor>::visit_\w+")
def m_visitor(it, ctx, callee, args):
    v = deref(args[0])
    if not (isinstance(v, Opaque) and v.what == "visitor"):
        raise Inconclusive("visitor callback on %r" % (v,))
    name = re.search(r"::(visit_\w+)$", callee.strip()).group(1)
    v.payload.append((name, list(args[1:])))
    return UNIT


# ------------------------------------------------------------------------------------------
# iterator adaptors used by `resolve_jump_tables`

@model(r"<.* as Iterator>::map")
def m_iter_map(it, ctx, callee, args):
    return Tup((args[0], args[1]), name="Iter:map")


@model(r"<Map<.*> as Iterator>::collect|<std::iter::Map<.*> as Iterator>::collect")
def m_map_collect(it, ctx, callee, args):
    st = args[0]
    if not (isinstance(st, Tup) and st.name == "Iter:map"):
        raise Inconclusive("collect of %r" % (st,))
    inner, f = st.fields
    if not (isinstance(inner, Tup) and inner.name and inner.name.startswith("Iter:")):
        raise Inconclusive("map over %r" % (inner,))
    seq, pos = inner.fields
    out = []
    fcell = Cell(f, "closure")
    for e in seq.elems[pos.conc():]:
        if inner.name == "Iter:ref":
            e = Ref(Cell(e, "iter-elem"))
        # FnMut closure: `&mut {closure}` receiver
        out.append(it.call_value(ctx, fcell.v, [e]))
    return VecV(out, "vec")


# ------------------------------------------------------------------------------------------
# `for _ in 0..count`

@model(r"<(std::ops::|core::ops::)?Range<\w+> as IntoIterator>::into_iter")
def m_range_into_iter(it, ctx, callee, args):
    return args[0]


@model(r"<(std::ops::|core::ops::)?Range<\w+> as Iterator>::next")
def m_range_next(it, ctx, callee, args):
    r = deref(args[0])
    if not (isinstance(r, Tup) and len(r.fields) == 2):
        raise Inconclusive("range iterator state %r" % (r,))
    lo, hi = r.fields
    if ctx.branch(z3.ULT(lo.t, hi.t)):
        write_ref(args[0], Tup((Int(lo.t + 1, lo.ty), hi), name=r.name, fnames=r.fnames))
        return some(lo)
    return NONE
