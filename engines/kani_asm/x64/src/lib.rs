//! C07 harness crate (template).  `harnesses.rs` is generated on every run by
//! /verif/engines/kani_asm/gen_x64.py from the `pub fn` signatures of the dora-asm working
//! tree joined with /verif/spec/x64.toml.
//!
//! One generic *body* per harness builds the operands from a value source, calls the real
//! assembler method, and returns the emitted bytes together with the instruction the spec
//! expects.  Under Kani the value source is `kani::any()` and `verdict` asserts field by
//! field; natively (`c07-replay`) the value source is a list of concrete numbers and the
//! same comparison is printed as JSON.  What is replayed is therefore exactly what was
//! verified.

pub mod decoder;
#[allow(unused_variables, unused_mut, unused_imports, unused_assignments, unused_parens, non_snake_case, clippy::all)]
pub mod harnesses;

use decoder::{Insn, K_REL};

/// where operand values come from
pub trait Src {
    fn u8(&mut self) -> u8;
    fn i32(&mut self) -> i32;
    fn i64(&mut self) -> i64;
    /// Kani: `kani::assume(c)`, returns true.  Native: returns c (caller bails out on false).
    fn assume(&mut self, c: bool) -> bool;
}

#[cfg(kani)]
pub struct KaniSrc;

#[cfg(kani)]
impl Src for KaniSrc {
    fn u8(&mut self) -> u8 {
        kani::any()
    }
    fn i32(&mut self) -> i32 {
        kani::any()
    }
    fn i64(&mut self) -> i64 {
        kani::any()
    }
    fn assume(&mut self, c: bool) -> bool {
        kani::assume(c);
        true
    }
}

pub struct ListSrc {
    pub vals: Vec<i64>,
    pub pos: usize,
    pub underflow: bool,
}

impl ListSrc {
    pub fn new(vals: Vec<i64>) -> ListSrc {
        ListSrc { vals, pos: 0, underflow: false }
    }
    fn next(&mut self) -> i64 {
        if self.pos < self.vals.len() {
            let v = self.vals[self.pos];
            self.pos += 1;
            v
        } else {
            self.underflow = true;
            0
        }
    }
}

impl Src for ListSrc {
    fn u8(&mut self) -> u8 {
        self.next() as u8
    }
    fn i32(&mut self) -> i32 {
        self.next() as i32
    }
    fn i64(&mut self) -> i64 {
        self.next()
    }
    fn assume(&mut self, c: bool) -> bool {
        c
    }
}

pub struct Outcome {
    /// everything the assembler emitted (`finalize(1).code()`)
    pub code: Vec<u8>,
    /// offset of the instruction under test
    pub at: usize,
    /// bytes that legitimately follow the instruction (filler of the label harnesses)
    pub tail: usize,
    pub exp: Insn,
    /// a second accepted decoding (commuted operands of a commutative instruction, or an
    /// architecturally indistinguishable form named in the spec)
    pub alt: Option<Insn>,
    /// the spec's legality predicate on the operands (H_any asserts it after the call)
    pub legal: bool,
    /// label harnesses: absolute position the label was bound to; the decoded branch /
    /// RIP-relative target must equal it
    pub target: Option<i64>,
}

pub const FIELDS: [&str; 16] = [
    "decodes", "mnemonic", "opsize", "cc", "o1", "o2", "o3", "o4", "mem", "imm", "target", "prefixes", "vex", "by_cl",
    "length", "legal",
];

/// The comparison, field by field, in the order of `FIELDS` (true = agrees).
pub fn compare(o: &Outcome, got: &Option<Insn>) -> [bool; 16] {
    let mut r = [true; 16];
    r[15] = o.legal;
    match got {
        None => {
            r[0] = false;
        }
        Some(g) => {
            let mut e = o.exp;
            let mut alt = o.alt;
            if let Some(t) = o.target {
                let d: i64 = if g.o1.kind == K_REL { g.rel } else { g.mem.disp as i64 };
                r[10] = (o.at as i64) + (g.len as i64) + d == t;
                // the displacement itself is whatever reaches the target
                e.rel = g.rel;
                e.mem.disp = g.mem.disp;
                alt = None;
            } else {
                r[10] = g.rel == e.rel;
            }
            let alt_ok = match alt {
                Some(a) => g.same(&a),
                None => false,
            };
            if !alt_ok {
                r[1] = g.mn == e.mn;
                r[2] = g.opsize == e.opsize;
                r[3] = g.cc == e.cc;
                r[4] = g.o1.same(&e.o1);
                r[5] = g.o2.same(&e.o2);
                r[6] = g.o3.same(&e.o3);
                r[7] = g.o4.same(&e.o4);
                r[8] = g.mem.same(&e.mem);
                r[9] = g.imm == e.imm;
                r[11] = g.lock == e.lock && g.rep == e.rep && g.repne == e.repne && g.p66 == e.p66;
                r[12] = g.vex == e.vex;
                r[13] = g.by_cl == e.by_cl;
            } else {
                r[10] = true;
            }
            r[14] = o.at + g.len + o.tail == o.code.len();
        }
    }
    r
}

/// Post-assertions of every harness.  One named check per field so that the per-check
/// statuses of CBMC tell which part of the instruction is wrong.
#[cfg(kani)]
pub fn verdict(o: &Outcome) {
    let got = decoder::decode(&o.code, o.at);
    kani::cover!(true, "C07:reached");
    kani::cover!(got.is_some() && o.legal, "C07:reached_decodable_legal");
    let r = compare(o, &got);
    assert!(r[0], "C07:decodes");
    assert!(r[1], "C07:mnemonic");
    assert!(r[2], "C07:opsize");
    assert!(r[3], "C07:cc");
    assert!(r[4], "C07:o1");
    assert!(r[5], "C07:o2");
    assert!(r[6], "C07:o3");
    assert!(r[7], "C07:o4");
    assert!(r[8], "C07:mem");
    assert!(r[9], "C07:imm");
    assert!(r[10], "C07:target");
    assert!(r[11], "C07:prefixes");
    assert!(r[12], "C07:vex");
    assert!(r[13], "C07:by_cl");
    assert!(r[14], "C07:length");
    assert!(r[15], "C07:legal");
}
