"""C02 - both code generators agree; every run ends in a defined way (kernels, X64 front end).

Per generated kernel the machine code of the baseline (cannon) and of the optimizing (boots)
generator is lifted; asserted for all inputs:
 (i)  equivalence without oracle: same terminal kind, same trap kind, same returned value, same
      final caller-visible memory (NewArray kernels: same trap / same allocation request and
      length word);
 (ii) defined termination: no path reaches a hazard (#DE from idiv, int3/ud2, load/store outside
      every valid object, jump-table overrun, mis-sized allocation).
Negated assertions are decided by z3 (cross-checked by cvc5); each witness is replayed with the
two real executables and only reproduced differences / crashes are reported."""
import os
import time

import z3

from .. import common
from ..common import Inconclusive, Reporter, log
from ..x64 import build, kern, models, par, sem, smt, tv
from ..x64.sem import BV, Unsupported
from . import c13

PID = "C02"
_PROGS = {}
_CTX = {}


def kernel_set(tier):
    ks = kern.single_operator_family()
    ntree = 20 if tier == "quick" else 220
    trees = kern.tree_family(common.seed() * 7919 + 17, ntree)
    for i, t in enumerate(trees):
        t.name = "t%d" % i
    return ks + trees


def tree_label(k):
    if k.family == "tree":
        return "tree/" + "+".join(sorted(set(k.ops())))
    return k.label


def differ(Lc, pc, Lb, pb):
    """condition under which the outcomes of two paths differ (None = never)"""
    kc, kb = pc.term.kind, pb.term.kind
    if kc != kb:
        return z3.BoolVal(True)
    if kc == "trap":
        a, b = Lc.trap_kind(pc), Lb.trap_kind(pb)
        if z3.eq(sem.simp(a), sem.simp(b)):
            return None
        return a != b
    if kc == "return":
        alts = []
        va, vb = Lc.value(pc), Lb.value(pb)
        if va is not None and not z3.eq(va, vb):
            alts.append(va != vb)
        if not z3.eq(pc.heap, pb.heap):
            alts.append(pc.heap != pb.heap)
        return z3.Or(*alts) if alts else None
    return None


def analyse_kernel(job):
    _, kidx, tier = job
    k = _CTX["kernels"][kidx]
    traps, layout = _CTX["traps"], _CTX["layout"]
    t0 = time.time()
    res = {"kernel": k.name, "label": tree_label(k), "family": k.family, "source": k.source(), "status": "ok",
           "candidates": [], "queries": [], "validation": [], "notes": [], "paths": {}, "mnemonics": []}
    verd = smt.Verdicts("c02/%s" % k.name, tier)
    verd.cvc5_cap_s = 20 if tier == "quick" else 120
    try:
        L = {}
        for be in build.BACKENDS:
            try:
                L[be] = tv.Lifted(k, be, _PROGS[be], layout, traps)
            except Unsupported as e:
                raise Unsupported("%s: %s" % (be, e))
            res["paths"][be] = len(L[be].paths)
            res["mnemonics"] = sorted(set(res["mnemonics"]) | L[be].ex.stats["mnemonics"])
        res["explore_queries"] = sum(L[be].ex.stats["queries"] for be in L)
        res["explore_solver_s"] = round(sum(L[be].ex.stats["solver_time_s"] for be in L), 2)
        res["steps"] = sum(L[be].ex.stats["steps"] for be in L)
        ref, _ = L["cannon"].setup.reference()
        side = list(ref.assume)
        base = L["cannon"].assumptions + L["boots"].assumptions + side
        for be in build.BACKENDS:
            for p in L[be].paths:
                if p.term.kind in ("loopcut", "rtcall"):
                    raise Unsupported("%s: path ends in %s" % (be, p.term))
        # ---- (ii) hazards
        for be in build.BACKENDS:
            for p in L[be].paths:
                if p.term.kind != "fault":
                    continue
                r, m = verd.check("hazard-%s-%s" % (be, p.term.what), L[be].assumptions + side + [p.pc()])
                res["queries"].append({"kind": "hazard", "backend": be, "what": p.term.what, "result": r})
                if r != "sat":
                    continue
                m2, av, conc = tv.witness_args(L[be], side + [p.pc()])
                cand = {"kind": "hazard", "backend": be, "what": p.term.what, "detail": str(p.term.detail)[:300], "argv": av}
                if av is not None:
                    av[0] = str(kidx)
                    cand["observed"] = {b2: list(tv.observe(_PROGS[b2].run(av, timeout=60), traps)) for b2 in build.BACKENDS}
                res["candidates"].append(cand)
        # ---- (i) equivalence
        alts = []
        npairs = 0
        for pc in L["cannon"].paths:
            if pc.term.kind == "fault":
                continue
            for pb in L["boots"].paths:
                if pb.term.kind == "fault":
                    continue
                d = differ(L["cannon"], pc, L["boots"], pb)
                npairs += 1
                if d is not None:
                    alts.append(z3.And(pc.pc(), pb.pc(), d))
        res["pairs"] = npairs
        if alts:
            r, m = verd.check("equivalence", base + [z3.Or(*alts)])
        else:
            r, m = "unsat", None
            res["notes"].append("all path pairs syntactically equal")
        res["queries"].append({"kind": "equivalence", "result": r, "pairs": npairs, "nontrivial_pairs": len(alts)})
        if r == "sat":
            s = z3.Solver()
            s.set("timeout", 60000)
            s.add(*base)
            s.add(z3.Or(*alts))
            s.add(*kern.array_elem_constraints(k, L["cannon"].setup))
            av = None
            if s.check() == z3.sat:
                m = s.model()
                av, conc = kern.argv_of(k, L["cannon"].setup, m, kidx)
            cand = {"kind": "disagree", "argv": av}
            if av is not None:
                cand["observed"] = {be: list(tv.observe(_PROGS[be].run(av, timeout=60), traps)) for be in build.BACKENDS}
                cand["lifted"] = {}
                for be in build.BACKENDS:
                    for p in L[be].paths:
                        if z3.is_true(m.eval(p.pc(), model_completion=True)):
                            cand["lifted"][be] = list(L[be].describe(p, m))
            res["candidates"].append(cand)
        # ---- vacuity: a common input reaches `return` in both
        vac = None
        ra = [p.pc() for p in L["cannon"].paths if p.term.kind == "return"]
        rb = [p.pc() for p in L["boots"].paths if p.term.kind == "return"]
        if ra and rb:
            rr, mm = verd.check("vacuity-return", base + [z3.Or(*ra), z3.Or(*rb)], cross=False)
            vac = rr == "sat"
        res["vacuity_return_reachable_in_both"] = vac
        res["trap_kinds"] = {be: sorted(set(p.term.trap.as_long() for p in L[be].paths
                                            if p.term.kind == "trap" and z3.is_bv_value(p.term.trap))) for be in L}
        # ---- translator validation
        for be in build.BACKENDS:
            runs, bad = tv.validate_paths(L[be], kidx, traps, side, max_paths=4 if tier == "quick" else 10)
            res["validation"].append({"backend": be, "runs": runs, "mismatches": bad})
            bi = tv.boundary_inputs(k, quick=tier == "quick")
            if bi:
                runs, bad = tv.validate_inputs(L[be], kidx, traps, bi, side)
                res["validation"].append({"backend": be, "runs": runs, "mismatches": bad, "kind": "float boundary values"})
                res["boundary_runs"] = res.get("boundary_runs", 0) + runs
    except Unsupported as e:
        res["status"] = "unsupported"
        res["reason"] = str(e)
    res["verdicts"] = verd.summary()
    res["wall_s"] = round(time.time() - t0, 2)
    return res


# ---------------------------------------------------------------------------------------
# NewArray hostile-length family: C13's per back end assertions + agreement of the two

def analyse_newarray(job):
    _, kidx, tier = job
    k = c13._CTX["kernels"][kidx]
    traps = c13._CTX["traps"]
    t0 = time.time()
    res = {"kernel": "newarray-" + k["name"], "elem": k["elem"], "family": "newarray", "status": "ok", "candidates": [],
           "queries": [], "paths": {}, "mnemonics": [], "validation": []}
    verd = smt.Verdicts("c02/na-%s" % k["name"], tier)
    n = z3.BitVec("n", 64)
    fn = build.mangle("k" + k["name"])
    try:
        P, base = {}, []
        for be in build.BACKENDS:
            env = c13.make_env(n)
            ex = sem.Explorer(c13._PROGS[be], env, sem.Limits(max_visits=2, max_paths=200, deadline_s=240))
            try:
                P[be] = ex.explore(fn)
            except Unsupported as e:
                raise Unsupported("%s: %s" % (be, e))
            res["paths"][be] = len(P[be])
            res["mnemonics"] = sorted(set(res["mnemonics"]) | ex.stats["mnemonics"])
            base = list(env.assumptions)
        res["explore_queries"] = 0
        res["explore_solver_s"] = 0

        def run_both(nv):
            return {be: list(c13.classify_run(build.run_exe(c13._PROGS[be].exe, [kidx, nv], timeout=120), nv, traps))
                    for be in build.BACKENDS}
        # (ii) hazards per back end, length class and allocation kind (C13's assertions)
        for be in build.BACKENDS:
            qs, cands = c13.class_candidates(P[be], n, k["elem"], base, verd, tag="hazard-%s-" % be)
            for q in qs:
                q.update(kind="hazard", backend=be)
            res["queries"] += qs
            for c in cands:
                c.update(kind="hazard", backend=be, observed=run_both(c["n"]))
            res["candidates"] += cands

        # (i) agreement
        def outcome_differs(pa, pb):
            ta, tb = pa.term, pb.term
            rt_a = ta.kind == "trap" and ta.site[0] == "runtime"
            rt_b = tb.kind == "trap" and tb.site[0] == "runtime"
            if rt_a or rt_b:
                # OOM raised inside the runtime depends on the heap state, not on the input: both
                # sides must have *requested* the same thing, which the slow-path events carry
                ea, eb = c13.alloc_events(pa), c13.alloc_events(pb)
                if ea and eb and ea[0][0] == "alloc_slow" and eb[0][0] == "alloc_slow":
                    return ea[0][1] != eb[0][1]
                if rt_a and rt_b:
                    return None
                # one side asks the runtime, the other does something else
                return z3.BoolVal(True)
            if ta.kind in ("fault", "rtcall") or tb.kind in ("fault", "rtcall"):
                return None                      # hazards are handled above
            if (ta.kind == "trap") != (tb.kind == "trap"):
                return z3.BoolVal(True)
            if ta.kind == "trap":
                return ta.trap != tb.trap
            ea, eb = c13.alloc_events(pa), c13.alloc_events(pb)
            if not ea or not eb:
                return z3.BoolVal(bool(ea) != bool(eb))
            if ea[0][0] != eb[0][0]:
                return z3.BoolVal(True)
            sa = ea[0][2] if ea[0][0] == "alloc_fast" else ea[0][1]
            sb = eb[0][2] if eb[0][0] == "alloc_fast" else eb[0][1]
            oa = ea[0][1] if ea[0][0] == "alloc_fast" else ea[0][2]
            ob = eb[0][1] if eb[0][0] == "alloc_fast" else eb[0][2]
            return z3.Or(sa != sb, sem.heap_load(pa.heap, oa + BV(8, 64), 8) != sem.heap_load(pb.heap, ob + BV(8, 64), 8))
        alts = []
        for pa in P["cannon"]:
            for pb in P["boots"]:
                d = outcome_differs(pa, pb)
                if d is not None:
                    alts.append(z3.And(pa.pc(), pb.pc(), d))
        for cls in c13.CLASSES:
            if not alts:
                break
            r, m = verd.check("agree-%s" % cls, base + [c13.class_cond(n, k["elem"], cls), z3.Or(*alts)])
            res["queries"].append({"kind": "equivalence", "class": cls, "result": r})
            if r == "sat":
                nv = sem.model_int(m, n, 64)
                res["candidates"].append({"kind": "disagree", "class": cls, "n": nv, "observed": run_both(nv)})
    except Unsupported as e:
        res["status"] = "unsupported"
        res["reason"] = str(e)
    res["verdicts"] = verd.summary()
    res["wall_s"] = round(time.time() - t0, 2)
    return res


def dispatch(job):
    return analyse_newarray(job) if job[0] == "newarray" else analyse_kernel(job)


# ---------------------------------------------------------------------------------------

def is_crash(obs):
    return obs[0] in ("crash", "hang", "other", "corrupt")


def run_check(tier):
    t0 = time.time()
    common.ensure_dirs()
    import shutil
    shutil.rmtree(os.path.join(common.WORK, "x64", "smt2", "c02"), ignore_errors=True)   # dumps of this run only
    build.toolchain()
    traps = build.trap_kinds()
    layout = build.tld_layout()
    kernels = kernel_set(tier)
    wd = build.workdir("c02")
    src = os.path.join(wd, "c02.dora")
    with open(src, "w") as f:
        f.write(kern.driver_source(kernels))
    _CTX.update(kernels=kernels, traps=traps, layout=layout)
    na_kernels = c13.kernel_list(tier)
    c13.HEADER = c13.array_header()
    c13._CTX.update(kernels=na_kernels, traps=traps, layout=layout, refuse=build.default_max_heap())
    src2 = os.path.join(wd, "c02na.dora")
    with open(src2, "w") as f:
        f.write(c13.source(na_kernels))
    tb = time.time()

    def comp(job):
        s, be = job
        return build.Program(s, be)
    progs = build.compile_all([(s_, be) for s_ in (src, src2) for be in build.BACKENDS])
    for i, be in enumerate(build.BACKENDS):
        _PROGS[be] = progs[i]
        c13._PROGS[be] = progs[2 + i]
    log("[C02] compiled %d + %d kernels with both back ends in %.1fs" % (len(kernels), len(na_kernels), time.time() - tb))
    jobs = [("newarray", i, tier) for i in range(len(na_kernels))] + [("kernel", i, tier) for i in range(len(kernels))]
    flt = os.environ.get("VERIF_DEV_FILTER")          # development aid only
    if flt:
        jobs = [j for j in jobs if flt in (("newarray-" + na_kernels[j[1]]["name"]) if j[0] == "newarray" else
                                           (kernels[j[1]].name + " " + tree_label(kernels[j[1]])))]
    results = par.run_jobs(dispatch, jobs)
    rep = Reporter(PID)
    analysed, unsupported, samples = [], [], []
    nq = und = replays = vruns = 0
    q_total, st_total, cvc5_checked = 0, 0.0, 0
    mnemonics = set()
    reported = set()
    unreproduced = []
    unrepro = []
    for job, (st, r) in zip(jobs, results):
        if st == "err":
            raise Inconclusive("worker failed for %s: %s" % (job[:2], r))
        if r["status"] != "ok":
            unsupported.append("%s (%s): %s" % (r["kernel"], r.get("label", r["family"]), r.get("reason")))
            continue
        analysed.append(r)
        if flt:
            log("   %s %s paths=%s queries=%s %.1fs" % (r["kernel"], r.get("label", ""), r["paths"],
                                                      [(q.get("kind"), q["result"]) for q in r["queries"]], r["wall_s"]))
        mnemonics.update(r["mnemonics"])
        q_total += r["verdicts"]["queries"] + r.get("explore_queries", 0)
        st_total += r["verdicts"]["solver_time_s"] + r.get("explore_solver_s", 0)
        cvc5_checked += r["verdicts"]["cvc5_cross_checked"]
        nq += len(r["queries"])
        und += sum(1 for q in r["queries"] if q["result"] == "unknown")
        for v in r.get("validation", []):
            vruns += v["runs"]
            if v["mismatches"] and not r["candidates"]:
                # (with candidates the difference is what the witnesses are about: they are replayed below)
                raise Inconclusive("encoding wrong? lifted code and real executable differ: %s" % v["mismatches"][0])
        bykey = {}
        for c in r["candidates"]:
            replays += 1
            obs = c.get("observed")
            if r["family"] == "newarray":
                if c["kind"] == "hazard":
                    o = obs[c["backend"]]
                    bad = o[0] in ("crash", "hang", "other", "corrupt") or (o[0] == "accepted" and c["class"] != "valid")
                    key = "newarray/%s/elem%d/%s" % (c["backend"], r["elem"], c["class"])
                    what = "%s code generator, %s, n=%d (%s length): %s; real executable: %s" % (
                        c["backend"], r["kernel"], c["n"], c["class"], "; ".join(c["why"]), o)
                else:
                    bad = obs["cannon"] != obs["boots"]
                    key = "newarray/disagree/elem%d/%s" % (r["elem"], c["class"])
                    what = "code generators disagree on %s with n=%d (%s length): baseline %s, optimizing %s" % (
                        r["kernel"], c["n"], c["class"], obs["cannon"], obs["boots"])
                    if not bad and any(is_crash(o) or (o[0] == "accepted" and c["class"] != "valid") for o in obs.values()):
                        continue     # both misbehave identically: reported by the hazard entries
                replay = {"check": PID, "family": "newarray", "kernel": c13._CTX["kernels"][job[1]], "which": job[1],
                          "source": c13.source(na_kernels), "n": c["n"], "kind": c["kind"], "class": c["class"],
                          "backend": c.get("backend"), "observed": obs}
            else:
                if obs is None:
                    unrepro.append("witness of %s cannot be passed to the driver (%s)" % (r["kernel"], str(c)[:300]))
                    continue
                if c["kind"] == "hazard":
                    # observable as a crash, or (an access outside the object that hits mapped
                    # memory does not crash) as a difference to the other code generator
                    bad = is_crash(obs[c["backend"]]) or obs["cannon"] != obs["boots"]
                    key = "hazard/%s/%s/%s" % (r["label"], c["backend"], c["what"])
                    what = "%s code generator, kernel `%s`, args %s: %s (%s); real executable: %s" % (
                        c["backend"], r["source"], c["argv"][1:], c["what"], c["detail"], obs[c["backend"]])
                else:
                    bad = obs["cannon"] != obs["boots"]
                    key = "agree/%s/%s-vs-%s" % (r["label"], obs["cannon"][0], obs["boots"][0])
                    what = "code generators disagree on kernel `%s` with args %s: baseline %s, optimizing %s" % (
                        r["source"], c["argv"][1:], obs["cannon"], obs["boots"])
                replay = {"check": PID, "family": r["family"], "kernel_source": r["source"], "driver": kern.driver_source(kernels),
                          "argv": c["argv"], "kind": c["kind"], "backend": c.get("backend"), "observed": obs}
            bykey.setdefault(key, []).append((bad, what, replay, c, obs))
        if bykey and not any(x[0] for lst in bykey.values() for x in lst):
            unrepro.append("%s %s" % (r["kernel"], [(x[3].get("kind"), x[3].get("argv", x[3].get("n")), x[4])
                                                    for lst in bykey.values() for x in lst][:3]))
            continue
        for key, lst in bykey.items():
            good = [x for x in lst if x[0]]
            if not good:
                # another assertion of the same kernel reproduced; this one is not observable
                # from outside (e.g. an out-of-bounds read of mapped memory): counted only
                unreproduced.append("%s: %s" % (r["kernel"], key))
                continue
            bad, what, replay, c, obs = good[0]
            if key in reported:
                continue
            reported.add(key)
            rep.violation(key, what, replay)
            samples.append({"kernel": r["kernel"], "key": key, "observed": obs, "witness": c.get("argv", c.get("n"))})
    if not analysed:
        raise Inconclusive("no kernel could be analysed: " + "; ".join(unsupported)[:600])
    if unrepro and not rep.new:
        raise Inconclusive("counterexample does not reproduce on the real executables: " + " | ".join(unrepro[:3]))
    fam = {}
    for r in analysed:
        fam.setdefault(r["family"], []).append(r)
    for f in ("single", "tree", "newarray"):
        if flt and f not in fam:
            continue
        if f not in fam:
            raise Inconclusive("no kernel of family %s could be analysed: %s" % (f, "; ".join(unsupported)[:500]))
        qs = [q for r in fam[f] for q in r["queries"]]
        if qs and all(q["result"] == "unknown" for q in qs):
            raise Inconclusive("all queries of family %s undecided" % f)
    novac = [r["kernel"] for r in analysed if r["family"] != "newarray" and r.get("vacuity_return_reachable_in_both") is False]
    if novac and not rep.new:
        raise Inconclusive("vacuity: no input reaches `return` in both back ends for " + ", ".join(novac[:10]))
    labels = sorted(set(r["label"] for r in analysed if r["family"] == "single"))
    unsup_labels = sorted(set(u.split(" (")[1].split(")")[0] for u in unsupported if " (" in u))
    for r in analysed[:4] + [r for r in analysed if r["family"] == "tree"][:3]:
        samples.append({"kernel": r["kernel"], "source": r.get("source"), "paths": r["paths"], "queries": r["queries"][:4]})
    e = sem.Env(layout)
    models.install_alloc(e, traps["OOM"], build.default_max_heap())
    assumptions = e.assumption_texts + [
        "arguments: baseline code is lifted with arbitrary upper register bits for sub-64-bit arguments, optimizing code with zero-extended ones (its own convention); Bool arguments are 0/1, Char arguments Unicode scalar values",
        "array arguments: non-null, 8-aligned, length word == len <= 2^32, valid memory is exactly [p, p+16+len*elem); Bool/Char elements read by a kernel hold valid values",
        "returned value = low bits of rax of the result type's width",
        "stack, thread-local block and heap are disjoint; llvm-objdump-14 decodes correctly; instruction semantics of vsym/x64/sem.py; gc_alloc contract as in C13",
        "witnesses are passed to the real executables through a generated driver (arrays of length <= 8)",
    ]
    cov = {
        "programs": len(analysed),
        "disagreements_checked": replays,
        "samples": samples,
        "functions_encoded": len(analysed) * 2,
        "operators_covered": labels,
        "operators_unsupported": unsup_labels,
        "trees": len(fam.get("tree", [])),
        "bounds": {"tree_depth": 3, "loop_visits": 6, "newarray_loop_cut": 2, "array_length": "<= 2^32 symbolic"},
        "queries": q_total, "solver_time_s": round(st_total, 2), "verdict_queries": nq, "verdict_queries_undecided": und,
        "cvc5_cross_checked": cvc5_checked,
        "vacuity_witnesses": {"return_reachable_in_both": sum(1 for r in analysed if r.get("vacuity_return_reachable_in_both")),
                              "kernels_with_trap_paths": sum(1 for r in analysed if any(r.get("trap_kinds", {}).values()))},
        "translator_validation_runs": vruns,
        "candidates_not_observable_from_outside": unreproduced,
        "witnesses_not_reproduced": unrepro,
        "unsupported_kernels": unsupported,
        "mnemonics_executed": sorted(mnemonics),
        "known_findings_hit": [k for k, _ in rep.known_hit],
        "outside_the_claim": ["every runnable program shipped in the repository", "Rust natives", "wire format of the optimizing compiler",
                              "arm64 output", "floating point arithmetic and comparisons; only float<->int conversions are covered", "calls, classes, closures, strings",
                              "shift-count hazard (decided against the reference in C01)"],
    }
    common.write_evidence(PID, tier, "translation_validation", cov, assumptions, time.time() - t0, violations=len(rep.new))
    log("[C02] %d kernels analysed (%d unsupported), %d verdict queries (%d undecided), %d replays, %d validation runs, %.1fs"
        % (len(analysed), len(unsupported), nq, und, replays, vruns, time.time() - t0))
    return rep.exit_code()


def main(tier):
    return run_check(tier)


def replay(path):
    import json
    d = json.load(open(path))["replay"]
    build.toolchain()
    traps = build.trap_kinds()
    wd = build.workdir("c02-replay")
    src = os.path.join(wd, "r.dora")
    obs = {}
    if d["family"] == "newarray":
        open(src, "w").write(d["source"])
        for be in build.BACKENDS:
            obs[be] = list(c13.classify_run(build.Program(src, be).run([d["which"], d["n"]], timeout=120), d["n"], traps))
        if d["kind"] == "disagree":
            bad = obs["cannon"] != obs["boots"]
        else:
            o = obs[d["backend"]]
            bad = o[0] in ("crash", "hang", "other", "corrupt") or (o[0] == "accepted" and d["class"] != "valid")
    else:
        open(src, "w").write(d["driver"])
        for be in build.BACKENDS:
            obs[be] = list(tv.observe(build.Program(src, be).run(d["argv"], timeout=120), traps))
        bad = obs["cannon"] != obs["boots"] if d["kind"] == "disagree" else is_crash(obs[d["backend"]])
    print("replay: %s (recorded %s)" % (obs, d["observed"]))
    if bad:
        print("VIOLATION property=%s replay=%s" % (PID, path))
        return 1
    return 0
